fn main() {}
