//! C03 part (b) — a wake-up from any thread is never lost: real runtime, real threads, both
//! drivers, and the external event loop of compio-compat (`RuntimeCompat<TokioAdapter>::execute` on
//! a current-thread tokio runtime).  DESIGN §3 C03 (b).
//!
//! Every target future (the main future and 0-3 spawned tasks) follows the contract every waker
//! user follows: an *event* is posted (a counter is incremented), then the target's waker is
//! invoked from a plain OS thread.  The future registers its waker, then reads the counter; it
//! completes once it has observed all events.  If a wake is lost the runtime stays blocked in its
//! driver with an event posted and unobserved.  The verdict is never a matter of timing: when the
//! watchdog expires the harness applies ONE semantically redundant wake; if that makes the runtime
//! observe the posted events, the original wake was lost (violation), otherwise the case is
//! inconclusive.

use std::{
    future::Future,
    pin::Pin,
    sync::{
        atomic::{AtomicBool, AtomicU64, Ordering::SeqCst},
        mpsc, Arc, Mutex,
    },
    task::{Context, Poll, Waker},
    time::{Duration, Instant},
};

use compio_driver::{DriverType, ProactorBuilder};
use serde::{Deserialize, Serialize};
use vcore::{
    mono_ix,
    proptest::{collection::vec, prelude::*},
    Outcome, Part, Session,
};

// ------------------------------------------------------------------------------------------------
// case

#[derive(Debug, Clone, Copy, Serialize, Deserialize, PartialEq)]
pub enum Mode {
    /// `Runtime::block_on`: the runtime blocks in its own driver
    Native,
    /// `RuntimeCompat<TokioAdapter>::execute`: tokio waits on the driver's descriptor
    CompatTokio,
}

#[derive(Debug, Clone, Copy, Serialize, Deserialize, PartialEq)]
pub enum How {
    ByRef,
    /// `waker.clone().wake()`
    ByValue,
    /// clone, drop the clone, then `wake_by_ref`
    CloneDrop,
    /// two wakes back to back for one event (coalescing)
    Twice,
}

#[derive(Debug, Clone, Copy, Serialize, Deserialize)]
pub struct WakeOp {
    /// raw draw -> target: 0 = the main future, 1.. = spawned task
    pub target: u16,
    /// wait until the runtime has observed everything posted so far (it then goes idle: the main
    /// future returns Pending with nothing else to do and the runtime blocks in its driver)
    pub settle: bool,
    /// then busy-wait that many microseconds before waking
    pub spin_us: u16,
    pub how: How,
}

#[derive(Debug, Clone, Serialize, Deserialize)]
pub struct Case {
    pub mode: Mode,
    pub iour: bool,
    /// raw draw -> sync queue size in {1, 2, 3, 64}
    pub queue: u16,
    /// spawned tasks besides the main future
    pub tasks: u8,
    /// one list per waking thread
    pub threads: Vec<Vec<WakeOp>>,
    /// external loop only: one `poll_with(0)` before `execute` arms the io_uring notifier.  Always true in
    /// generated cases (known finding C03/lost-wake/external-loop-notifier-unarmed); false only in
    /// its regression case
    #[serde(default = "yes")]
    pub prearm: bool,
}

fn yes() -> bool {
    true
}

const QUEUES: [usize; 4] = [1, 2, 3, 64];

fn strategy() -> impl Strategy<Value = Case> + Clone {
    let how = prop_oneof![4 => Just(How::ByRef), 2 => Just(How::ByValue), 1 => Just(How::CloneDrop), 1 => Just(How::Twice)];
    let spin = prop_oneof![3 => Just(0u16), 3 => 1u16..30, 3 => 30u16..600, 1 => 600u16..3000];
    let op = (any::<u16>(), prop_oneof![3 => Just(true), 2 => Just(false)], spin, how).prop_map(|(target, settle, spin_us, how)| WakeOp { target, settle, spin_us, how });
    (prop_oneof![Just(Mode::Native), Just(Mode::CompatTokio)], any::<bool>(), any::<u16>(), 0u8..=3, vec(vec(op, 1..6), 1..=4))
        .prop_map(|(mode, iour, queue, tasks, threads)| Case { mode, iour, queue, tasks, threads, prearm: true })
        .sboxed()
}

// ------------------------------------------------------------------------------------------------
// instrumented targets

struct Target {
    /// events posted so far
    posted: AtomicU64,
    /// events whose wake() call has returned
    woken: AtomicU64,
    /// highest `posted` value a poll has observed
    seen: AtomicU64,
    polls: AtomicU64,
    total: u64,
    waker: Mutex<Option<Waker>>,
}

struct Shared {
    targets: Vec<Arc<Target>>,
    /// nanoseconds (since `t0`) at which the last poll of any target ended
    last_poll_end: AtomicU64,
    t0: Instant,
    abort: AtomicBool,
    /// makes every target complete at its next poll (teardown after a verdict)
    force_done: AtomicBool,
}

struct Observe {
    sh: Arc<Shared>,
    ix: usize,
}

impl Future for Observe {
    type Output = ();

    fn poll(self: Pin<&mut Self>, cx: &mut Context<'_>) -> Poll<()> {
        let t = &self.sh.targets[self.ix];
        t.polls.fetch_add(1, SeqCst);
        {
            // register first, read afterwards: an event posted after the read finds this waker
            let mut w = t.waker.lock().unwrap();
            if !w.as_ref().is_some_and(|w| w.will_wake(cx.waker())) {
                *w = Some(cx.waker().clone());
            }
        }
        let posted = t.posted.load(SeqCst);
        t.seen.fetch_max(posted, SeqCst);
        let done = posted == t.total || self.sh.force_done.load(SeqCst);
        self.sh.last_poll_end.store(self.sh.t0.elapsed().as_nanos() as u64, SeqCst);
        if done {
            Poll::Ready(())
        } else {
            Poll::Pending
        }
    }
}

// ------------------------------------------------------------------------------------------------
// interpreter

/// ≥ 20x the slowest case seen on the loaded machine (cases take milliseconds); a hit is judged by
/// the rescue rule, never by itself
const WATCHDOG: Duration = Duration::from_secs(30);
const RESCUE: Duration = Duration::from_secs(3);

/// Invoke a waker from a helper thread: `wake()` of a task waker waits while the cross-thread queue is
/// full, which is for ever when the runtime is blocked; the harness thread itself must never get stuck.
fn wake_with_deadline(w: Waker, d: Duration) -> bool {
    let h = match std::thread::Builder::new().name("c03b-rescue-wake".into()).spawn(move || w.wake_by_ref()) {
        Ok(h) => h,
        Err(_) => return false,
    };
    let s = Instant::now();
    while !h.is_finished() && s.elapsed() < d {
        std::thread::sleep(Duration::from_millis(1));
    }
    if h.is_finished() {
        let _ = h.join();
        true
    } else {
        false
    }
}

fn busy_wait(us: u64) {
    let s = Instant::now();
    while (s.elapsed().as_nanos() as u64) < us * 1000 {
        std::hint::spin_loop();
    }
}

#[derive(Default)]
struct ThreadStats {
    wakes: u64,
    /// wakes issued when no target had been polled for >= 200 µs (the runtime was most probably blocked)
    while_idle: u64,
    /// wakes issued < 20 µs after a poll ended (around the transition into the blocking call)
    near_poll_end: u64,
}

fn run(case: &Case) -> Outcome {
    run_inner(case, true)
}

fn run_inner(case: &Case, allow_control: bool) -> Outcome {
    let ntargets = 1 + case.tasks as usize;
    let mut totals = vec![0u64; ntargets];
    for t in &case.threads {
        for op in t {
            totals[mono_ix(op.target, ntargets)] += 1;
        }
    }
    let sh = Arc::new(Shared {
        targets: totals
            .iter()
            .map(|&total| Arc::new(Target { posted: AtomicU64::new(0), woken: AtomicU64::new(0), seen: AtomicU64::new(0), polls: AtomicU64::new(0), total, waker: Mutex::new(None) }))
            .collect(),
        last_poll_end: AtomicU64::new(0),
        t0: Instant::now(),
        abort: AtomicBool::new(false),
        force_done: AtomicBool::new(false),
    });

    // ---- rescue channel: an unrelated descriptor the runtime waits on in a detached task; a byte written to
    // its peer makes the kernel complete that operation, which returns the driver from its blocking call no
    // matter what happened to the wake notification
    let (rescue_rt, rescue_harness) = match std::os::unix::net::UnixStream::pair() {
        Ok(p) => p,
        Err(e) => return Outcome::inconclusive(format!("socketpair: {e}")),
    };
    // ---- runtime thread
    let (done_tx, done_rx) = mpsc::channel::<Result<(), String>>();
    let sh_rt = sh.clone();
    let c = case.clone();
    let rt_thread = std::thread::Builder::new()
        .name("c03b-runtime".into())
        .spawn(move || {
            let r = (|| -> Result<(), String> {
                let mut pb = ProactorBuilder::new();
                pb.driver_type(if c.iour { DriverType::IoUring } else { DriverType::Poll });
                let rt = compio_runtime::RuntimeBuilder::new().with_proactor(pb).sync_queue_size(QUEUES[mono_ix(c.queue, 4)]).build().map_err(|e| format!("runtime build: {e}"))?;
                let sh = sh_rt.clone();
                let ntasks = c.tasks as usize;
                let main = async move {
                    if let Ok(fd) = compio_runtime::fd::PollFd::new(rescue_rt) {
                        compio_runtime::spawn(async move {
                            let _ = fd.read_ready().await;
                        })
                        .detach();
                    }
                    let handles: Vec<_> = (1..=ntasks).map(|ix| compio_runtime::spawn(Observe { sh: sh.clone(), ix })).collect();
                    Observe { sh: sh.clone(), ix: 0 }.await;
                    for h in handles {
                        let _ = h.await;
                    }
                };
                match c.mode {
                    Mode::Native => {
                        rt.block_on(main);
                    }
                    Mode::CompatTokio => {
                        if c.prearm {
                            // semantically a no-op: nothing is submitted, nothing can complete
                            rt.poll_with(Some(Duration::ZERO));
                        }
                        let trt = tokio::runtime::Builder::new_current_thread().enable_all().build().map_err(|e| format!("tokio build: {e}"))?;
                        trt.block_on(async move {
                            let compat = compio_compat::RuntimeCompat::<compio_compat::TokioAdapter>::new(rt).map_err(|e| format!("compat: {e}"))?;
                            compat.execute(main).await;
                            Ok::<(), String>(())
                        })?;
                    }
                }
                Ok(())
            })();
            let _ = done_tx.send(r);
        });
    let rt_thread = match rt_thread {
        Ok(t) => t,
        Err(e) => return Outcome::inconclusive(format!("spawn: {e}")),
    };

    // wait until the runtime is up: the main future has been polled once
    let start = Instant::now();
    while sh.targets[0].polls.load(SeqCst) == 0 {
        if let Ok(r) = done_rx.try_recv() {
            let _ = rt_thread.join();
            if std::env::var("C03B_TRACE").is_ok() {
                eprintln!("c03b: runtime thread ended early: {r:?}");
            }
            return match r {
                Err(e) => Outcome::inconclusive(e),
                Ok(()) => Outcome::pass(false, &["no-events"]),
            };
        }
        if start.elapsed() > WATCHDOG {
            if std::env::var("C03B_TRACE").is_ok() {
                eprintln!("c03b: runtime thread did not start polling");
            }
            return Outcome::inconclusive("runtime thread did not start polling");
        }
        std::thread::yield_now();
    }

    // ---- waking threads
    let mut wakers = vec![];
    for (ti, ops) in case.threads.iter().enumerate() {
        let sh = sh.clone();
        let ops = ops.clone();
        wakers.push(
            std::thread::Builder::new()
                .name(format!("c03b-waker-{ti}"))
                .spawn(move || {
                    let mut st = ThreadStats::default();
                    for op in ops {
                        let t = &sh.targets[mono_ix(op.target, sh.targets.len())];
                        if op.settle {
                            // everything posted so far has been observed: the runtime has nothing left to do
                            while !sh.targets.iter().all(|t| t.seen.load(SeqCst) >= t.posted.load(SeqCst)) {
                                if sh.abort.load(SeqCst) {
                                    return st;
                                }
                                // (the machine is loaded: never spin against the runtime thread)
                                std::thread::yield_now();
                            }
                        }
                        busy_wait(op.spin_us as u64);
                        // a spawned task registers its waker at its first poll
                        let w = loop {
                            if let Some(w) = t.waker.lock().unwrap().clone() {
                                break w;
                            }
                            if sh.abort.load(SeqCst) {
                                return st;
                            }
                            std::thread::yield_now();
                        };
                        let since_poll = (sh.t0.elapsed().as_nanos() as u64).saturating_sub(sh.last_poll_end.load(SeqCst));
                        t.posted.fetch_add(1, SeqCst);
                        match op.how {
                            How::ByRef => w.wake_by_ref(),
                            How::ByValue => w.clone().wake(),
                            How::CloneDrop => {
                                drop(w.clone());
                                w.wake_by_ref()
                            }
                            How::Twice => {
                                w.wake_by_ref();
                                w.wake_by_ref()
                            }
                        }
                        t.woken.fetch_add(1, SeqCst);
                        st.wakes += 1;
                        if since_poll >= 200_000 {
                            st.while_idle += 1;
                        } else if since_poll < 20_000 {
                            st.near_poll_end += 1;
                        }
                    }
                    st
                })
                .expect("spawn waker thread"),
        );
    }

    // ---- wait for the runtime to finish
    let sig_mode = match (case.mode, case.iour) {
        (Mode::Native, true) => "native/io-uring",
        (Mode::Native, false) => "native/poll",
        (Mode::CompatTokio, true) => "compat-tokio/io-uring",
        (Mode::CompatTokio, false) => "compat-tokio/poll",
    };
    // the regression case of the known (deterministic) shape is judged by rescue + differential control, so a
    // shorter wait only makes it cheaper, never changes a verdict
    let watchdog = if case.prearm { WATCHDOG } else { Duration::from_secs(8) };
    // (sensitivity runs only: a mutant makes most cases hang, `C03B_WATCHDOG_S` keeps such a run short)
    let watchdog = std::env::var("C03B_WATCHDOG_S").ok().and_then(|v| v.parse().ok()).map(Duration::from_secs).unwrap_or(watchdog);
    let verdict: Result<(), Outcome> = match done_rx.recv_timeout(watchdog) {
        Ok(Ok(())) => Ok(()),
        Ok(Err(e)) => Err(Outcome::inconclusive(e)),
        Err(_) => {
            // rescue rule.  Candidates: events posted, their wake() returned, and still unobserved.
            let lost: Vec<usize> = (0..ntargets)
                .filter(|&i| {
                    let t = &sh.targets[i];
                    let p = t.posted.load(SeqCst);
                    t.woken.load(SeqCst) == p && t.seen.load(SeqCst) < p
                })
                .collect();
            let snapshot: Vec<String> = (0..ntargets)
                .map(|i| {
                    let t = &sh.targets[i];
                    format!("target{i}: posted {} woken {} seen {} of {} polls {}", t.posted.load(SeqCst), t.woken.load(SeqCst), t.seen.load(SeqCst), t.total, t.polls.load(SeqCst))
                })
                .collect();
            if std::env::var("C03B_TRACE").is_ok() {
                eprintln!("c03b: watchdog: {}", snapshot.join("; "));
            }
            let out = if lost.is_empty() {
                Outcome::inconclusive(format!("watchdog without an unobserved posted event ({})", snapshot.join("; ")))
            } else {
                // ONE redundant wake of one affected target
                let i = lost[0];
                let before: Vec<u64> = sh.targets.iter().map(|t| t.polls.load(SeqCst)).collect();
                let w = sh.targets[i].waker.lock().unwrap().clone();
                if let Some(w) = w {
                    wake_with_deadline(w, RESCUE);
                }
                let s = Instant::now();
                let mut rescued = false;
                while s.elapsed() < RESCUE {
                    let t = &sh.targets[i];
                    if t.seen.load(SeqCst) >= t.posted.load(SeqCst) {
                        rescued = true;
                        break;
                    }
                    std::thread::sleep(Duration::from_millis(2));
                }
                // stage 2: an unrelated I/O completion (equally redundant if the wake had been delivered)
                let mut rescued_by_io = false;
                if !rescued {
                    use std::io::Write;
                    let _ = (&rescue_harness).write(&[1]);
                    let s = Instant::now();
                    while s.elapsed() < RESCUE {
                        let t = &sh.targets[i];
                        if t.seen.load(SeqCst) >= t.posted.load(SeqCst) {
                            rescued_by_io = true;
                            break;
                        }
                        std::thread::sleep(Duration::from_millis(2));
                    }
                }
                let known_shape = case.mode == Mode::CompatTokio && case.iour && !case.prearm;
                if rescued {
                    Outcome::violation(
                        format!("C03/real/{sig_mode}/lost-wake/{}", if i == 0 { "main-future" } else { "spawned-task" }),
                        format!(
                            "an event was posted and wake() returned, the runtime did not poll the target for {WATCHDOG:?}; one redundant wake made it observe the event (polls before the rescue {before:?}). {}",
                            snapshot.join("; ")
                        ),
                    )
                } else if rescued_by_io && !known_shape {
                    Outcome::violation(
                        format!("C03/real/{sig_mode}/wake-not-delivered-until-unrelated-io/{}", if i == 0 { "main-future" } else { "spawned-task" }),
                        format!(
                            "an event was posted and wake() returned, the runtime stayed blocked for {WATCHDOG:?}, a redundant wake did not reach it either; the completion of an unrelated descriptor made it observe the event. {}",
                            snapshot.join("; ")
                        ),
                    )
                } else if allow_control && case.mode == Mode::CompatTokio && case.iour && !case.prearm {
                    // differential control for the known shape: the same case with the notifier armed by one
                    // redundant poll before execute().  If that runs to completion the hang is the unarmed notifier.
                    let mut control = case.clone();
                    control.prearm = true;
                    match run_inner(&control, false) {
                        Outcome::Pass { .. } => Outcome::violation(
                            "C03/lost-wake/external-loop-notifier-unarmed",
                            format!(
                                "RuntimeCompat<TokioAdapter>::execute on a fresh io_uring runtime: wake() returned, the external loop never polled again and a redundant wake does not reach it either; the same case completes when one poll_with(0) precedes execute(). {}",
                                snapshot.join("; ")
                            ),
                        ),
                        _ => Outcome::inconclusive(format!("watchdog, the redundant wake did not help, control run did not pass either ({})", snapshot.join("; "))),
                    }
                } else {
                    Outcome::inconclusive(format!("watchdog, the redundant wake did not help ({})", snapshot.join("; ")))
                }
            };
            Err(out)
        }
    };

    // ---- teardown: no thread outlives the case
    sh.abort.store(true, SeqCst);
    let mut stats = ThreadStats::default();
    let mut stuck_wakers = 0;
    for w in wakers {
        // a thread that spins inside wake() on a full queue of a runtime that never drains cannot be joined
        let s = Instant::now();
        while !w.is_finished() && (verdict.is_ok() || s.elapsed() < RESCUE) {
            std::thread::sleep(Duration::from_millis(1));
        }
        if !w.is_finished() {
            stuck_wakers += 1;
            continue;
        }
        if let Ok(s) = w.join() {
            stats.wakes += s.wakes;
            stats.while_idle += s.while_idle;
            stats.near_poll_end += s.near_poll_end;
        }
    }
    let verdict = match verdict {
        Err(Outcome::Inconclusive { why }) if stuck_wakers > 0 => Err(Outcome::inconclusive(format!("{why}; {stuck_wakers} waking thread(s) never returned from wake()"))),
        v => v,
    };
    if verdict.is_err() {
        sh.force_done.store(true, SeqCst);
        let s = Instant::now();
        loop {
            for t in &sh.targets {
                let w = t.waker.lock().unwrap().clone();
                if let Some(w) = w {
                    wake_with_deadline(w, Duration::from_millis(200));
                }
            }
            {
                use std::io::Write;
                let _ = (&rescue_harness).write(&[1]);
            }
            if done_rx.recv_timeout(Duration::from_millis(50)).is_ok() {
                let _ = rt_thread.join();
                break;
            }
            if s.elapsed() > RESCUE {
                // a runtime that cannot be woken at all: leave the thread behind (reported by the verdict)
                break;
            }
        }
    } else {
        let _ = rt_thread.join();
    }
    if let Err(o) = verdict {
        if std::env::var("C03B_TRACE").is_ok() {
            eprintln!("c03b: {o:?}");
        }
        return o;
    }

    // every event was observed, hence every target was polled after its last wake
    for (i, t) in sh.targets.iter().enumerate() {
        if t.seen.load(SeqCst) != t.total || t.posted.load(SeqCst) != t.total {
            return Outcome::violation("C03/real/HARNESS-accounting", format!("target{i}: seen {} posted {} total {}", t.seen.load(SeqCst), t.posted.load(SeqCst), t.total));
        }
    }
    let mut labels = vec![format!("mode:{sig_mode}"), format!("queue:{}", QUEUES[mono_ix(case.queue, 4)]), format!("threads:{}", case.threads.len()), format!("tasks:{}", case.tasks)];
    if stats.while_idle > 0 {
        labels.push("wake-while-runtime-idle>=200us".into());
    }
    if stats.near_poll_end > 0 {
        labels.push("wake<20us-after-a-poll".into());
    }
    if case.threads.len() > 1 {
        labels.push("concurrent-wakers".into());
    }
    if totals.iter().skip(1).any(|&t| t > 0) {
        labels.push("cross-thread-task-wake(sync queue)".into());
    }
    Outcome::pass_owned(stats.while_idle > 0, labels)
}

fn main() {
    let mut s = Session::new();
    let mut p = Part::new(
        "C03",
        "real-threads",
        "case = {Runtime::block_on | RuntimeCompat<TokioAdapter>::execute on a current-thread tokio runtime; driver io-uring | poll; \
         sync queue size in {1,2,3,64}; main future + 0-3 spawned tasks, all instrumented (register waker, then read the event counter, \
         count polls); 1-4 OS threads each with 1-5 operations {target, settle = wait until the runtime has observed everything posted \
         and therefore went idle, busy-wait 0-3000 us, post an event and wake (wake_by_ref | clone().wake() | clone+drop+wake_by_ref | \
         twice)}}. Oracle: the runtime finishes, i.e. every target observes every posted event, i.e. it is polled again after the last \
         wake returned; a runtime that is still blocked after the watchdog is judged by the rescue rule (one redundant wake makes it \
         observe the event => the original wake was lost => violation; otherwise inconclusive). Non-trivial = at least one wake issued \
         when no target had been polled for >= 200 us (main future Pending, nothing else to do: the runtime thread was inside its \
         blocking driver poll / tokio was waiting on the driver descriptor).",
    );
    p.quick_cases = 400;
    p.thorough_cases = 12_000;
    p.threads = 2;
    p.replay_repeats = 25;
    p.max_shrink_iters = 12;
    let op = |target, settle, spin_us, how| WakeOp { target, settle, spin_us, how };
    p.regressions = vec![
        (
            // known finding: external loop on io_uring, notifier not armed before the first wait
            "known-external-loop-notifier-unarmed",
            Case { mode: Mode::CompatTokio, iour: true, queue: 65535, tasks: 0, threads: vec![vec![op(0, true, 300, How::ByRef)]], prearm: false },
        ),
        (
            "blocked-then-woken-native-iour",
            Case { mode: Mode::Native, iour: true, queue: 0, tasks: 2, threads: vec![vec![op(0, true, 800, How::ByRef), op(30000, true, 800, How::ByValue), op(65535, true, 0, How::Twice)], vec![op(65535, false, 0, How::ByRef); 5]], prearm: true },
        ),
        (
            "blocked-then-woken-native-poll",
            Case { mode: Mode::Native, iour: false, queue: 0, tasks: 2, threads: vec![vec![op(0, true, 800, How::ByRef), op(30000, true, 800, How::ByValue), op(65535, true, 0, How::Twice)], vec![op(65535, false, 0, How::ByRef); 5]], prearm: true },
        ),
        (
            "blocked-then-woken-compat-iour",
            Case { mode: Mode::CompatTokio, iour: true, queue: 0, tasks: 1, threads: vec![vec![op(0, true, 800, How::ByRef), op(65535, true, 500, How::ByRef), op(0, true, 0, How::CloneDrop)], vec![op(0, false, 3, How::ByRef); 4]], prearm: true },
        ),
        (
            "blocked-then-woken-compat-poll",
            Case { mode: Mode::CompatTokio, iour: false, queue: 0, tasks: 1, threads: vec![vec![op(0, true, 800, How::ByRef), op(65535, true, 500, How::ByRef), op(0, true, 0, How::CloneDrop)], vec![op(0, false, 3, How::ByRef); 4]], prearm: true },
        ),
    ];
    p.assumptions = vec![
        "thread interleavings belong to the OS: cases are generated, schedules are not (the shuttle part c03a owns the schedules of the executor and the awake flag)",
        "the future follows the register-then-read protocol, so a poll that starts after the event was posted observes it",
    ];
    s.run_part(p, strategy(), run);
    s.finish();
}
