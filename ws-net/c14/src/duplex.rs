//! C14, part "duplex": request/response over one connection with real back-pressure.
//!
//! End A uploads more than the socket buffers hold (small SO_SNDBUF/SO_RCVBUF, a peer that reads at its own
//! pace) while A's read of the reply is already armed on the same descriptor; end B replies only after it has
//! read the whole upload.  Nothing but the blocked send itself can make progress, so the send has to be
//! resumed when the descriptor becomes writable although a receive is queued on it as well.
//! Oracle: B reads exactly the bytes A sent (position coded), A reads exactly the reply.  A transfer without
//! progress for 4 s is judged by state, not by time: if the kernel reports A's descriptor writable (poll(2))
//! while A's send is still pending, the send was not resumed = violation; otherwise inconclusive.
use std::{cell::Cell, io, os::fd::AsRawFd, rc::Rc, time::Duration};

use compio_buf::BufResult;
use compio_io::{AsyncRead, AsyncReadExt, AsyncWrite, AsyncWriteExt};
use compio_net::{TcpListener, TcpStream, UnixListener, UnixStream};
use netlab::{build_rt, fill, join_now, mismatch, Drv, RtCfg};
use serde::{Deserialize, Serialize};
use vcore::{proptest::prelude::*, Outcome, Part, Session};

use crate::stream::Transport;

#[derive(Debug, Clone, Serialize, Deserialize)]
pub struct DuplexCase {
    pub drv: Drv,
    pub transport: Transport,
    /// upload size in KiB
    pub upload_kib: u16,
    pub reply: u16,
    /// SO_SNDBUF on A / SO_RCVBUF on B (0 = default)
    pub bufs: u32,
    /// A writes with `write_all` of the whole payload, or in chunks of that many KiB
    pub chunk_kib: u8,
    /// B reads with buffers of that many bytes and yields that often between reads
    pub b_cap: u16,
    pub b_yield: u8,
    /// the reply read on A is armed before the upload starts (else after it finished: the control shape)
    pub read_armed: bool,
}

fn strategy() -> impl Strategy<Value = DuplexCase> + Clone {
    (
        prop_oneof![Just(Drv::IoUring), Just(Drv::Poll)],
        prop_oneof![2 => Just(Transport::Tcp4), 1 => Just(Transport::Tcp6), 2 => Just(Transport::Unix)],
        prop_oneof![2 => 1u16..64, 3 => 64u16..1024, 1 => 1024u16..4096],
        1u16..2000,
        prop_oneof![2 => Just(0u32), 2 => Just(4096u32), 1 => Just(65536u32)],
        prop_oneof![2 => Just(0u8), 1 => 1u8..64],
        prop_oneof![1 => 1u16..64, 3 => 64u16..=u16::MAX],
        0u8..3,
        prop_oneof![4 => Just(true), 1 => Just(false)],
    )
        .prop_map(|(drv, transport, upload_kib, reply, bufs, chunk_kib, b_cap, b_yield, read_armed)| {
            // tiny socket buffers make TCP crawl (one delayed ACK per window): keep those uploads small, they still
            // exceed the buffers many times over
            let upload_kib = match bufs {
                4096 => 1 + upload_kib % 96,
                65536 => 1 + upload_kib % 1024,
                _ => upload_kib,
            };
            (drv, transport, upload_kib, reply, bufs, chunk_kib, b_cap, b_yield, read_armed)
        })
        .prop_map(|(drv, transport, upload_kib, reply, bufs, chunk_kib, b_cap, b_yield, read_armed)| DuplexCase { drv, transport, upload_kib, reply, bufs, chunk_kib, b_cap, b_yield, read_armed })
}

fn set_buf(fd: i32, opt: i32, v: u32) {
    if v > 0 {
        let v = v as libc::c_int;
        unsafe { libc::setsockopt(fd, libc::SOL_SOCKET, opt, &v as *const _ as *const _, std::mem::size_of::<libc::c_int>() as u32) };
    }
}

struct St {
    sent: Cell<u64>,
    send_done: Cell<bool>,
    got_b: Cell<u64>,
    reply_got: Cell<u64>,
    bad: std::cell::RefCell<Option<(String, String)>>,
}

async fn side_a<S>(s: S, case: DuplexCase, st: Rc<St>) -> io::Result<()>
where
    S: Clone + 'static,
    for<'a> &'a S: AsyncRead + AsyncWrite,
{
    let total = case.upload_kib as usize * 1024;
    let reply_len = case.reply as usize;
    let reader = {
        let (s, st) = (s.clone(), st.clone());
        move || async move {
            let BufResult(r, buf) = (&s).read_exact(Vec::with_capacity(reply_len)).await;
            r?;
            st.reply_got.set(buf.len() as u64);
            if let Some(p) = mismatch(77, 0, &buf) {
                *st.bad.borrow_mut() = Some(("C14/duplex/reply-mismatch".into(), format!("reply byte {p} differs")));
            }
            io::Result::Ok(())
        }
    };
    let armed = if case.read_armed { Some(compio_runtime::spawn(reader.clone()())) } else { None };
    if armed.is_some() {
        // let the read reach the driver before the upload starts
        crate::util::yield_now().await;
    }
    let chunk = if case.chunk_kib == 0 { total.max(1) } else { case.chunk_kib as usize * 1024 };
    let mut pos = 0usize;
    while pos < total {
        let n = chunk.min(total - pos);
        let BufResult(r, _) = (&s).write_all(fill(5, pos as u64, n)).await;
        r?;
        pos += n;
        st.sent.set(pos as u64);
    }
    st.send_done.set(true);
    match armed {
        Some(h) => h.await.map_err(|_| io::Error::other("reader task failed"))??,
        None => reader().await?,
    }
    Ok(())
}

async fn side_b<S>(s: S, case: DuplexCase, st: Rc<St>) -> io::Result<()>
where
    for<'a> &'a S: AsyncRead + AsyncWrite,
{
    let total = case.upload_kib as u64 * 1024;
    // keep a case affordable: at most ~1500 reads (pure function of the case)
    let cap = (case.b_cap.max(1) as usize).max(total as usize / 1500);
    while st.got_b.get() < total {
        let want = cap.min((total - st.got_b.get()) as usize);
        let BufResult(r, buf) = (&s).read(Vec::with_capacity(want)).await;
        let n = r?;
        if n == 0 {
            *st.bad.borrow_mut() = Some(("C14/duplex/early-eof".into(), format!("end of stream after {} of {total} bytes", st.got_b.get())));
            return Ok(());
        }
        if let Some(p) = mismatch(5, st.got_b.get(), &buf[..n]) {
            *st.bad.borrow_mut() = Some(("C14/duplex/data-mismatch".into(), format!("upload byte {} differs", st.got_b.get() + p as u64)));
            return Ok(());
        }
        st.got_b.set(st.got_b.get() + n as u64);
        for _ in 0..case.b_yield {
            crate::util::yield_now().await;
        }
    }
    let BufResult(r, _) = (&s).write_all(fill(77, 0, case.reply as usize)).await;
    r
}

pub fn run_duplex(case: &DuplexCase) -> Outcome {
    let rt = match build_rt(&RtCfg::new(case.drv)) {
        Ok(rt) => rt,
        Err(e) => return Outcome::inconclusive(format!("runtime build: {e}")),
    };
    let tmp = if case.transport == Transport::Unix { tempfile::Builder::new().prefix("c14x").tempdir().ok() } else { None };
    let st = Rc::new(St { sent: Cell::new(0), send_done: Cell::new(false), got_b: Cell::new(0), reply_got: Cell::new(0), bad: Default::default() });
    let a_fd = Rc::new(Cell::new(-1));
    let (c, st2, a_fd2, path) = (case.clone(), st.clone(), a_fd.clone(), tmp.as_ref().map(|t| t.path().join("x.sock")));
    let mut main = rt.spawn(async move {
        macro_rules! go {
            ($a:expr, $b:expr) => {{
                let (a, b) = ($a, $b);
                set_buf(a.as_raw_fd(), libc::SO_SNDBUF, c.bufs);
                set_buf(b.as_raw_fd(), libc::SO_RCVBUF, c.bufs);
                a_fd2.set(a.as_raw_fd());
                let hb = compio_runtime::spawn(side_b(b, c.clone(), st2.clone()));
                let ra = side_a(a.clone(), c.clone(), st2.clone()).await;
                let rb = hb.await.map_err(|_| io::Error::other("side B failed"))?;
                ra.and(rb)
            }};
        }
        match c.transport {
            Transport::Tcp4 | Transport::Tcp6 => {
                let l = TcpListener::bind(if c.transport == Transport::Tcp4 { "127.0.0.1:0" } else { "[::1]:0" }).await?;
                let addr = l.local_addr()?;
                let acc = compio_runtime::spawn(async move { l.accept().await });
                let a = TcpStream::connect(addr).await?;
                let (b, _) = acc.await.map_err(|_| io::Error::other("accept task failed"))??;
                go!(a, b)
            }
            Transport::Unix => {
                let p = path.unwrap();
                let l = UnixListener::bind(&p).await?;
                let acc = compio_runtime::spawn(async move { l.accept().await });
                let a = UnixStream::connect(&p).await?;
                let (b, _) = acc.await.map_err(|_| io::Error::other("accept task failed"))??;
                go!(a, b)
            }
        }
    });
    // step the runtime; watch for progress
    let mut last = (0u64, 0u64, 0u64);
    let mut last_change = std::time::Instant::now();
    let start = std::time::Instant::now();
    let mut stalled = false;
    rt.enter(|| loop {
        let more = rt.run();
        if main.is_finished() {
            break;
        }
        let now = (st.sent.get(), st.got_b.get(), st.reply_got.get());
        if now != last {
            last = now;
            last_change = std::time::Instant::now();
        }
        if last_change.elapsed() > Duration::from_secs(4) || start.elapsed() > Duration::from_secs(120) {
            // elapsed time alone may be this thread having been descheduled: give the loop 100 more turns and call
            // it a stall only if they bring no progress either
            let mut progressed = false;
            for _ in 0..100 {
                let more = rt.run();
                if main.is_finished() || (st.sent.get(), st.got_b.get(), st.reply_got.get()) != last {
                    progressed = true;
                    break;
                }
                rt.poll_with(Some(if more { Duration::ZERO } else { Duration::from_millis(10) }));
            }
            if main.is_finished() {
                break;
            }
            if progressed && start.elapsed() <= Duration::from_secs(120) {
                last = (st.sent.get(), st.got_b.get(), st.reply_got.get());
                last_change = std::time::Instant::now();
                continue;
            }
            stalled = true;
            break;
        }
        rt.poll_with(Some(if more { Duration::ZERO } else { Duration::from_millis(5) }));
    });
    if let Some((sig, d)) = st.bad.borrow_mut().take() {
        return Outcome::violation(sig, d);
    }
    let total = case.upload_kib as u64 * 1024;
    if stalled {
        // state, not time: is the descriptor of the blocked send writable right now?
        let mut pfd = libc::pollfd { fd: a_fd.get(), events: libc::POLLOUT, revents: 0 };
        let r = unsafe { libc::poll(&mut pfd, 1, 0) };
        let writable = r == 1 && pfd.revents & libc::POLLOUT != 0;
        if !st.send_done.get() && writable && st.got_b.get() < total {
            return Outcome::violation(
                format!("C14/duplex/send-not-resumed-although-writable/{}", case.drv.name()),
                format!(
                    "no progress for 4 s: A has handed {} of {total} upload bytes to completed writes, B has read {}, A's descriptor is writable, yet A's pending write is not resumed (reply read armed on the same descriptor: {})",
                    st.sent.get(),
                    st.got_b.get(),
                    case.read_armed
                ),
            );
        }
        return Outcome::inconclusive(format!("stalled: sent {} got {} reply {} writable {writable}", st.sent.get(), st.got_b.get(), st.reply_got.get()));
    }
    match join_now(&mut main) {
        Some(Ok(Ok(()))) => {}
        Some(Ok(Err(e))) => return Outcome::violation(format!("C14/duplex/io-error/{}", netlab::errno_name(&e)), format!("{e}")),
        Some(Err(e)) => return Outcome::violation(format!("C14/duplex/{}", netlab::strip_digits(&e)), e),
        None => return Outcome::inconclusive("main task not finished"),
    }
    if st.got_b.get() != total || st.reply_got.get() != case.reply as u64 {
        return Outcome::violation("C14/duplex/total-mismatch", format!("B read {} of {total}, A read {} of {} reply bytes", st.got_b.get(), st.reply_got.get(), case.reply));
    }
    let big = total > 256 * 1024 || (case.bufs > 0 && total > 4 * case.bufs as u64);
    let mut labels = vec![format!("drv:{}", case.drv.name()), format!("transport:{:?}", case.transport)];
    if big {
        labels.push("upload-exceeds-buffers".into());
    }
    if case.read_armed {
        labels.push("reply-read-armed".into());
    }
    Outcome::pass_owned(big && case.read_armed, labels)
}

pub fn run(s: &mut Session) {
    let mut p = Part::new(
        "C14",
        "duplex",
        "case = driver {io_uring, poll} x transport {TCP v4, TCP v6, Unix stream} x upload of 1 KiB-4 MiB from end A (write_all of the whole payload or in 1-63 KiB chunks) x SO_SNDBUF/SO_RCVBUF \
         {default, 4 KiB, 64 KiB} x reader B with buffers of 1-65535 bytes yielding 0-2 times between reads x reply of 1-1999 bytes sent by B only after the whole upload arrived x the reply read on A \
         armed before the upload starts (4 in 5) or after it. Non-trivial = the upload exceeds the socket buffers and the reply read is armed during it.",
    );
    p.quick_cases = 80;
    p.thorough_cases = 3000;
    p.threads = 4;
    p.max_shrink_iters = 30;
    p.regressions = vec![
        ("upload-with-armed-reply-read-tcp-poll", DuplexCase { drv: Drv::Poll, transport: Transport::Tcp4, upload_kib: 96, reply: 100, bufs: 4096, chunk_kib: 0, b_cap: 30000, b_yield: 1, read_armed: true }),
        ("upload-with-armed-reply-read-unix-poll", DuplexCase { drv: Drv::Poll, transport: Transport::Unix, upload_kib: 1024, reply: 7, bufs: 0, chunk_kib: 16, b_cap: 4096, b_yield: 0, read_armed: true }),
    ];
    if s.args.shard.0 != 0 {
        p.regressions.clear();
    }
    s.run_part(p, strategy(), run_duplex);
}
