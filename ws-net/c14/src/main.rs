//! C14 — socket transports deliver exactly what was sent (DESIGN.md §3 C14).
mod accept;
mod dgram;
mod duplex;
mod fault;
mod stream;
mod util;

use vcore::Session;

/// set when known_findings.json lists the fusion/poll set_result finding as "known"
pub static EXCLUDE_FUSION_POLL: std::sync::atomic::AtomicBool = std::sync::atomic::AtomicBool::new(false);

fn main() {
    netlab::raise_nofile();
    let mut s = Session::new();
    if s.known_signatures("C14").iter().any(|k| k.contains("empty-item-before-eof/poll")) {
        EXCLUDE_FUSION_POLL.store(true, std::sync::atomic::Ordering::Relaxed);
    }
    stream::run(&mut s);
    dgram::run(&mut s);
    accept::run(&mut s);
    fault::run(&mut s);
    duplex::run(&mut s);
    s.finish();
}
