//! Buffer shapes of C08: construction of the real compio buffers (whole capacity physically
//! initialised, so that the complete capacity region can be observed afterwards) and the *model* of
//! what a read of `n` bytes must leave behind, derived from the compio-buf documentation:
//!
//! * a read writes from the start of `as_uninit()` (the capacity region of the view),
//! * afterwards `advance_to(n)` is applied: the visible length becomes `max(buf_len, n)`;
//!   for a `Slice` that means root length `begin + n` when `n` exceeds the visible part, for an
//!   `Uninit` view (`buf_len() == 0`, region = spare capacity) root length `len + n`,
//! * a vectored read fills the capacity regions of the members in order and, when `n` exceeds
//!   `total_len()`, sets the total length to `n` (members filled greedily in order).
use serde::{Deserialize, Serialize};
use vcore::mono_range;

pub const ARR: usize = 24;

#[derive(Debug, Clone, Serialize, Deserialize, PartialEq)]
pub enum BufKind {
    Vec,
    /// `[u8; 24]`
    Array,
    /// `ArrayVec<u8, 24>`
    ArrayVec,
    /// `vec.slice(begin..end)` / `vec.slice(begin..)`; raw draws mapped into the legal range
    Slice { begin: u16, end: Option<u16> },
    /// `vec.uninit()` — the spare capacity only
    Uninit,
}

#[derive(Debug, Clone, Serialize, Deserialize, PartialEq)]
pub struct BufSpec {
    pub kind: BufKind,
    pub len: u16,
    pub spare: u16,
    pub seed: u8,
}

#[derive(Debug, Clone, Copy, Serialize, Deserialize, PartialEq)]
pub enum VCont {
    VecOfVec,
    Arr2,
    Arr3,
}

#[derive(Debug, Clone, Serialize, Deserialize, PartialEq)]
pub struct VSpec {
    pub cont: VCont,
    /// (len, spare) of every member (`Vec<u8>`); Arr2/Arr3 use the first 2/3, padded with (0,0)
    pub members: Vec<(u8, u8)>,
    pub seed: u8,
}

impl VSpec {
    pub fn member_specs(&self) -> Vec<(usize, usize)> {
        let mut m: Vec<(usize, usize)> = self.members.iter().map(|&(l, s)| (l as usize, s as usize)).collect();
        match self.cont {
            VCont::VecOfVec => {}
            VCont::Arr2 => m.resize(2, (0, 0)),
            VCont::Arr3 => m.resize(3, (0, 0)),
        }
        m
    }
}

/// byte `i` of the initialised part of a buffer with seed `seed`
pub fn data_byte(seed: u8, i: usize) -> u8 {
    (seed as usize).wrapping_mul(37).wrapping_add(i.wrapping_mul(11)).wrapping_add(1) as u8
}

/// byte `i` of the (physically initialised) spare capacity
pub fn spare_byte(i: usize) -> u8 {
    0xE0 | (i & 0x1f) as u8
}

/// Build a `Vec<u8>` with `len` data bytes and exactly-as-allocated capacity, whole capacity written.
pub fn mk_vec(len: usize, spare: usize, seed: u8) -> Vec<u8> {
    let mut v: Vec<u8> = Vec::with_capacity(len + spare);
    let c = v.capacity();
    unsafe {
        for i in 0..c {
            v.as_mut_ptr().add(i).write(if i < len { data_byte(seed, i) } else { spare_byte(i) });
        }
        v.set_len(len);
    }
    v
}

pub fn mk_arr(seed: u8) -> [u8; ARR] {
    std::array::from_fn(|i| data_byte(seed, i))
}

pub fn mk_arrayvec(len: usize, seed: u8) -> arrayvec::ArrayVec<u8, ARR> {
    let len = len.min(ARR);
    let mut a = arrayvec::ArrayVec::<u8, ARR>::new();
    unsafe {
        for i in 0..ARR {
            a.as_mut_ptr().add(i).write(if i < len { data_byte(seed, i) } else { spare_byte(i) });
        }
        a.set_len(len);
    }
    a
}

/// What is observable of a buffer after an operation: its length and its whole capacity region.
#[derive(Debug, Clone, PartialEq)]
pub struct BufObs {
    pub len: usize,
    pub cap: Vec<u8>,
}

pub fn obs_vec(v: &Vec<u8>) -> BufObs {
    // every byte of the capacity was written by `mk_vec` (or by the kernel)
    BufObs { len: v.len(), cap: unsafe { std::slice::from_raw_parts(v.as_ptr(), v.capacity()) }.to_vec() }
}

pub fn obs_arr(a: &[u8; ARR]) -> BufObs {
    BufObs { len: ARR, cap: a.to_vec() }
}

pub fn obs_arrayvec(a: &arrayvec::ArrayVec<u8, ARR>) -> BufObs {
    BufObs { len: a.len(), cap: unsafe { std::slice::from_raw_parts(a.as_ptr(), ARR) }.to_vec() }
}

/// Geometry of a single buffer as the documentation defines it.
#[derive(Debug, Clone)]
pub struct Geom {
    /// root state before the operation
    pub root: BufObs,
    /// offset and length of the capacity region (`as_uninit()`) inside the root capacity
    pub off: usize,
    pub rlen: usize,
    /// `buf_len()` of the view (the initialised part, starts at `off`)
    pub vis: usize,
    /// slice bounds actually used (begin, end)
    pub bounds: (usize, Option<usize>),
}

pub fn geom(spec: &BufSpec) -> Geom {
    match &spec.kind {
        BufKind::Vec => {
            let root = obs_vec(&mk_vec(spec.len as usize, spec.spare as usize, spec.seed));
            Geom { off: 0, rlen: root.cap.len(), vis: root.len, bounds: (0, None), root }
        }
        BufKind::Array => {
            let root = obs_arr(&mk_arr(spec.seed));
            Geom { off: 0, rlen: ARR, vis: ARR, bounds: (0, None), root }
        }
        BufKind::ArrayVec => {
            let root = obs_arrayvec(&mk_arrayvec(spec.len as usize, spec.seed));
            Geom { off: 0, rlen: ARR, vis: root.len, bounds: (0, None), root }
        }
        BufKind::Slice { begin, end } => {
            let root = obs_vec(&mk_vec(spec.len as usize, spec.spare as usize, spec.seed));
            let (len, cap) = (root.len, root.cap.len());
            let b = mono_range(*begin, 0, len);
            let e = end.map(|e| mono_range(e, b, cap + 3));
            let region_end = e.unwrap_or(cap).min(cap);
            let vis_end = e.unwrap_or(len).min(len);
            Geom { off: b, rlen: region_end - b, vis: vis_end - b, bounds: (b, e), root }
        }
        BufKind::Uninit => {
            let root = obs_vec(&mk_vec(spec.len as usize, spec.spare as usize, spec.seed));
            Geom { off: root.len, rlen: root.cap.len() - root.len, vis: 0, bounds: (0, None), root }
        }
    }
}

impl Geom {
    /// the bytes a write of this buffer hands to the OS (`as_init()`)
    pub fn init_bytes(&self) -> &[u8] {
        &self.root.cap[self.off..self.off + self.vis]
    }
}

/// Expected root observation after a successful read of `data` (n = data.len()) into the view.
pub fn after_read(spec: &BufSpec, g: &Geom, data: &[u8]) -> BufObs {
    let n = data.len();
    let mut out = g.root.clone();
    out.cap[g.off..g.off + n].copy_from_slice(data);
    out.len = match spec.kind {
        BufKind::Vec | BufKind::ArrayVec => g.root.len.max(n),
        BufKind::Array => ARR,
        BufKind::Slice { .. } => {
            if n > g.vis {
                g.off + n
            } else {
                g.root.len
            }
        }
        BufKind::Uninit => g.root.len + n,
    };
    out
}

pub fn mk_members(spec: &VSpec) -> Vec<Vec<u8>> {
    spec.member_specs().iter().enumerate().map(|(i, &(l, s))| mk_vec(l, s, spec.seed.wrapping_add(i as u8 * 5))).collect()
}

/// Expected member observations after a successful vectored read that returned `data`.
pub fn after_readv(before: &[BufObs], data: &[u8]) -> Vec<BufObs> {
    let n = data.len();
    let mut out = before.to_vec();
    let mut at = 0;
    for m in out.iter_mut() {
        let k = m.cap.len().min(n - at);
        m.cap[..k].copy_from_slice(&data[at..at + k]);
        at += k;
    }
    let total: usize = before.iter().map(|m| m.len).sum();
    if n > total {
        let mut rem = n;
        for m in out.iter_mut() {
            if rem == 0 {
                break;
            }
            let sub = m.cap.len().min(rem);
            m.len = sub;
            rem -= sub;
        }
    }
    out
}

/// What a vectored read leaves behind when the iovecs cover only the *initialised* part of every
/// member (the shape of the known finding `reads-only-into-initialised-part`): `data` is what the
/// OS delivered into the full capacity regions; the short-sighted read gets its first
/// `min(n, total_len)` bytes.
pub fn after_readv_init_only(before: &[BufObs], data: &[u8]) -> (usize, Vec<BufObs>) {
    let total: usize = before.iter().map(|m| m.len).sum();
    let n = data.len().min(total);
    let mut out = before.to_vec();
    let mut at = 0;
    for m in out.iter_mut() {
        let k = m.len.min(n - at);
        m.cap[..k].copy_from_slice(&data[at..at + k]);
        at += k;
    }
    (n, out)
}
