//! iolib — case types, generators, mocks and interpreters shared by the C11/C12 check binaries
//! (`/verif/ws-io/c11`, `/verif/ws-io/c12`) and by the libFuzzer targets in `/verif/ws-io-fuzz`.
//!
//! Every interpreter is a pure function `fn(&Case) -> vcore::Outcome`: no RNG, no clock, no state
//! shared between cases.
#![allow(async_fn_in_trait)]
#![allow(clippy::type_complexity)]

pub mod arb;
pub mod c11_buf;
pub mod c11_loops;
pub mod c11_mem;
pub mod c12;
pub mod exec;
pub mod fuzz;
pub mod mock;
pub mod pat;
