//! C11 — I/O helpers are invariant under chunking and transient errors (DESIGN.md §3 C11).
use iolib::{c11_buf, c11_loops, c11_mem};
use vcore::{Part, Session};

mod regress;

fn main() {
    let mut s = Session::new();
    // `c11 --from-bytes <libFuzzer artifact>`: convert to a JSON replay file and run it
    if let Some(bytes) = iolib::fuzz::from_bytes_arg(&s.args.rest) {
        use iolib::arb::{c11_any, C11Any};
        let case = c11_any(&mut arbitrary::Unstructured::new(&bytes)).expect("decoding never fails");
        let path = match &case {
            C11Any::Loops(c) => iolib::fuzz::write_replay(&s.args.verif_dir, "C11", "loops", c),
            C11Any::Buffered(c) => iolib::fuzz::write_replay(&s.args.verif_dir, "C11", "buffered", c),
            C11Any::Mem(c) => iolib::fuzz::write_replay(&s.args.verif_dir, "C11", "mem", c),
        };
        eprintln!("replay file: {}", path.display());
        s.args.replay = Some(path);
    }

    let mut p = Part::new("C11", "loops", regress::RULE_LOOPS);
    p.quick_cases = 200_000;
    p.thorough_cases = 8_000_000;
    p.threads = 6;
    p.assumptions = regress::assumptions();
    p.regressions = regress::loops();
    s.run_part(p, c11_loops::case_strategy(), c11_loops::run_helper);

    let mut p = Part::new("C11", "buffered", regress::RULE_BUFFERED);
    p.quick_cases = 150_000;
    p.thorough_cases = 6_000_000;
    p.threads = 6;
    p.regressions = regress::buffered();
    s.run_part(p, c11_buf::case_strategy(), c11_buf::run_buf);

    let mut p = Part::new("C11", "mem", regress::RULE_MEM);
    p.quick_cases = 150_000;
    p.thorough_cases = 6_000_000;
    p.threads = 6;
    p.regressions = regress::mem();
    s.run_part(p, c11_mem::case_strategy(), c11_mem::run_mem);

    s.finish();
}
