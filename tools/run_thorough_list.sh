#!/bin/bash
# usage: run_thorough_list.sh C12 C13 ... — thorough tier of the listed checks, one after the other
cd "$(dirname "$0")/.."
for id in "$@"; do
  t0=$(date +%s)
  out=$(VERIF_TIER=thorough ./check $id --tier thorough 2>&1)
  rc=$?
  echo "THOROUGH $id exit=$rc secs=$(( $(date +%s) - t0 )) $(echo "$out" | grep -E '^check: C' | tail -1)"
  echo "$out" | grep -E "VIOLATION|KNOWN-FINDING|inconclusive \(|exceeded the hard timeout|infrastructure" | cut -c1-300 | sort | uniq -c | head -8
done
