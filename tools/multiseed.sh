#!/bin/bash
# usage: multiseed.sh "<seeds>" [ids...] — quick tier of each check for each seed from fresh processes; prints non-silent runs
cd "$(dirname "$0")/.."
SEEDS=${1:-"1 2 3 4 5"}; shift
IDS=${@:-$(./check --list)}
for id in $IDS; do for s in $SEEDS; do
  out=$(VERIF_SEED=$s ./check $id 2>&1); rc=$?
  v=$(echo "$out" | grep -c "^VIOLATION")
  echo "$id seed=$s exit=$rc violations=$v $(echo "$out" | grep -E '^check: C' | tail -1 | sed 's/.*evaluations/evaluations/')"
  [ $rc -ne 0 ] && echo "$out" | grep -E "VIOLATION|inconclusive|timeout|died" | head -5
done; done
