//! C10 — all buffer views obey one contract (DESIGN.md §3 C10).
//!
//! Oracle is address based and independent of the view implementation: the root allocation is
//! physically pre-filled with a pattern and mirrored in a shadow array; every view state is
//! judged only from the pointers/lengths it reports.
mod vectored;

use std::mem::MaybeUninit;

use compio_buf::{IntoInner, IoBuf, IoBufExt, IoBufMut, IoBufMutExt, SetLen, SetLenExt, Slice, Uninit};
use serde::{Deserialize, Serialize};
use vcore::{
    ensure, mono_range,
    proptest::{collection::vec, prelude::*},
    Outcome, Part, Session,
};

// ------------------------------------------------------------------------------------------------
// case type

#[derive(Debug, Clone, Serialize, Deserialize)]
pub enum Root {
    Vec { len: usize, cap: usize },
    Array16,
    Array0,
    BoxSlice { n: usize },
    BoxVec { len: usize, cap: usize },
    ArrayVec { len: usize },
    SmallVec { len: usize, spill: bool },
    BytesMut { len: usize, cap: usize },
    /// a buffer popped from the driver's fallback buffer pool (`pop` is not supported on the io_uring
    /// ring, where only the kernel selects buffers; the `BufferRef` type and its view code are the same)
    PoolBuf { iour: bool, cap_req: usize, len: usize },
}

/// All bounds are raw 16-bit draws mapped monotonically into the *legal* range of the current view
/// (`begin <= buf_len`, `begin <= end`), because out-of-range parameters panic by contract.
#[derive(Debug, Clone, Serialize, Deserialize)]
pub enum ViewOp {
    /// `slice(a..b)`; `over` lets `b` exceed the capacity by that much (allowed: only begin is checked)
    Slice { a: u16, b: u16, over: u8 },
    SliceFrom { a: u16 },
    SliceToIncl { b: u16 },
    SliceFull,
    Uninit,
    /// `slice(a..b).slice(c..d)` kept as `Slice<Slice<_>>`, or flattened with `.flatten()`
    Nested { a: u16, b: u16, c: u16, d: u16, flatten: bool, inner_open: bool, outer_open: bool },
}

#[derive(Debug, Clone, Copy, Serialize, Deserialize, PartialEq)]
pub enum How {
    /// the way drivers record a read: bytes at `as_uninit()[..k]`, then `advance_to(k)`
    AdvanceTo,
    /// the way writers append: bytes at `as_uninit()[len..len+k]`, then `advance(k)`
    Advance,
    /// as `Advance` but recorded with `set_len(len + k)`
    SetLen,
    /// as `Advance` but through `IoBufMutExt::extend_from_slice`
    Extend,
}

#[derive(Debug, Clone, Serialize, Deserialize)]
pub struct Fill {
    pub k: u16,
    pub how: How,
}

#[derive(Debug, Clone, Serialize, Deserialize)]
pub struct ViewCase {
    pub root: Root,
    pub chain: Vec<ViewOp>,
    pub fills: Vec<Fill>,
}

// ------------------------------------------------------------------------------------------------
// dynamic view tree over the real compio types

pub enum RootBuf {
    Vec(Vec<u8>),
    Array16([u8; 16]),
    Array0([u8; 0]),
    BoxSlice(Box<[u8]>),
    BoxVec(Box<Vec<u8>>),
    ArrayVec(arrayvec::ArrayVec<u8, 16>),
    SmallVec(smallvec::SmallVec<[u8; 8]>),
    BytesMut(bytes::BytesMut),
    Pool(compio_driver::BufferRef),
}

macro_rules! root_each {
    ($s:expr, $b:ident => $e:expr) => {
        match $s {
            RootBuf::Vec($b) => $e,
            RootBuf::Array16($b) => $e,
            RootBuf::Array0($b) => $e,
            RootBuf::BoxSlice($b) => $e,
            RootBuf::BoxVec($b) => $e,
            RootBuf::ArrayVec($b) => $e,
            RootBuf::SmallVec($b) => $e,
            RootBuf::BytesMut($b) => $e,
            RootBuf::Pool($b) => $e,
        }
    };
}

pub enum V {
    Root(RootBuf),
    Slice(Slice<Box<V>>),
    SS(Slice<Slice<Box<V>>>),
    Uninit(Uninit<Box<V>>),
}

impl IoBuf for V {
    fn as_init(&self) -> &[u8] {
        match self {
            V::Root(r) => root_each!(r, b => b.as_init()),
            V::Slice(s) => s.as_init(),
            V::SS(s) => s.as_init(),
            V::Uninit(u) => u.as_init(),
        }
    }
}

impl IoBufMut for V {
    fn as_uninit(&mut self) -> &mut [MaybeUninit<u8>] {
        match self {
            V::Root(r) => root_each!(r, b => b.as_uninit()),
            V::Slice(s) => s.as_uninit(),
            V::SS(s) => s.as_uninit(),
            V::Uninit(u) => u.as_uninit(),
        }
    }
}

impl SetLen for V {
    unsafe fn set_len(&mut self, len: usize) {
        unsafe {
            match self {
                V::Root(r) => root_each!(r, b => SetLen::set_len(b, len)),
                V::Slice(s) => s.set_len(len),
                V::SS(s) => s.set_len(len),
                V::Uninit(u) => u.set_len(len),
            }
        }
    }
}

impl V {
    fn unwrap_one(self) -> Result<Box<V>, RootBuf> {
        match self {
            V::Root(r) => Err(r),
            V::Slice(s) => Ok(s.into_inner()),
            V::SS(s) => Ok(s.into_inner().into_inner()),
            V::Uninit(u) => Ok(u.into_inner()),
        }
    }
}

thread_local! {
    static PROACTORS: std::cell::RefCell<[Option<compio_driver::Proactor>; 2]> = const { std::cell::RefCell::new([None, None]) };
}

fn pool_buf(iour: bool) -> Option<compio_driver::BufferRef> {
    PROACTORS.with(|p| {
        let mut p = p.borrow_mut();
        let slot = &mut p[iour as usize];
        if slot.is_none() {
            let mut b = compio_driver::ProactorBuilder::new();
            b.driver_type(if iour { compio_driver::DriverType::IoUring } else { compio_driver::DriverType::Poll })
                .buffer_pool_size(std::num::NonZero::new(4).unwrap())
                .buffer_pool_buffer_len(48)
                .capacity(8);
            *slot = b.build().map_err(|e| eprintln!("proactor build: {e}")).ok();
        }
        let pr = slot.as_mut()?;
        pr.buffer_pool().map_err(|e| eprintln!("buffer_pool: {e}")).ok()?.pop().map_err(|e| eprintln!("pop({iour}): {e}")).ok()
    })
}

const PRE: fn(usize) -> u8 = |i| ((i * 7 + 3) & 0x7f) as u8;

/// Build the root with its *whole* allocation physically initialised to the pattern.
fn build_root(r: &Root) -> Option<RootBuf> {
    fn prefill_vec(len: usize, cap: usize) -> Vec<u8> {
        let cap = cap.max(len);
        let mut v: Vec<u8> = Vec::with_capacity(cap);
        let c = v.capacity();
        unsafe {
            for i in 0..c {
                v.as_mut_ptr().add(i).write(PRE(i));
            }
            v.set_len(len);
        }
        v
    }
    Some(match *r {
        Root::Vec { len, cap } => RootBuf::Vec(prefill_vec(len, cap)),
        Root::Array16 => RootBuf::Array16(std::array::from_fn(PRE)),
        Root::Array0 => RootBuf::Array0([]),
        Root::BoxSlice { n } => RootBuf::BoxSlice((0..n).map(PRE).collect::<Vec<_>>().into_boxed_slice()),
        Root::BoxVec { len, cap } => RootBuf::BoxVec(Box::new(prefill_vec(len, cap))),
        Root::ArrayVec { len } => {
            let mut a = arrayvec::ArrayVec::<u8, 16>::new();
            unsafe {
                for i in 0..16 {
                    a.as_mut_ptr().add(i).write(PRE(i));
                }
                a.set_len(len.min(16));
            }
            RootBuf::ArrayVec(a)
        }
        Root::SmallVec { len, spill } => {
            let mut s = smallvec::SmallVec::<[u8; 8]>::new();
            if spill {
                s.reserve_exact(20);
            }
            let c = s.capacity();
            unsafe {
                for i in 0..c {
                    s.as_mut_ptr().add(i).write(PRE(i));
                }
                s.set_len(len.min(c));
            }
            RootBuf::SmallVec(s)
        }
        Root::BytesMut { len, cap } => {
            let cap = cap.max(len).max(1);
            let mut b = bytes::BytesMut::with_capacity(cap);
            let c = b.capacity();
            unsafe {
                for i in 0..c {
                    b.as_mut_ptr().add(i).write(PRE(i));
                }
                b.set_len(len.min(c));
            }
            RootBuf::BytesMut(b)
        }
        Root::PoolBuf { iour, cap_req, len } => {
            let mut b = pool_buf(iour)?;
            // the full allocation is 48 bytes; initialise it physically before narrowing
            let full = b.as_uninit();
            for (i, x) in full.iter_mut().enumerate() {
                x.write(PRE(i));
            }
            // record a length first, then narrow the capacity: set_capacity must clamp the length
            let c = b.buf_capacity();
            unsafe { SetLen::set_len(&mut b, len.min(c)) };
            b.set_capacity(cap_req);
            RootBuf::Pool(b)
        }
    })
}

// ------------------------------------------------------------------------------------------------
// interpreter

struct Geo {
    base: usize,
    cap: usize,
}

/// Reference model of the view geometry, written from the rustdoc: `slice(b..e)` is Rust slicing of
/// the parent's region (end clipped to the parent's capacity), `uninit()` is the parent's
/// uninitialised tail and keeps following it.
#[derive(Debug, Clone, Copy)]
enum MOp {
    Slice { b: usize, e: Option<usize> },
    Uninit,
}

/// (offset in root, capacity, initialised length) of the view described by `ops`
fn model_window(ops: &[MOp], root_cap: usize, root_len: usize) -> (usize, usize, usize) {
    let (mut off, mut cap, mut len) = (0usize, root_cap, root_len);
    for op in ops {
        match *op {
            MOp::Slice { b, e } => {
                let ncap = e.unwrap_or(cap).min(cap).saturating_sub(b);
                let nlen = e.unwrap_or(len).min(len).saturating_sub(b);
                off += b;
                cap = ncap;
                len = nlen;
            }
            MOp::Uninit => {
                off += len;
                cap -= len;
                len = 0;
            }
        }
    }
    (off, cap, len)
}

fn addr(p: *const u8) -> usize {
    p as usize
}

/// Check the per-state invariants of a view from what it reports.
fn check_view(v: &mut V, geo: &Geo, root_len: usize, fixed_len_root: bool, stage: &str, kind: &str, mops: &[MOp]) -> Result<(usize, usize, usize), Outcome> {
    let (ip, il) = {
        let s = <V as IoBuf>::as_init(v);
        (addr(s.as_ptr()), s.len())
    };
    let (up, ul) = {
        let s = <V as IoBufMut>::as_uninit(v);
        (addr(s.as_ptr() as *const u8), s.len())
    };
    let fail = |sig: &str, d: String| Err(Outcome::violation(format!("C10/{sig}/{kind}"), format!("{stage}: {d}")));
    if il > ul {
        return fail("len>cap", format!("buf_len {il} > buf_capacity {ul}"));
    }
    if ul > 0 && !(up >= geo.base && up + ul <= geo.base + geo.cap) {
        return fail("window-outside-root", format!("as_uninit [{:#x},+{ul}) outside root [{:#x},+{})", up, geo.base, geo.cap));
    }
    if il > 0 {
        if !(ip >= geo.base && ip + il <= geo.base + geo.cap) {
            return fail("init-outside-root", format!("as_init [{:#x},+{il}) outside root [{:#x},+{})", ip, geo.base, geo.cap));
        }
        if ip != up {
            return fail(
                "init-not-prefix",
                format!("as_init starts at root+{} but as_uninit starts at root+{} (init len {il}, cap {ul})", ip - geo.base, up.wrapping_sub(geo.base)),
            );
        }
    }
    // initialised part == (root initialised range) ∩ window, when the window is non-empty
    if ul > 0 {
        let off = up - geo.base;
        let want = if fixed_len_root { ul } else { root_len.saturating_sub(off).min(ul) };
        if il != want {
            return fail(
                "init-len-mismatch",
                format!("window root+{off}..+{ul}, root initialised len {root_len}: view reports {il} initialised bytes, expected {want}"),
            );
        }
    }
    // exact geometry against the reference model of the documented slicing semantics
    let (moff, mcap, mlen) = model_window(mops, geo.cap, if fixed_len_root { geo.cap } else { root_len });
    if ul != mcap || il != mlen || (ul > 0 && up - geo.base != moff) {
        return fail(
            "window-differs-from-model",
            format!(
                "view reports writable root+{}..+{ul} with {il} initialised; slicing semantics give root+{moff}..+{mcap} with {mlen} initialised (ops {:?}, root len {root_len} cap {})",
                up.wrapping_sub(geo.base),
                mops,
                geo.cap
            ),
        );
    }
    Ok((up, ul, il))
}

fn kind_of(chain: &[ViewOp]) -> &'static str {
    if chain.iter().any(|o| matches!(o, ViewOp::Uninit)) {
        return "uninit";
    }
    match chain.last() {
        None => "root",
        Some(ViewOp::Uninit) => "uninit",
        Some(ViewOp::Nested { flatten: true, .. }) => "flatten",
        Some(ViewOp::Nested { .. }) => "slice-slice",
        Some(_) => "slice",
    }
}

pub fn run_view(case: &ViewCase) -> Outcome {
    let Some(rootbuf) = build_root(&case.root) else {
        return Outcome::inconclusive("no pool buffer available");
    };
    let fixed_len_root = matches!(case.root, Root::Array16 | Root::Array0 | Root::BoxSlice { .. });
    let mut top: Box<V> = Box::new(V::Root(rootbuf));
    let geo = {
        let s = top.as_uninit();
        Geo { base: addr(s.as_ptr() as *const u8), cap: s.len() }
    };
    let mut root_len = top.as_init().len();
    let mut shadow: Vec<u8> = (0..geo.cap).map(PRE).collect();
    // physical sanity of the harness itself
    let phys = unsafe { std::slice::from_raw_parts(geo.base as *const u8, geo.cap) };
    if geo.cap > 0 && phys != &shadow[..] {
        return Outcome::inconclusive("harness: pre-image not in place");
    }
    let mut labels: Vec<String> = vec![];
    let mut depth = 0;
    let mut applied: Vec<ViewOp> = vec![];
    let mut mops: Vec<MOp> = vec![];
    if let Err(o) = check_view(&mut top, &geo, root_len, fixed_len_root, "root", "root", &[]) {
        return o;
    }
    for op in &case.chain {
        let len = top.buf_len();
        let cap = top.buf_capacity();
        let new = match *op {
            ViewOp::Slice { a, b, over } => {
                let begin = mono_range(a, 0, len);
                let end = mono_range(b, begin, cap.max(begin)) + if over > 200 { (over - 200) as usize } else { 0 };
                mops.push(MOp::Slice { b: begin, e: Some(end) });
                V::Slice(top.slice(begin..end))
            }
            ViewOp::SliceFrom { a } => {
                let begin = mono_range(a, 0, len);
                mops.push(MOp::Slice { b: begin, e: None });
                V::Slice(top.slice(begin..))
            }
            ViewOp::SliceToIncl { b } => {
                let e = mono_range(b, 0, cap);
                mops.push(MOp::Slice { b: 0, e: Some(e + 1) });
                V::Slice(top.slice(..=e))
            }
            ViewOp::SliceFull => {
                mops.push(MOp::Slice { b: 0, e: None });
                V::Slice(top.slice(..))
            }
            ViewOp::Uninit => {
                mops.push(MOp::Uninit);
                V::Uninit(top.uninit())
            }
            ViewOp::Nested { a, b, c, d, flatten, inner_open, outer_open } => {
                let begin = mono_range(a, 0, len);
                let end = mono_range(b, begin, cap.max(begin));
                let s1 = if inner_open { top.slice(begin..) } else { top.slice(begin..end) };
                mops.push(MOp::Slice { b: begin, e: if inner_open { None } else { Some(end) } });
                let l1 = s1.buf_len();
                let c1 = { let mut t = s1; let c = t.buf_capacity(); (t, c) };
                let (s1, c1) = c1;
                let b2 = mono_range(c, 0, l1);
                let e2 = mono_range(d, b2, c1.max(b2) + 3); // may exceed the inner window: clipped by contract
                let s2 = if outer_open { s1.slice(b2..) } else { s1.slice(b2..e2) };
                mops.push(MOp::Slice { b: b2, e: if outer_open { None } else { Some(e2) } });
                if flatten {
                    V::Slice(s2.flatten())
                } else {
                    V::SS(s2)
                }
            }
        };
        top = Box::new(new);
        depth += 1;
        applied.push(op.clone());
        let stage = format!("after view #{depth} {:?}", op);
        if let Err(o) = check_view(&mut top, &geo, root_len, fixed_len_root, &stage, kind_of(&applied), &mops) {
            return o;
        }
    }
    let kind = kind_of(&applied);
    match kind {
        "uninit" => labels.push("uninit".into()),
        "flatten" => labels.push("flatten".into()),
        "slice-slice" => labels.push("slice-slice".into()),
        _ => {}
    }
    if depth >= 2 {
        labels.push("nested".into());
    }
    labels.push(format!(
        "root:{}",
        match case.root {
            Root::Vec { .. } => "vec",
            Root::Array16 | Root::Array0 => "array",
            Root::BoxSlice { .. } => "boxslice",
            Root::BoxVec { .. } => "boxvec",
            Root::ArrayVec { .. } => "arrayvec",
            Root::SmallVec { .. } => "smallvec",
            Root::BytesMut { .. } => "bytesmut",
            Root::PoolBuf { iour: true, .. } => "pool-ring",
            Root::PoolBuf { iour: false, .. } => "pool-fallback",
        }
    ));

    // ---- fills
    let mut fills_done = 0;
    for (fi, f) in case.fills.iter().enumerate() {
        let stage = format!("before fill #{fi}");
        let (up, ul, il) = match check_view(&mut top, &geo, root_len, fixed_len_root, &stage, kind, &mops) {
            Ok(x) => x,
            Err(o) => return o,
        };
        let data = |k: usize| -> Vec<u8> { (0..k).map(|j| 0x80 | ((fi * 37 + j * 3 + 1) & 0x7f) as u8).collect() };
        let (woff, k) = match f.how {
            How::AdvanceTo => {
                let k = mono_range(f.k, 0, ul);
                let d = data(k);
                let dst = top.as_uninit();
                for (x, y) in dst.iter_mut().zip(d.iter()) {
                    x.write(*y);
                }
                unsafe { top.advance_to(k) };
                (up.wrapping_sub(geo.base), k)
            }
            How::Advance | How::SetLen => {
                let k = mono_range(f.k, 0, ul - il);
                let d = data(k);
                let dst = &mut top.as_uninit()[il..];
                for (x, y) in dst.iter_mut().zip(d.iter()) {
                    x.write(*y);
                }
                // a zero-byte fill records nothing: `advance(0)` / `set_len(len)` on a slice whose end
                // lies inside the root's data is a *shrinking* set_len (Slice::set_len sets the root to
                // begin+len), which is outside "recording written bytes" — see DESIGN.md C10 notes
                if k > 0 {
                    unsafe {
                        if f.how == How::Advance {
                            top.advance(k)
                        } else {
                            SetLen::set_len(&mut *top, il + k)
                        }
                    }
                };
                (up.wrapping_sub(geo.base) + il, k)
            }
            How::Extend => {
                let k = mono_range(f.k, 0, ul - il);
                let d = data(k);
                if top.extend_from_slice(&d).is_err() {
                    return Outcome::violation(
                        format!("C10/extend-refused/{kind}"),
                        format!("fill #{fi}: extend_from_slice({k}) refused although {ul}-{il} bytes are spare"),
                    );
                }
                (up.wrapping_sub(geo.base) + il, k)
            }
        };
        if k > 0 {
            let d = data(k);
            if woff + k > geo.cap {
                return Outcome::violation(format!("C10/write-outside-root/{kind}"), format!("fill #{fi} wrote at root+{woff}..+{k}"));
            }
            shadow[woff..woff + k].copy_from_slice(&d);
            if !fixed_len_root {
                root_len = root_len.max(woff + k);
            }
            fills_done += 1;
            if fills_done == 2 {
                labels.push("refill".into());
            }
            labels.push(format!("fill:{:?}", f.how));
        }
        // memory: only the written range changed
        let phys = unsafe { std::slice::from_raw_parts(geo.base as *const u8, geo.cap) };
        if phys != &shadow[..] {
            let at = phys.iter().zip(shadow.iter()).position(|(a, b)| a != b).unwrap();
            return Outcome::violation(
                format!("C10/content-changed/{kind}"),
                format!("after fill #{fi} ({:?},k={k} at root+{woff}): byte root+{at} is {:#x}, expected {:#x}", f.how, phys[at], shadow[at]),
            );
        }
        let stage = format!("after fill #{fi} ({:?}, k={k}, written at root+{woff})", f.how);
        let (_, _, il2) = match check_view(&mut top, &geo, root_len, fixed_len_root, &stage, kind, &mops) {
            Ok(x) => x,
            Err(o) => return o,
        };
        // the view itself must show the recorded bytes as initialised
        if k > 0 {
            let want_min = match f.how {
                How::AdvanceTo => k,
                _ => il + k,
            };
            ensure!(
                kind == "uninit" || il2 >= want_min,
                format!("C10/recorded-bytes-not-visible/{kind}"),
                "{stage}: view reports {il2} initialised bytes, expected at least {want_min}"
            );
        }
    }

    // ---- unwrap to the root and compare with the model
    let mut cur = top;
    while !matches!(*cur, V::Root(_)) {
        cur = match (*cur).unwrap_one() {
            Ok(inner) => inner,
            Err(_) => unreachable!(),
        };
    }
    // the root stays in its box: moving it would move inline storage (arrays, ArrayVec, SmallVec)
    let mut rootv = cur;
    let (rp, rl) = {
        let s = rootv.as_init();
        (addr(s.as_ptr()), s.len())
    };
    let (up, ul) = {
        let s = rootv.as_uninit();
        (addr(s.as_ptr() as *const u8), s.len())
    };
    ensure!(ul == geo.cap && (ul == 0 || up == geo.base), format!("C10/root-moved/{kind}"), "root allocation moved or resized: {up:#x}+{ul} vs {:#x}+{}", geo.base, geo.cap);
    ensure!(rl <= ul, format!("C10/root-len>cap/{kind}"), "root len {rl} > cap {ul}");
    ensure!(
        rl == root_len,
        format!("C10/root-len-mismatch/{kind}"),
        "after unwrapping, root reports {rl} initialised bytes; the fills recorded through the view make it {root_len} (case {:?})",
        case
    );
    if rl > 0 {
        ensure!(rp == geo.base, format!("C10/root-init-moved/{kind}"), "root as_init pointer moved");
        let s = rootv.as_init();
        ensure!(s == &shadow[..rl], format!("C10/root-content/{kind}"), "root content differs from the model");
    }
    drop(rootv);
    let nontrivial = depth >= 1 && fills_done >= 1;
    Outcome::pass_owned(nontrivial, labels)
}

// ------------------------------------------------------------------------------------------------
// generators

fn root_strategy() -> impl Strategy<Value = Root> + Clone {
    prop_oneof![
        4 => (0usize..=24, 0usize..=40).prop_map(|(len, extra)| Root::Vec { len, cap: len + extra }),
        1 => Just(Root::Array16),
        1 => Just(Root::Array0),
        1 => (0usize..=24).prop_map(|n| Root::BoxSlice { n }),
        1 => (0usize..=24, 0usize..=24).prop_map(|(len, extra)| Root::BoxVec { len, cap: len + extra }),
        2 => (0usize..=16).prop_map(|len| Root::ArrayVec { len }),
        2 => (0usize..=8, any::<bool>()).prop_map(|(len, spill)| Root::SmallVec { len: if spill { len * 3 } else { len }, spill }),
        2 => (0usize..=24, 0usize..=40).prop_map(|(len, extra)| Root::BytesMut { len, cap: len + extra }),
        2 => (0usize..=60, 0usize..=48).prop_map(|(cap_req, len)| Root::PoolBuf { iour: false, cap_req, len }),
    ]
}

fn op_strategy() -> impl Strategy<Value = ViewOp> + Clone {
    prop_oneof![
        3 => (any::<u16>(), any::<u16>(), any::<u8>()).prop_map(|(a, b, over)| ViewOp::Slice { a, b, over }),
        2 => any::<u16>().prop_map(|a| ViewOp::SliceFrom { a }),
        1 => any::<u16>().prop_map(|b| ViewOp::SliceToIncl { b }),
        1 => Just(ViewOp::SliceFull),
        3 => Just(ViewOp::Uninit),
        3 => (any::<u16>(), any::<u16>(), any::<u16>(), any::<u16>(), any::<bool>(), any::<bool>(), any::<bool>()).prop_map(|(a, b, c, d, flatten, inner_open, outer_open)| ViewOp::Nested { a, b, c, d, flatten, inner_open, outer_open }),
    ]
}

fn fill_strategy() -> impl Strategy<Value = Fill> + Clone {
    (
        prop_oneof![3 => any::<u16>(), 1 => Just(u16::MAX), 1 => Just(0u16)],
        prop_oneof![4 => Just(How::AdvanceTo), 2 => Just(How::Advance), 1 => Just(How::SetLen), 1 => Just(How::Extend)],
    )
        .prop_map(|(k, how)| Fill { k, how })
}

fn case_strategy() -> impl Strategy<Value = ViewCase> + Clone {
    (root_strategy(), vec(op_strategy(), 0..=4), vec(fill_strategy(), 0..=4)).prop_map(|(root, chain, fills)| ViewCase { root, chain, fills })
}

fn main() {
    let mut s = Session::new();
    let mut p = Part::new(
        "C10",
        "views",
        "case = root buffer kind (Vec, arrays, Box<[u8]>, Box<Vec>, ArrayVec, SmallVec inline/spilled, BytesMut, pool BufferRef on both drivers; \
         len<=cap<=64) x chain of 0-4 views (slice(a..b)/(a..)/(..=b)/(..), uninit(), slice-of-slice kept or flatten()) with all bounds drawn \
         in range x 0-4 fills (driver style advance_to, writer style advance/set_len/extend_from_slice). Non-trivial = at least one view and \
         at least one fill with k>0; distinct = distinct serialised case.",
    );
    p.quick_cases = 40_000;
    p.thorough_cases = 2_000_000;
    p.threads = 8;
    p.assumptions = vec![
        "view parameters are drawn inside the documented preconditions (begin <= buf_len, begin <= end)",
        "reserve()/reserve_exact() are not called on pinned views (they may legitimately move the allocation)",
    ];
    p.regressions = vec![
        (
            "uninit-second-fill-advance_to",
            ViewCase {
                root: Root::Vec { len: 2, cap: 10 },
                chain: vec![ViewOp::Uninit],
                fills: vec![Fill { k: 3 * 8192 + 100, how: How::AdvanceTo }, Fill { k: 2 * 13108, how: How::AdvanceTo }],
            },
        ),
        ("slice-of-vec-one-fill", ViewCase { root: Root::Vec { len: 5, cap: 12 }, chain: vec![ViewOp::SliceFrom { a: 30000 }], fills: vec![Fill { k: 40000, how: How::AdvanceTo }] }),
    ];
    s.run_part(p, case_strategy(), run_view);
    vectored::run(&mut s);
    s.finish();
}
