//! C06 part (a) — same-thread descriptor lifecycle (DESIGN.md §3 C06(a)).
//!
//! One case at a time per process (the descriptor table is process global): the descriptor table is
//! scanned with fstat before and after each case, and after every step for the objects of the case.
use std::{
    cell::RefCell,
    sync::{atomic::{AtomicBool, Ordering}, Arc},
    task::{Context, Poll, Wake, Waker},
    collections::BTreeMap,
    future::Future,
    io,
    os::fd::{AsRawFd, RawFd},
    path::PathBuf,
    pin::Pin,
    rc::Rc,
    time::Duration,
};

use compio_driver::{
    op::{Read, ReadAt, Recv, RecvFlags, Write},
    ToSharedFd,
};
use compio_fs::{pipe, File};
use compio_io::{AsyncRead, AsyncReadAt, AsyncWrite};
use compio_net::{TcpListener, TcpStream, UdpSocket, UnixListener, UnixStream};
use compio_runtime::JoinHandle;
use futures_util::StreamExt;
use netlab::{build_rt, drive, join_now, turns, Drv, RtCfg};
use serde::{Deserialize, Serialize};
use vcore::{
    mono_ix,
    proptest::{collection::vec, prelude::*},
    Outcome, Part, Session,
};

// ------------------------------------------------------------------------------------------------
// descriptor table snapshots

#[derive(Debug, Clone, Copy, PartialEq, Eq)]
struct Ident {
    dev: u64,
    ino: u64,
    fmt: u32,
}

fn ident(fd: RawFd) -> Option<Ident> {
    let mut st: libc::stat = unsafe { std::mem::zeroed() };
    if unsafe { libc::fstat(fd, &mut st) } == 0 {
        Some(Ident { dev: st.st_dev as u64, ino: st.st_ino as u64, fmt: st.st_mode & libc::S_IFMT })
    } else {
        None
    }
}

const SCAN: RawFd = 2048;

fn snapshot() -> BTreeMap<RawFd, Ident> {
    (0..SCAN).filter_map(|fd| ident(fd).map(|i| (fd, i))).collect()
}

/// Two consecutive scans that agree: descriptors that another thread of this process is just about
/// to close (a thread-pool worker releasing its reference to the previous case's poller after the
/// runtime is gone) are not part of any case.
fn stable_snapshot() -> BTreeMap<RawFd, Ident> {
    let mut a = snapshot();
    for _ in 0..400 {
        std::thread::sleep(Duration::from_millis(5));
        let b = snapshot();
        if a == b {
            return b;
        }
        a = b;
    }
    a
}

fn describe(fd: RawFd) -> String {
    std::fs::read_link(format!("/proc/self/fd/{fd}")).map(|p| p.display().to_string()).unwrap_or_else(|_| "?".into())
}

// ------------------------------------------------------------------------------------------------
// case type

#[derive(Debug, Clone, Copy, PartialEq, Serialize, Deserialize)]
pub enum ObjKind {
    File,
    Pipe,
    Tcp,
    Unix,
}

#[derive(Debug, Clone, Copy, PartialEq, Serialize, Deserialize)]
pub enum Via {
    /// through the high-level wrapper (the task owns a clone of the handle while the op runs)
    Wrapper,
    /// `compio_runtime::submit(op)` with `handle.to_shared_fd()`: only the operation holds the descriptor
    Raw,
}

#[derive(Debug, Clone, Copy, PartialEq, Serialize, Deserialize)]
pub enum Produce {
    Accept { connect_first: bool },
    Incoming { connect_first: bool },
    AcceptUnix,
    Open,
    /// `File::open` of a FIFO nobody writes to: on the polling driver the open blocks in a thread-pool
    /// job until the harness opens the write end (io_uring: treated as `Open`); never awaited
    OpenFifo,
    Connect,
    Pipe,
    UdpBind,
}

#[derive(Debug, Clone, Serialize, Deserialize)]
pub enum Step {
    Clone { h: u16 },
    DropHandle { h: u16 },
    /// start an operation on handle `h`; `read`: a read that stays pending until the object is fed
    /// (sockets, pipe read end), else an operation that completes at once
    StartOp { h: u16, via: Via, read: bool },
    /// make the pending reads on the object of handle `h` complete
    Feed { h: u16 },
    /// cancel the `t`-th running operation (drop its future)
    CancelOp { t: u16 },
    /// `handle.close().await` as a task, polled by the following turns
    Close { h: u16 },
    Turn { k: u8 },
    /// only the driver half of a turn: completions are recorded, no task runs; the next step acts
    /// in the window "completed in the driver, not yet seen by its future"
    PollOnly,
    /// a descriptor-producing operation; `cancel_after`: drop its future after that many loop turns
    /// (None: let it finish and take the descriptor as a new object)
    /// `half`: one more driver-only poll right before the drop
    Produce {
        what: Produce,
        cancel_after: Option<u8>,
        #[serde(default)]
        half: bool,
    },
}

#[derive(Debug, Clone, Serialize, Deserialize)]
pub struct FdCase {
    pub drv: Drv,
    pub objects: Vec<ObjKind>,
    pub steps: Vec<Step>,
    /// a Close step on an object that already has a waiting close() really calls close() again
    /// (false: it drops the handle instead — the generator's setting while the finding
    /// "close-lost-wakeup/after-second-close" is listed as known)
    #[serde(default)]
    pub second_close: bool,
    /// end of the case: drop the runtime while the remaining handles, pending operations and
    /// close() futures are still alive, instead of releasing them one by one first
    #[serde(default)]
    pub abrupt_end: bool,
    /// with `abrupt_end`: a close() whose close operation is still in flight may be caught by the
    /// runtime's drop (false: such a close() is first driven to its end — the generator's setting
    /// while the finding "descriptor-leaked/close-in-flight-at-runtime-drop" is listed as known)
    #[serde(default)]
    pub close_in_flight_at_drop: bool,
    /// with `abrupt_end`: a thread-pool operation may still be alive when the runtime is dropped
    /// (false: pool operations are finished first — the generator's setting while the finding
    /// "descriptor-leaked/pool-op-outlived-runtime" is listed as known)
    #[serde(default)]
    pub pool_op_at_drop: bool,
}

// ------------------------------------------------------------------------------------------------
// handles

#[derive(Clone)]
enum H {
    File(File),
    PipeRx(pipe::Receiver),
    PipeTx(pipe::Sender),
    Tcp(TcpStream),
    Unix(UnixStream),
    Udp(UdpSocket),
}

impl H {
    fn raw(&self) -> RawFd {
        match self {
            H::File(x) => x.as_raw_fd(),
            H::PipeRx(x) => x.as_raw_fd(),
            H::PipeTx(x) => x.as_raw_fd(),
            H::Tcp(x) => x.as_raw_fd(),
            H::Unix(x) => x.as_raw_fd(),
            H::Udp(x) => x.as_raw_fd(),
        }
    }

    fn name(&self) -> &'static str {
        match self {
            H::File(_) => "file",
            H::PipeRx(_) => "pipe-rx",
            H::PipeTx(_) => "pipe-tx",
            H::Tcp(_) => "tcp",
            H::Unix(_) => "unix",
            H::Udp(_) => "udp",
        }
    }

    fn close(self) -> Pin<Box<dyn Future<Output = io::Result<()>>>> {
        match self {
            H::File(x) => Box::pin(x.close()),
            H::PipeRx(x) => Box::pin(x.close()),
            H::PipeTx(x) => Box::pin(x.close()),
            H::Tcp(x) => Box::pin(x.close()),
            H::Unix(x) => Box::pin(x.close()),
            H::Udp(x) => Box::pin(x.close()),
        }
    }

    /// can a read on this handle stay pending?
    fn can_pend(&self) -> bool {
        matches!(self, H::PipeRx(_) | H::Tcp(_) | H::Unix(_) | H::Udp(_))
    }
}

async fn run_wrapper_op(h: H, read: bool) {
    match h {
        H::File(f) => {
            let _ = f.read_at(Vec::with_capacity(4), 0).await;
        }
        H::PipeRx(r) => {
            let _ = (&r).read(Vec::with_capacity(4)).await;
        }
        H::PipeTx(t) => {
            let _ = (&t).write(vec![1u8]).await;
        }
        H::Tcp(s) => {
            if read {
                let _ = (&s).read(Vec::with_capacity(4)).await;
            } else {
                let _ = (&s).write(vec![1u8]).await;
            }
        }
        H::Unix(s) => {
            if read {
                let _ = (&s).read(Vec::with_capacity(4)).await;
            } else {
                let _ = (&s).write(vec![1u8]).await;
            }
        }
        H::Udp(s) => {
            let _ = s.recv(Vec::with_capacity(4)).await;
        }
    }
}

/// Build the raw operation future while the handle is only borrowed: afterwards the operation alone
/// holds (a clone of) the shared descriptor.
fn raw_op(h: &H, read: bool) -> Pin<Box<dyn Future<Output = ()>>> {
    let none = RecvFlags::empty();
    match h {
        H::File(f) => {
            let fut = compio_runtime::submit(ReadAt::new(f.to_shared_fd(), 0, Vec::<u8>::with_capacity(4)));
            Box::pin(async move {
                let _ = fut.await;
            })
        }
        H::PipeRx(r) => {
            let fut = compio_runtime::submit(Read::new(r.to_shared_fd(), Vec::<u8>::with_capacity(4)));
            Box::pin(async move {
                let _ = fut.await;
            })
        }
        H::PipeTx(t) => {
            let fut = compio_runtime::submit(Write::new(t.to_shared_fd(), vec![1u8]));
            Box::pin(async move {
                let _ = fut.await;
            })
        }
        H::Tcp(s) => {
            if read {
                let fut = compio_runtime::submit(Recv::new(s.to_shared_fd(), Vec::<u8>::with_capacity(4), none));
                Box::pin(async move {
                    let _ = fut.await;
                })
            } else {
                let fut = compio_runtime::submit(Write::new(s.to_shared_fd(), vec![1u8]));
                Box::pin(async move {
                    let _ = fut.await;
                })
            }
        }
        H::Unix(s) => {
            if read {
                let fut = compio_runtime::submit(Recv::new(s.to_shared_fd(), Vec::<u8>::with_capacity(4), none));
                Box::pin(async move {
                    let _ = fut.await;
                })
            } else {
                let fut = compio_runtime::submit(Write::new(s.to_shared_fd(), vec![1u8]));
                Box::pin(async move {
                    let _ = fut.await;
                })
            }
        }
        H::Udp(s) => {
            let fut = compio_runtime::submit(Recv::new(s.to_shared_fd(), Vec::<u8>::with_capacity(4), none));
            Box::pin(async move {
                let _ = fut.await;
            })
        }
    }
}

// ------------------------------------------------------------------------------------------------
// lab state

struct Obj {
    fd: RawFd,
    id: Ident,
    name: &'static str,
    /// harness-owned duplicate of the peer end, to make pending reads complete
    feed: Option<RawFd>,
    closed_seen: bool,
    /// a close() task is waiting (index into tasks) / has finished
    closer_started: bool,
    closer_done: bool,
}

struct Handle {
    obj: usize,
    h: H,
}

enum TaskKind {
    /// `certain`: the operation cannot have completed yet (a read on an end nothing was written to)
    Op { certain_pending: bool },
}

/// What the `compio_verif` event sink has reported for the running case.
#[derive(Default)]
struct OpsSeen {
    /// storage of operations currently alive in the driver: each may hold a clone of a shared descriptor
    live: std::collections::HashSet<usize>,
    /// operations handed to the thread pool whose storage is still alive
    pool: std::collections::HashSet<usize>,
    /// pool operations whose job has finished running
    pool_done: std::collections::HashSet<usize>,
}

static OPS: std::sync::Mutex<Option<OpsSeen>> = std::sync::Mutex::new(None);

fn sink(e: compio_driver::verif::Event) {
    use compio_driver::verif::{Event, SubmitPath};
    if let Ok(mut g) = OPS.lock() {
        if let Some(o) = g.as_mut() {
            match e {
                Event::OpAlloc { id } => {
                    o.live.insert(id);
                }
                Event::OpFree { id } => {
                    o.live.remove(&id);
                    o.pool.remove(&id);
                }
                Event::Submit { id, path: SubmitPath::Blocking } => {
                    o.pool.insert(id);
                }
                // done = the completion entry was handed back to the driver (or found it gone)
                Event::PoolSent { id, .. } => {
                    o.pool_done.insert(id);
                }
                _ => {}
            }
        }
    }
}

fn live_ops() -> usize {
    OPS.lock().ok().and_then(|g| g.as_ref().map(|o| o.live.len())).unwrap_or(0)
}

/// Thread-pool operations whose storage is still alive (job running, or finished and not yet released).
fn pool_ops_alive() -> Vec<usize> {
    OPS.lock().ok().and_then(|g| g.as_ref().map(|o| o.pool.iter().copied().collect())).unwrap_or_default()
}

fn pool_jobs_done(ids: &[usize]) -> bool {
    OPS.lock().ok().and_then(|g| g.as_ref().map(|o| ids.iter().all(|i| o.pool_done.contains(i)))).unwrap_or(true)
}

struct WakeFlag(AtomicBool);

impl Wake for WakeFlag {
    fn wake(self: Arc<Self>) {
        self.0.store(true, Ordering::SeqCst);
    }
}

/// A `close().await` polled by the harness itself: first poll at the Close step, then whenever its
/// waker has been invoked.
struct Closer {
    obj: usize,
    fut: Pin<Box<dyn Future<Output = io::Result<()>>>>,
    flag: Arc<WakeFlag>,
    /// the first close() on its object (later ones are documented to resolve without closing)
    primary: bool,
    result: Option<io::Result<()>>,
}

struct Task {
    obj: usize,
    kind: TaskKind,
    jh: JoinHandle<io::Result<()>>,
}

struct Lab {
    objs: Vec<Obj>,
    handles: Vec<Handle>,
    tasks: Vec<Task>,
    closers: Vec<Closer>,
    /// FIFOs on which a thread-pool `open` may be blocked until the harness opens the write end
    fifos: Vec<PathBuf>,
    /// descriptors opened by the harness itself (feeds, clients, sentinels)
    harness_fds: Vec<RawFd>,
    sentinels: Vec<(RawFd, Ident)>,
    sentinel_dir: PathBuf,
    violation: Option<(String, String)>,
    labels: Vec<String>,
    close_raced: bool,
}

impl Lab {
    fn violate(&mut self, sig: &str, detail: String) {
        if self.violation.is_none() {
            self.violation = Some((format!("C06/{sig}"), detail));
        }
    }

    fn label(&mut self, l: &str) {
        if !self.labels.iter().any(|x| x == l) {
            self.labels.push(l.into());
        }
    }

    fn add_obj(&mut self, h: H, feed: Option<RawFd>) -> usize {
        let fd = h.raw();
        let id = ident(fd).unwrap_or(Ident { dev: 0, ino: 0, fmt: 0 });
        self.objs.push(Obj { fd, id, name: h.name(), feed, closed_seen: false, closer_started: false, closer_done: false });
        let o = self.objs.len() - 1;
        self.handles.push(Handle { obj: o, h });
        o
    }

    /// holders the model is sure about
    fn definite_holders(&self, o: usize) -> usize {
        self.handles.iter().filter(|h| h.obj == o).count()
            + self.tasks.iter().filter(|t| t.obj == o && matches!(t.kind, TaskKind::Op { certain_pending: true }) && !t.jh.is_finished()).count()
    }

    fn open_sentinel(&mut self) {
        let p = self.sentinel_dir.join(format!("s{}", self.sentinels.len()));
        if let Ok(f) = std::fs::File::create(&p) {
            use std::os::fd::IntoRawFd;
            let fd = f.into_raw_fd();
            if let Some(id) = ident(fd) {
                self.sentinels.push((fd, id));
            }
        }
    }

    /// After every step: compare the descriptor table with the model.
    fn audit(&mut self, when: &str) {
        for o in 0..self.objs.len() {
            if self.objs[o].closed_seen {
                continue;
            }
            let open = ident(self.objs[o].fd) == Some(self.objs[o].id);
            if open {
                if self.objs[o].closer_done {
                    let d = format!("{when}: close() of the {} (fd {}) resolved but the descriptor is still open", self.objs[o].name, self.objs[o].fd);
                    self.violate("close-resolved-but-open", d);
                }
                continue;
            }
            // closed: nobody may still hold it
            let holders = self.definite_holders(o);
            if holders > 0 {
                let d = format!(
                    "{when}: descriptor {} ({}) is closed while {} handles and {} pending operations still hold it",
                    self.objs[o].fd,
                    self.objs[o].name,
                    self.handles.iter().filter(|h| h.obj == o).count(),
                    holders - self.handles.iter().filter(|h| h.obj == o).count()
                );
                self.violate("closed-while-held", d);
            }
            self.objs[o].closed_seen = true;
            // fd-reuse trap: whatever closes this number again later destroys the sentinel
            self.open_sentinel();
        }
        for i in 0..self.sentinels.len() {
            let (fd, id) = self.sentinels[i];
            if ident(fd) != Some(id) {
                self.violate("closed-twice", format!("{when}: sentinel descriptor {fd}, opened by the harness right after a close, was closed or replaced by a later step"));
                self.sentinels.remove(i);
                break;
            }
        }
        // finished operation tasks
        let mut i = 0;
        while i < self.tasks.len() {
            if self.tasks[i].jh.is_finished() {
                let mut t = self.tasks.remove(i);
                if let Some(Err(e)) = join_now(&mut t.jh) {
                    self.violate(&netlab::strip_digits(&e), format!("{when}: {e}"));
                }
            } else {
                i += 1;
            }
        }
    }

    /// Poll every closer whose waker fired (or all of them when `force`); returns true if some
    /// closer resolved on a forced poll without having been woken (= its wake-up was lost).
    fn service_closers(&mut self, rt: &compio_runtime::Runtime, when: &str, force: bool) -> bool {
        let mut lost = false;
        for ci in 0..self.closers.len() {
            if self.closers[ci].result.is_some() {
                continue;
            }
            let woken = self.closers[ci].flag.0.swap(false, Ordering::SeqCst);
            if !woken && !(force && self.closers[ci].primary) {
                continue;
            }
            let ops_before = live_ops();
            let waker = Waker::from(self.closers[ci].flag.clone());
            let mut cx = Context::from_waker(&waker);
            let r = rt.enter(|| self.closers[ci].fut.as_mut().poll(&mut cx));
            if force && !woken && (r.is_ready() || live_ops() > ops_before) {
                // progressed (resolved, or went on to submit the close operation) without a wake-up
                lost = true;
            }
            if let Poll::Ready(r) = r {
                let o = self.closers[ci].obj;
                let primary = self.closers[ci].primary;
                match &r {
                    Err(e) => {
                        let d = format!("{when}: close() of the {} failed: {e}", self.objs[o].name);
                        self.violate("close-error", d)
                    }
                    Ok(()) if primary => {
                        let others = self.definite_holders(o);
                        if others > 0 {
                            let d = format!("{when}: close() of the {} (fd {}) resolved while {others} other holders are still alive", self.objs[o].name, self.objs[o].fd);
                            self.violate("close-resolved-early", d);
                        }
                        self.objs[o].closer_done = true;
                        if !self.objs[o].closed_seen && ident(self.objs[o].fd) == Some(self.objs[o].id) {
                            let d = format!("{when}: close() of the {} (fd {}) resolved but the descriptor is still open", self.objs[o].name, self.objs[o].fd);
                            self.violate("close-resolved-but-open", d);
                        } else if !self.objs[o].closed_seen {
                            self.objs[o].closed_seen = true;
                            self.open_sentinel();
                        }
                    }
                    Ok(()) => {}
                }
                self.closers[ci].result = Some(r);
            }
        }
        lost
    }
}

/// Let every `open` that is blocked on one of the FIFOs return: open the write end (non-blocking; it
/// succeeds exactly when a reader is waiting in `open`) and close it again.  A FIFO whose reader has
/// not arrived yet (the pool thread was not scheduled so far) stays in the list for the next try.
fn release_fifos(fifos: &mut Vec<PathBuf>) {
    fifos.retain(|p| {
        let Ok(c) = std::ffi::CString::new(p.as_os_str().as_encoded_bytes()) else { return false };
        let fd = unsafe { libc::open(c.as_ptr(), libc::O_WRONLY | libc::O_NONBLOCK | libc::O_CLOEXEC) };
        if fd >= 0 {
            unsafe { libc::close(fd) };
            false
        } else {
            true
        }
    });
}

fn dup_fd(fd: RawFd) -> Option<RawFd> {
    let r = unsafe { libc::fcntl(fd, libc::F_DUPFD_CLOEXEC, 600) };
    (r >= 0).then_some(r)
}

async fn make_objects(kind: ObjKind, dir: PathBuf, ix: usize) -> io::Result<Vec<H>> {
    Ok(match kind {
        ObjKind::File => {
            let p = dir.join(format!("f{ix}"));
            std::fs::write(&p, b"0123456789")?;
            vec![H::File(File::open(&p).await?)]
        }
        ObjKind::Pipe => {
            let (r, t) = pipe::anonymous().await?;
            vec![H::PipeRx(r), H::PipeTx(t)]
        }
        ObjKind::Tcp => {
            let l = TcpListener::bind("127.0.0.1:0").await?;
            let addr = l.local_addr()?;
            let acc = compio_runtime::spawn(async move { l.accept().await });
            let a = TcpStream::connect(addr).await?;
            let (b, _) = acc.await.map_err(|_| io::Error::other("accept"))??;
            vec![H::Tcp(a), H::Tcp(b)]
        }
        ObjKind::Unix => {
            let p = dir.join(format!("u{ix}.sock"));
            let l = UnixListener::bind(&p).await?;
            let acc = compio_runtime::spawn(async move { l.accept().await });
            let a = UnixStream::connect(&p).await?;
            let (b, _) = acc.await.map_err(|_| io::Error::other("accept"))??;
            vec![H::Unix(a), H::Unix(b)]
        }
    })
}

pub fn run_fd(case: &FdCase) -> Outcome {
    let tmp = match tempfile::Builder::new().prefix("c06a").tempdir() {
        Ok(t) => t,
        Err(e) => return Outcome::inconclusive(format!("tempdir: {e}")),
    };
    let before = stable_snapshot();
    *OPS.lock().unwrap() = Some(Default::default());
    compio_driver::verif::set_sink(Some(sink));
    let out = run_inner(case, tmp.path().to_path_buf());
    compio_driver::verif::set_sink(None);
    // a leaked descriptor stays; one that a worker thread is still closing disappears by itself
    let mut after = snapshot();
    for _ in 0..400 {
        if after == before {
            break;
        }
        std::thread::sleep(Duration::from_millis(5));
        after = snapshot();
    }
    let (mut outcome, lab_labels, nontrivial) = match out {
        Ok((labels, nontrivial)) => (None, labels, nontrivial),
        Err(o) => (Some(o), vec![], false),
    };
    // whatever happened inside, the table must be back to where it was
    let mut leak = None;
    for (fd, id) in &after {
        if before.get(fd) != Some(id) {
            let what = match id.fmt {
                libc::S_IFSOCK => "socket",
                libc::S_IFIFO => "pipe",
                libc::S_IFREG => "file",
                _ => "other",
            };
            let obj = LAST_OBJS.with(|o| o.borrow().iter().find(|x| x.0 == *id).copied());
            let pool_at_drop = POOL_AT_DROP.with(|p| p.get());
            let sig = match obj {
                // precondition observed through the driver's event sink: a thread-pool operation was
                // still alive when the runtime was dropped (since /repo 634e9f0 such an operation is
                // deliberately leaked instead of being released on the pool thread)
                _ if case.abrupt_end && pool_at_drop > 0 => "C06/descriptor-leaked/pool-op-outlived-runtime".to_string(),
                Some((_, _name, true, false)) if case.abrupt_end => "C06/descriptor-leaked/close-in-flight-at-runtime-drop".to_string(),
                _ => format!("C06/descriptor-leaked/{what}"),
            };
            leak.get_or_insert((sig, format!("descriptor {fd} -> {} ({what}) exists after the case and did not exist before", describe(*fd))));
        }
    }
    for (fd, id) in &before {
        if after.get(fd) != Some(id) {
            leak.get_or_insert(("C06/foreign-descriptor-closed".into(), format!("descriptor {fd}, open before the case, is gone or replaced afterwards")));
        }
    }
    match &outcome {
        Some(Outcome::Inconclusive { why }) if why.starts_with("watchdog") => {
            WATCHDOG_STREAK.fetch_add(1, Ordering::Relaxed);
        }
        _ => WATCHDOG_STREAK.store(0, Ordering::Relaxed),
    }
    if let Some(Outcome::Inconclusive { why }) = &outcome {
        if std::env::var("VERIF_VERBOSE").is_ok() {
            eprintln!("INCONCLUSIVE {why}: {}", vcore::serde_json::to_string(case).unwrap_or_default());
        }
    }
    if let Some(o) = outcome.take() {
        // an inconclusive run may legitimately leave operations behind; a violation stands
        return o;
    }
    if let Some((sig, detail)) = leak {
        return Outcome::violation(sig, detail);
    }
    Outcome::pass_owned(nontrivial, lab_labels)
}

thread_local! {
    /// thread-pool operations whose storage was alive when the runtime of the case just run was dropped abruptly
    static POOL_AT_DROP: std::cell::Cell<usize> = const { std::cell::Cell::new(0) };
    /// (identity, kind, close() started, close() finished) of the objects of the case just run
    static LAST_OBJS: RefCell<Vec<(Ident, &'static str, bool, bool)>> = const { RefCell::new(vec![]) };
}

fn run_inner(case: &FdCase, dir: PathBuf) -> Result<(Vec<String>, bool), Outcome> {
    LAST_OBJS.with(|o| o.borrow_mut().clear());
    POOL_AT_DROP.with(|p| p.set(0));
    let cfg = RtCfg::new(case.drv);
    let rt = build_rt(&cfg).map_err(|e| Outcome::inconclusive(format!("runtime build: {e}")))?;
    let lab = Rc::new(RefCell::new(Lab {
        objs: vec![],
        handles: vec![],
        tasks: vec![],
        closers: vec![],
        fifos: vec![],
        harness_fds: vec![],
        sentinels: vec![],
        sentinel_dir: dir.clone(),
        violation: None,
        labels: vec![],
        close_raced: false,
    }));
    // ---- objects
    let kinds = case.objects.clone();
    let d2 = dir.clone();
    let mut mk = rt.spawn(async move {
        let mut v = vec![];
        for (i, k) in kinds.into_iter().enumerate() {
            v.push(make_objects(k, d2.clone(), i).await?);
        }
        io::Result::Ok(v)
    });
    if !drive(&rt, || mk.is_finished(), Duration::from_secs(60)) {
        return Err(Outcome::inconclusive("watchdog: object setup"));
    }
    let groups = match join_now(&mut mk) {
        Some(Ok(Ok(v))) => v,
        _ => return Err(Outcome::inconclusive("object setup failed")),
    };
    {
        let mut l = lab.borrow_mut();
        for g in groups {
            let raws: Vec<RawFd> = g.iter().map(|h| h.raw()).collect();
            let n = g.len();
            for (i, h) in g.into_iter().enumerate() {
                // feed = duplicate of the peer end (sockets: the other stream; pipe read end: the write end)
                let feed = if n == 2 && h.can_pend() { dup_fd(raws[1 - i]) } else { None };
                if let Some(f) = feed {
                    l.harness_fds.push(f);
                }
                l.add_obj(h, feed);
            }
        }
    }
    // listeners for the producing steps are created on demand
    let mut tcp_l: Option<(TcpListener, std::net::SocketAddr)> = None;
    let mut unix_l: Option<(UnixListener, PathBuf)> = None;
    let mut cancelled_producers = 0;
    let mut produced = 0;

    for (si, step) in case.steps.iter().enumerate() {
        if lab.borrow().violation.is_some() {
            break;
        }
        let when = format!("after step #{si} {step:?}");
        match step {
            Step::Clone { h } => {
                let mut l = lab.borrow_mut();
                if !l.handles.is_empty() && l.handles.len() < 12 {
                    let i = mono_ix(*h, l.handles.len());
                    let c = Handle { obj: l.handles[i].obj, h: l.handles[i].h.clone() };
                    l.handles.push(c);
                }
            }
            Step::DropHandle { h } => {
                let hd = {
                    let mut l = lab.borrow_mut();
                    if l.handles.is_empty() {
                        None
                    } else {
                        let i = mono_ix(*h, l.handles.len());
                        Some(l.handles.remove(i))
                    }
                };
                if let Some(hd) = hd {
                    let o = hd.obj;
                    rt.enter(|| drop(hd));
                    let mut l = lab.borrow_mut();
                    if l.objs[o].closer_started && !l.objs[o].closer_done {
                        l.close_raced = true;
                    }
                }
            }
            Step::StartOp { h, via, read } => {
                let mut l = lab.borrow_mut();
                if !l.handles.is_empty() && l.tasks.len() < 8 {
                    let i = mono_ix(*h, l.handles.len());
                    let o = l.handles[i].obj;
                    let hh = &l.handles[i].h;
                    let pend = *read && hh.can_pend() && !matches!(hh, H::PipeTx(_));
                    let jh = match via {
                        Via::Wrapper => {
                            let c = hh.clone();
                            let r = *read;
                            rt.enter(|| {
                                rt.spawn(async move {
                                    run_wrapper_op(c, r).await;
                                    io::Result::Ok(())
                                })
                            })
                        }
                        Via::Raw => rt.enter(|| {
                            let f = raw_op(hh, *read);
                            rt.spawn(async move {
                                f.await;
                                io::Result::Ok(())
                            })
                        }),
                    };
                    // a read is certainly pending only while nothing has been written to the object
                    l.tasks.push(Task { obj: o, kind: TaskKind::Op { certain_pending: pend }, jh });
                    l.label(if pend { "pending-op" } else { "immediate-op" });
                }
            }
            Step::Feed { h } => {
                let mut l = lab.borrow_mut();
                if !l.handles.is_empty() {
                    let i = mono_ix(*h, l.handles.len());
                    let o = l.handles[i].obj;
                    if let Some(f) = l.objs[o].feed {
                        let n = l.tasks.iter().filter(|t| t.obj == o).count().max(1);
                        for _ in 0..n {
                            unsafe { libc::send(f, b"abcd".as_ptr() as _, 4, libc::MSG_DONTWAIT | libc::MSG_NOSIGNAL) };
                            unsafe { libc::write(f, b"abcd".as_ptr() as _, 0) };
                        }
                        // pipes are not sockets: send fails with ENOTSOCK, use write
                        if l.objs[o].name == "pipe-rx" {
                            for _ in 0..n {
                                unsafe { libc::write(f, b"abcd".as_ptr() as _, 4) };
                            }
                        }
                        for t in l.tasks.iter_mut().filter(|t| t.obj == o) {
                            let TaskKind::Op { certain_pending } = &mut t.kind;
                            *certain_pending = false;
                        }
                    }
                }
            }
            Step::CancelOp { t } => {
                let task = {
                    let mut l = lab.borrow_mut();
                    let ops: Vec<usize> = l.tasks.iter().enumerate().filter(|(_, t)| matches!(t.kind, TaskKind::Op { .. })).map(|(i, _)| i).collect();
                    if ops.is_empty() {
                        None
                    } else {
                        let i = ops[mono_ix(*t, ops.len())];
                        l.label("cancelled-op");
                        Some(l.tasks.remove(i))
                    }
                };
                if let Some(task) = task {
                    let o = task.obj;
                    rt.enter(|| drop(task));
                    let mut l = lab.borrow_mut();
                    if l.objs[o].closer_started && !l.objs[o].closer_done {
                        l.close_raced = true;
                    }
                }
            }
            Step::Close { h } => {
                let mut l = lab.borrow_mut();
                if !l.handles.is_empty() {
                    let i = mono_ix(*h, l.handles.len());
                    let second = l.objs[l.handles[i].obj].closer_started;
                    if second && !case.second_close {
                        // known finding: a second close() while one is waiting loses the first one's
                        // wake-up; not generated while listed as known — the handle is dropped instead
                        let hd = l.handles.remove(i);
                        drop(l);
                        rt.enter(|| drop(hd));
                        lab.borrow_mut().label("excluded-known:second-close");
                    } else {
                        let hd = l.handles.remove(i);
                        let o = hd.obj;
                        if second {
                            l.label("second-close");
                        } else {
                            l.objs[o].closer_started = true;
                            if l.definite_holders(o) > 0 {
                                l.close_raced = true;
                                l.label("close-with-other-holders");
                            }
                        }
                        let fut = hd.h.close();
                        let flag = Arc::new(WakeFlag(AtomicBool::new(true)));
                        l.closers.push(Closer { obj: o, fut, flag, primary: !second, result: None });
                        // first poll right away (an unpolled close() future intentionally leaks)
                        l.service_closers(&rt, &when, false);
                    }
                }
            }
            Step::Turn { k } => {
                for _ in 0..*k {
                    turns(&rt, 1, Duration::from_millis(1));
                    lab.borrow_mut().service_closers(&rt, &when, false);
                }
            }
            Step::PollOnly => netlab::poll_only(&rt, Duration::from_millis(1)),
            Step::Produce { what, cancel_after, half } => {
                if produced + cancelled_producers >= 6 {
                    continue;
                }
                // set the stage
                let mut clients: Vec<RawFd> = vec![];
                let connect_tcp = |addr: &std::net::SocketAddr, clients: &mut Vec<RawFd>| {
                    if let Ok(c) = std::net::TcpStream::connect(addr) {
                        use std::os::fd::IntoRawFd;
                        clients.push(c.into_raw_fd());
                    }
                };
                if matches!(what, Produce::Accept { .. } | Produce::Incoming { .. } | Produce::Connect) && tcp_l.is_none() {
                    let mut t = rt.spawn(async { TcpListener::bind("127.0.0.1:0").await });
                    if drive(&rt, || t.is_finished(), Duration::from_secs(30)) {
                        if let Some(Ok(Ok(l))) = join_now(&mut t) {
                            let a = l.local_addr().unwrap();
                            tcp_l = Some((l, a));
                        }
                    }
                }
                if matches!(what, Produce::AcceptUnix) && unix_l.is_none() {
                    let p = dir.join("prod.sock");
                    let p2 = p.clone();
                    let mut t = rt.spawn(async move { UnixListener::bind(&p2).await });
                    if drive(&rt, || t.is_finished(), Duration::from_secs(30)) {
                        if let Some(Ok(Ok(l))) = join_now(&mut t) {
                            unix_l = Some((l, p));
                        }
                    }
                }
                type Out = io::Result<Vec<H>>;
                let fut: Option<Pin<Box<dyn Future<Output = Out>>>> = match what {
                    Produce::Accept { connect_first } => tcp_l.as_ref().map(|(l, a)| {
                        if *connect_first {
                            connect_tcp(a, &mut clients);
                        }
                        let l = l.clone();
                        Box::pin(async move { l.accept().await.map(|(s, _)| vec![H::Tcp(s)]) }) as Pin<Box<dyn Future<Output = Out>>>
                    }),
                    Produce::Incoming { connect_first } => tcp_l.as_ref().map(|(l, a)| {
                        if *connect_first {
                            connect_tcp(a, &mut clients);
                        }
                        let l = l.clone();
                        Box::pin(async move {
                            let mut inc = l.incoming();
                            match inc.next().await {
                                Some(r) => r.map(|s| vec![H::Tcp(s)]),
                                None => Ok(vec![]),
                            }
                        }) as Pin<Box<dyn Future<Output = Out>>>
                    }),
                    Produce::AcceptUnix => unix_l.as_ref().map(|(l, p)| {
                        if let Ok(c) = std::os::unix::net::UnixStream::connect(p) {
                            use std::os::fd::IntoRawFd;
                            clients.push(c.into_raw_fd());
                        }
                        let l = l.clone();
                        Box::pin(async move { l.accept().await.map(|(s, _)| vec![H::Unix(s)]) }) as Pin<Box<dyn Future<Output = Out>>>
                    }),
                    Produce::Open => {
                        // a fresh file every time: descriptor identity is (dev, ino), and a re-opened
                        // file on a re-used descriptor number would look like the old object
                        let p = dir.join(format!("opened{si}"));
                        let _ = std::fs::write(&p, b"x");
                        Some(Box::pin(async move { File::open(&p).await.map(|f| vec![H::File(f)]) }))
                    }
                    Produce::OpenFifo => {
                        let p = dir.join(format!("fifo{si}"));
                        if case.drv == Drv::Poll {
                            if let Ok(c) = std::ffi::CString::new(p.as_os_str().as_encoded_bytes()) {
                                unsafe { libc::mkfifo(c.as_ptr(), 0o600) };
                            }
                            lab.borrow_mut().fifos.push(p.clone());
                            lab.borrow_mut().label("pool-op-blocked");
                        } else {
                            let _ = std::fs::write(&p, b"x");
                        }
                        Some(Box::pin(async move { File::open(&p).await.map(|f| vec![H::File(f)]) }))
                    }
                    Produce::Connect => tcp_l.as_ref().map(|(_, a)| {
                        let a = *a;
                        Box::pin(async move { TcpStream::connect(a).await.map(|s| vec![H::Tcp(s)]) }) as Pin<Box<dyn Future<Output = Out>>>
                    }),
                    Produce::Pipe => Some(Box::pin(async move { pipe::anonymous().await.map(|(r, t)| vec![H::PipeRx(r), H::PipeTx(t)]) })),
                    Produce::UdpBind => Some(Box::pin(async move { UdpSocket::bind("127.0.0.1:0").await.map(|s| vec![H::Udp(s)]) })),
                };
                let Some(fut) = fut else { continue };
                let mut jh = rt.enter(|| rt.spawn(fut));
                // the connection may also arrive while the accept is already armed
                if let (Produce::Accept { connect_first: false } | Produce::Incoming { connect_first: false }, Some((_, a))) = (what, tcp_l.as_ref()) {
                    turns(&rt, 1, Duration::from_millis(1));
                    connect_tcp(a, &mut clients);
                }
                lab.borrow_mut().harness_fds.extend(clients);
                let cancel_after = if matches!(what, Produce::OpenFifo) { Some(cancel_after.unwrap_or(2)) } else { *cancel_after };
                match &cancel_after {
                    Some(k) => {
                        turns(&rt, *k as usize, Duration::from_millis(1));
                        if *half {
                            netlab::poll_only(&rt, Duration::from_millis(1));
                        }
                        let finished = jh.is_finished();
                        rt.enter(|| drop(jh));
                        // let the cancellation reach the kernel before the harness makes another
                        // connection by itself (a still-armed accept would legitimately take it)
                        turns(&rt, 2, Duration::from_millis(1));
                        cancelled_producers += 1;
                        lab.borrow_mut().label(if finished { "producer-dropped-after-completion" } else { "producer-cancelled-in-flight" });
                    }
                    None => {
                        if !drive(&rt, || jh.is_finished(), watchdog_secs(30)) {
                            rt.enter(|| drop(jh));
                            return Err(Outcome::inconclusive(format!("watchdog: producer {what:?}")));
                        }
                        match join_now(&mut jh) {
                            Some(Ok(Ok(hs))) => {
                                produced += 1;
                                let mut l = lab.borrow_mut();
                                for h in hs {
                                    l.add_obj(h, None);
                                }
                                l.label("produced-object");
                            }
                            Some(Ok(Err(e))) => return Err(Outcome::inconclusive(format!("producer {what:?}: {e}"))),
                            Some(Err(e)) => lab.borrow_mut().violate(&netlab::strip_digits(&e), e),
                            None => {}
                        }
                        // an incoming() stream dropped inside the finished task is being cancelled: same rule
                        turns(&rt, 2, Duration::from_millis(1));
                    }
                }
            }
        }
        lab.borrow_mut().service_closers(&rt, &when, false);
        lab.borrow_mut().audit(&when);
    }

    let mut abrupt = case.abrupt_end && lab.borrow().violation.is_none();
    let mut pool_drained = false;
    if abrupt && !case.pool_op_at_drop && !pool_ops_alive().is_empty() {
        // known finding: not generated — thread-pool operations are finished (blocked ones released)
        // and their storage released before the runtime goes; if that does not happen in time the
        // case ends the graceful way instead
        let start = std::time::Instant::now();
        while start.elapsed() < watchdog_secs(10) && !pool_ops_alive().is_empty() {
            release_fifos(&mut lab.borrow_mut().fifos);
            turns(&rt, 1, Duration::from_millis(1));
            lab.borrow_mut().service_closers(&rt, "before the abrupt end", false);
        }
        pool_drained = true;
        if !pool_ops_alive().is_empty() {
            abrupt = false;
            lab.borrow_mut().label("abrupt-end-given-up:pool-ops-alive");
        }
    }
    if abrupt {
        // ---- abrupt end: the runtime goes first, with everything still in flight
        let pending_ops = lab.borrow().tasks.iter().filter(|t| !t.jh.is_finished()).count();
        let mut labels: Vec<String> = vec![];
        if !case.close_in_flight_at_drop && lab.borrow().closers.iter().any(|c| c.primary && c.result.is_none()) {
            // known finding: not generated — a close() that could still finish is driven to its end first
            let start = std::time::Instant::now();
            while start.elapsed() < watchdog_secs(10) && lab.borrow().closers.iter().any(|c| c.result.is_none()) && live_ops() > 0 {
                turns(&rt, 1, Duration::from_millis(1));
                lab.borrow_mut().service_closers(&rt, "before the abrupt end", false);
            }
            labels.push("excluded-known:close-in-flight-at-drop".into());
        }
        if lab.borrow().closers.iter().any(|c| c.primary && c.result.is_none()) {
            labels.push("close-pending-at-runtime-drop".into());
        }
        let mut fifos = std::mem::take(&mut lab.borrow_mut().fifos);
        if pool_drained {
            labels.push("excluded-known:pool-op-at-runtime-drop".into());
        }
        let pool_at_drop = pool_ops_alive();
        POOL_AT_DROP.with(|p| p.set(pool_at_drop.len()));
        if std::env::var("VERIF_VERBOSE").is_ok() && !pool_at_drop.is_empty() && !case.pool_op_at_drop {
            eprintln!("POOL-OPS-NOT-DRAINED {}: {}", pool_at_drop.len(), vcore::serde_json::to_string(case).unwrap_or_default());
        }
        if !pool_at_drop.is_empty() {
            labels.push("pool-op-alive-at-runtime-drop".into());
        }
        LAST_OBJS.with(|o| *o.borrow_mut() = lab.borrow().objs.iter().map(|x| (x.id, x.name, x.closer_started, x.closer_done)).collect());
        let (sentinels, harness_fds, close_raced, nobj) = {
            let mut l = lab.borrow_mut();
            labels.append(&mut l.labels);
            (std::mem::take(&mut l.sentinels), std::mem::take(&mut l.harness_fds), l.close_raced, l.objs.len())
        };
        drop((tcp_l, unix_l));
        drop(rt);
        // jobs that outlived the runtime run to their end now (so that what they leave behind is there
        // when the table is scanned)
        let start = std::time::Instant::now();
        loop {
            release_fifos(&mut fifos);
            if pool_jobs_done(&pool_at_drop) || start.elapsed() > Duration::from_secs(10) {
                break;
            }
            std::thread::sleep(Duration::from_millis(1));
        }
        // now the futures and handles that outlived it
        let (tasks, closers, handles) = {
            let mut l = lab.borrow_mut();
            (std::mem::take(&mut l.tasks), std::mem::take(&mut l.closers), std::mem::take(&mut l.handles))
        };
        drop((tasks, closers, handles));
        let mut violation = None;
        for (fd, id) in &sentinels {
            if ident(*fd) != Some(*id) {
                violation = Some(("C06/closed-twice".to_string(), format!("sentinel descriptor {fd} was closed or replaced when the runtime was dropped with {pending_ops} operations pending")));
            }
        }
        for (fd, id) in sentinels {
            if ident(fd) == Some(id) {
                unsafe { libc::close(fd) };
            }
        }
        for fd in harness_fds {
            unsafe { libc::close(fd) };
        }
        if let Some((sig, detail)) = violation {
            return Err(Outcome::violation(sig, detail));
        }
        labels.push(format!("drv:{}", case.drv.name()));
        labels.push(format!("objects:{nobj}"));
        labels.push("abrupt-end".into());
        if pending_ops > 0 {
            labels.push("runtime-dropped-with-pending-ops".into());
        }
        let nontrivial = close_raced || pending_ops > 0 || labels.iter().any(|l| l == "producer-cancelled-in-flight" || l == "producer-dropped-after-completion");
        return Ok((labels, nontrivial));
    }
    // ---- end phase: let go of everything; a waiting close() must now resolve
    let mut fifos = std::mem::take(&mut lab.borrow_mut().fifos);
    release_fifos(&mut fifos);
    let handles = std::mem::take(&mut lab.borrow_mut().handles);
    rt.enter(|| drop(handles));
    let ops = std::mem::take(&mut lab.borrow_mut().tasks);
    rt.enter(|| drop(ops));
    drop((tcp_l, unix_l));
    let all_closed = |l: &Lab| l.closers.iter().all(|c| c.result.is_some());
    let watchdog = watchdog_secs(30);
    let start = std::time::Instant::now();
    let mut turn = 0;
    let mut rescued = false;
    while lab.borrow().violation.is_none() && !all_closed(&lab.borrow()) {
        release_fifos(&mut fifos);
        turns(&rt, 1, Duration::from_millis(2));
        lab.borrow_mut().service_closers(&rt, "end phase", false);
        turn += 1;
        // rescue rule, made exact by the driver's event sink: once no operation storage is alive
        // and no handle is left, nobody but the close() itself holds the descriptor.  A close() that
        // is still pending *and has not been woken* is polled once more (a redundant poll if the
        // property holds); if that poll makes it progress, the wake-up was lost.
        if !rescued && turn >= 3 && live_ops() == 0 {
            rescued = true;
            if std::env::var("VERIF_VERBOSE").is_ok() {
                eprintln!("rescue: turn {turn} closers {:?}", lab.borrow().closers.iter().map(|c| (c.primary, c.result.is_some(), c.flag.0.load(Ordering::SeqCst))).collect::<Vec<_>>());
            }
            let pending_before = lab.borrow().closers.iter().filter(|c| c.primary && c.result.is_none() && !c.flag.0.load(Ordering::SeqCst)).count();
            if pending_before > 0 {
                let progressed = lab.borrow_mut().service_closers(&rt, "end phase (redundant poll)", true);
                if progressed {
                    let second = lab.borrow().labels.iter().any(|l| l == "second-close");
                    lab.borrow_mut().violate(
                        if second { "close-lost-wakeup/after-second-close" } else { "close-lost-wakeup" },
                        "close() stayed pending although every other handle was dropped and no operation was alive any more; it progressed only when the harness polled it again without having been woken".into(),
                    );
                }
            }
        }
        if start.elapsed() > watchdog {
            let closers = std::mem::take(&mut lab.borrow_mut().closers);
            rt.enter(|| drop(closers));
            drop(rt);
            return Err(Outcome::inconclusive(format!("watchdog: close() pending after every other holder was released (live ops {}, rescued {rescued})", live_ops())));
        }
    }
    let found = lab.borrow_mut().violation.take();
    if let Some((sig, detail)) = found {
        let closers = std::mem::take(&mut lab.borrow_mut().closers);
        rt.enter(|| drop(closers));
        let (sentinels, harness_fds) = {
            let mut l = lab.borrow_mut();
            (std::mem::take(&mut l.sentinels), std::mem::take(&mut l.harness_fds))
        };
        drop(rt);
        for (fd, id) in sentinels {
            if ident(fd) == Some(id) {
                unsafe { libc::close(fd) };
            }
        }
        for fd in harness_fds {
            unsafe { libc::close(fd) };
        }
        return Err(Outcome::violation(sig, detail));
    }
    lab.borrow_mut().audit("at the end");
    // every operation storage (incl. thread-pool jobs still running) must be gone before the table is judged
    if !drive(
        &rt,
        || {
            release_fifos(&mut fifos);
            live_ops() == 0
        },
        watchdog,
    ) {
        drop(rt);
        return Err(Outcome::inconclusive(format!("watchdog: {} operations still alive in the driver at the end", live_ops())));
    }
    turns(&rt, 4, Duration::from_millis(2));
    lab.borrow_mut().audit("after the final turns");
    let closers = std::mem::take(&mut lab.borrow_mut().closers);
    rt.enter(|| drop(closers));
    // sentinels intact?
    let (sentinels, harness_fds, violation, labels, close_raced, nobj) = {
        let mut l = lab.borrow_mut();
        (std::mem::take(&mut l.sentinels), std::mem::take(&mut l.harness_fds), l.violation.take(), std::mem::take(&mut l.labels), l.close_raced, l.objs.len())
    };
    drop(rt);
    let mut violation = violation;
    for (fd, id) in &sentinels {
        if ident(*fd) != Some(*id) && violation.is_none() {
            violation = Some(("C06/closed-twice".into(), format!("sentinel descriptor {fd} was closed or replaced when the runtime was dropped")));
        }
    }
    for (fd, id) in sentinels {
        if ident(fd) == Some(id) {
            unsafe { libc::close(fd) };
        }
    }
    for fd in harness_fds {
        unsafe { libc::close(fd) };
    }
    if let Some((sig, detail)) = violation {
        return Err(Outcome::violation(sig, detail));
    }
    let mut labels = labels;
    labels.push(format!("drv:{}", case.drv.name()));
    labels.push(format!("objects:{nobj}"));
    if close_raced {
        labels.push("close-raced-other-holder".into());
    }
    let nontrivial = close_raced || labels.iter().any(|l| l == "producer-cancelled-in-flight" || l == "producer-dropped-after-completion");
    Ok((labels, nontrivial))
}

// ------------------------------------------------------------------------------------------------
// generator

fn produce() -> impl Strategy<Value = Produce> + Clone {
    prop_oneof![
        2 => any::<bool>().prop_map(|connect_first| Produce::Accept { connect_first }),
        2 => any::<bool>().prop_map(|connect_first| Produce::Incoming { connect_first }),
        1 => Just(Produce::AcceptUnix),
        2 => Just(Produce::Open),
        1 => Just(Produce::OpenFifo),
        2 => Just(Produce::Connect),
        1 => Just(Produce::Pipe),
        1 => Just(Produce::UdpBind),
    ]
}

fn step() -> impl Strategy<Value = Step> + Clone {
    prop_oneof![
        3 => any::<u16>().prop_map(|h| Step::Clone { h }),
        4 => any::<u16>().prop_map(|h| Step::DropHandle { h }),
        5 => (any::<u16>(), prop_oneof![Just(Via::Wrapper), Just(Via::Raw)], prop_oneof![3 => Just(true), 1 => Just(false)]).prop_map(|(h, via, read)| Step::StartOp { h, via, read }),
        2 => any::<u16>().prop_map(|h| Step::Feed { h }),
        3 => any::<u16>().prop_map(|t| Step::CancelOp { t }),
        4 => any::<u16>().prop_map(|h| Step::Close { h }),
        4 => (1u8..=3).prop_map(|k| Step::Turn { k }),
        2 => Just(Step::PollOnly),
        4 => (produce(), prop_oneof![1 => Just(None), 4 => (0u8..=4).prop_map(Some)], any::<bool>()).prop_map(|(what, cancel_after, half)| Step::Produce { what, cancel_after, half }),
    ]
}

fn case_strategy() -> impl Strategy<Value = FdCase> + Clone {
    (
        prop_oneof![Just(Drv::IoUring), Just(Drv::Poll)],
        vec(prop_oneof![Just(ObjKind::File), Just(ObjKind::Pipe), Just(ObjKind::Tcp), Just(ObjKind::Unix)], 1..=2),
        vec(step(), 0..=24),
        prop_oneof![3 => Just(false), 1 => Just(true)],
    )
        .prop_map(|(drv, objects, steps, abrupt_end)| FdCase { drv, objects, steps, second_close: !EXCLUDE_SECOND_CLOSE.load(Ordering::Relaxed), abrupt_end, close_in_flight_at_drop: !EXCLUDE_CLOSE_IN_FLIGHT.load(Ordering::Relaxed), pool_op_at_drop: !EXCLUDE_POOL_OP.load(Ordering::Relaxed) })
}

static EXCLUDE_SECOND_CLOSE: AtomicBool = AtomicBool::new(false);
static EXCLUDE_CLOSE_IN_FLIGHT: AtomicBool = AtomicBool::new(false);
static EXCLUDE_POOL_OP: AtomicBool = AtomicBool::new(false);

/// Consecutive cases that ended on a watchdog: when the machinery is evidently not measuring
/// anything (the run will end as "infrastructure" anyway) the watchdogs shrink so that it ends soon.
static WATCHDOG_STREAK: std::sync::atomic::AtomicU32 = std::sync::atomic::AtomicU32::new(0);

fn watchdog_secs(default: u64) -> Duration {
    let d = std::env::var("VERIF_WATCHDOG").ok().and_then(|v| v.parse().ok()).unwrap_or(default);
    Duration::from_secs(if WATCHDOG_STREAK.load(Ordering::Relaxed) >= 5 { d.min(2) } else { d })
}

fn main() {
    let mut s = Session::new();
    if s.known_signatures("C06").contains("C06/close-lost-wakeup/after-second-close") {
        EXCLUDE_SECOND_CLOSE.store(true, Ordering::Relaxed);
    }
    if s.known_signatures("C06").iter().any(|k| k.starts_with("C06/descriptor-leaked/close-in-flight-at-runtime-drop")) {
        EXCLUDE_CLOSE_IN_FLIGHT.store(true, Ordering::Relaxed);
    }
    if s.known_signatures("C06").contains("C06/descriptor-leaked/pool-op-outlived-runtime") {
        EXCLUDE_POOL_OP.store(true, Ordering::Relaxed);
    }
    let mut p = Part::new(
        "C06",
        "same-thread",
        "case = driver {io_uring, poll} x 1-2 initial objects (file, pipe pair, TCP pair, Unix stream pair) x program of 0-24 steps over the live handle / task tables: Clone(h), DropHandle(h), \
         StartOp(h, through the wrapper or as a raw op holding only the shared descriptor, pending read or immediate op), Feed(h), CancelOp(t), Close(h) = close().await as a task polled by later \
         turns, Turn(k), PollOnly (driver half of a turn only), Produce(accept / incoming() / Unix accept / File::open (also of a FIFO without writer: a thread-pool open blocked until the harness releases it) / TcpStream::connect / pipe::anonymous / UdpSocket::bind, future dropped after 0-4 loop turns or awaited and the \
         descriptor adopted as a new object). Oracle: fstat scan of the descriptor table before / after the case and of the case's objects after every step, sentinel opened after every observed \
         close. Non-trivial = a close() was started or pending while another handle or pending operation held the same descriptor, or a producing operation's future was dropped; distinct = \
         distinct serialised case.",
    );
    p.quick_cases = 2400;
    p.thorough_cases = 24000;
    p.threads = 1;
    p.crash_guard = true;
    p.max_shrink_iters = 600;
    p.assumptions = vec![
        "a close() future is never dropped before its first poll (documented: then the descriptor is intentionally not closed)",
        "descriptors owned by the harness (feed duplicates, clients, sentinels) are closed by the harness before the final scan",
    ];
    p.regressions = vec![
        (
            "pool-op-outlives-runtime",
            FdCase {
                drv: Drv::Poll,
                objects: vec![ObjKind::Pipe],
                steps: vec![Step::Produce { what: Produce::OpenFifo, cancel_after: Some(1), half: false }],
                second_close: true,
                abrupt_end: true,
                close_in_flight_at_drop: true,
                pool_op_at_drop: true,
            },
        ),
        (
            "close-op-in-flight-at-runtime-drop",
            FdCase { drv: Drv::IoUring, objects: vec![ObjKind::File], steps: vec![Step::Close { h: 0 }], second_close: true, abrupt_end: true, close_in_flight_at_drop: true, pool_op_at_drop: true },
        ),
        (
            "second-close-loses-wakeup",
            FdCase { drv: Drv::IoUring, objects: vec![ObjKind::File], steps: vec![Step::Clone { h: 0 }, Step::Close { h: 0 }, Step::Close { h: 0 }], second_close: true, abrupt_end: false, close_in_flight_at_drop: true, pool_op_at_drop: true },
        ),
        (
        "close-waits-for-op",
        FdCase {
            drv: Drv::IoUring,
            objects: vec![ObjKind::Tcp],
            steps: vec![
                Step::Clone { h: 0 },
                Step::StartOp { h: 0, via: Via::Raw, read: true },
                Step::Turn { k: 2 },
                Step::Close { h: 0 },
                Step::Turn { k: 2 },
                Step::DropHandle { h: 0 },
                Step::Turn { k: 1 },
                Step::CancelOp { t: 0 },
                Step::Turn { k: 3 },
                Step::Produce { what: Produce::Accept { connect_first: true }, cancel_after: Some(2), half: true },
            ],
            second_close: true,
            abrupt_end: false,
            close_in_flight_at_drop: true,
            pool_op_at_drop: true,
        },
    )];
    s.run_part(p, case_strategy(), run_fd);
    s.finish();
}
