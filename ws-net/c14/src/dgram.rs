//! C14 part "dgram": UDP v4/v6 through `compio_net::UdpSocket`, Unix datagram sockets through the
//! driver's socket ops (compio-net has no Unix datagram type; its `Socket` methods are mirrored).
use std::{cell::Cell, io, net::SocketAddr, os::fd::AsRawFd, path::PathBuf, rc::Rc, time::Duration};

use compio_buf::{BufResult, IntoInner};
use compio_driver::{
    op::{BufResultExt, RecvFlags, RecvFrom, RecvFromManaged, RecvFromVectored, RecvMsg, RecvResultExt, SendFlags, SendMsg, SendTo, SendToVectored, VecBufResultExt},
    SharedFd, ToSharedFd,
};
use compio_io::ancillary::{AncillaryBuf, ReturnFlags};
use compio_net::UdpSocket;
use compio_runtime::{Attacher, Runtime};
use futures_util::StreamExt;
use netlab::{build_rt, drive, errno_name, fill, join_now, Drv, RtCfg, SharedLog};
use serde::{Deserialize, Serialize};
use socket2::{Domain, SockAddr, Socket, Type};
use vcore::{
    mono_range,
    proptest::{collection::vec, prelude::*},
    Outcome, Part, Session,
};

use crate::util::{cmsg, is_nobufs, parse_cmsgs, yield_now};

#[derive(Debug, Clone, Copy, PartialEq, Serialize, Deserialize)]
pub enum Family {
    Udp4,
    Udp6,
    UnixDgram,
}

#[derive(Debug, Clone, Serialize, Deserialize)]
pub enum DSend {
    /// `send` when connected, else `send_to`
    Plain,
    /// payload cut into two buffers at `cut` (mapped into 0..=len)
    Vectored { cut: u16 },
    /// `send_msg` with an IP_TOS / IPV6_TCLASS control message when `tos` is set
    Msg { tos: Option<u8> },
    MsgVectored { cut: u16, tos: Option<u8> },
    Zc,
    ZcVectored { cut: u16 },
    MsgZc { tos: Option<u8> },
}

#[derive(Debug, Clone, Serialize, Deserialize)]
pub enum DRecv {
    Recv { cap: u16 },
    RecvVectored { caps: Vec<u16> },
    RecvFrom { cap: u16 },
    RecvFromVectored { caps: Vec<u16> },
    /// control buffer of 64 bytes when `ctl`, else none
    RecvMsg { cap: u16, ctl: bool },
    RecvMsgVectored { caps: Vec<u16>, ctl: bool },
    Managed { len: u16 },
    FromManaged { len: u16 },
    MsgManaged { len: u16, ctl: bool },
}

#[derive(Debug, Clone, Serialize, Deserialize)]
pub enum MultiKind {
    Multi { len: u16 },
    FromMulti,
    /// `recv_msg_multi(clen)`: any control length, aligned or not
    MsgMulti { clen: u8 },
}

#[derive(Debug, Clone, Serialize, Deserialize)]
pub struct Dg {
    pub len: u16,
    pub send: DSend,
    pub recv: DRecv,
}

#[derive(Debug, Clone, Serialize, Deserialize)]
pub struct DgramCase {
    pub drv: Drv,
    pub family: Family,
    pub connected: bool,
    /// receiver asks for the TOS / traffic class of every datagram (IP_RECVTOS / IPV6_RECVTCLASS)
    pub recv_tos: bool,
    pub pool_len: u16,
    pub seed: u16,
    pub msgs: Vec<Dg>,
    /// from datagram index `from` (mapped into 0..=msgs.len()) on, the receiver uses one multishot stream
    pub multi: Option<(u16, MultiKind)>,
}

const MAX_LEN: usize = 2000;

fn dg_len(d: &Dg) -> usize {
    (d.len as usize).min(MAX_LEN)
}

fn payload(seed: u64, i: usize, len: usize) -> Vec<u8> {
    fill(seed.wrapping_add((i as u64 + 1) * 7919), 0, len)
}

fn tos_control(fam: Family, tos: Option<u8>) -> Vec<u8> {
    match (fam, tos) {
        (Family::Udp4, Some(t)) => cmsg(libc::IPPROTO_IP, libc::IP_TOS, &(t as i32).to_ne_bytes()),
        (Family::Udp6, Some(t)) => cmsg(libc::IPPROTO_IPV6, libc::IPV6_TCLASS, &(t as i32).to_ne_bytes()),
        _ => Vec::new(),
    }
}

/// CMSG_LEN of the traffic-class message the kernel delivers (IP_TOS: one byte, IPV6_TCLASS: an int)
fn tos_cmsg_len(fam: Family) -> usize {
    16 + if fam == Family::Udp6 { 4 } else { 1 }
}

fn send_tos(d: &DSend) -> u8 {
    match d {
        DSend::Msg { tos } | DSend::MsgVectored { tos, .. } | DSend::MsgZc { tos } => tos.unwrap_or(0),
        _ => 0,
    }
}

#[derive(Clone)]
enum Peer {
    Inet(SocketAddr),
    Unix(PathBuf),
}

struct Shared {
    log: SharedLog,
    sent: Cell<usize>,
    received: Cell<usize>,
    truncated: Cell<u32>,
    kinds: Cell<u32>,
    tos_checked: Cell<u32>,
}

impl Shared {
    fn bad(&self, sig: impl AsRef<str>, detail: String) {
        self.log.violate(format!("C14/dgram/{}", sig.as_ref()), detail);
    }
}

/// What one receive produced, in a common form.
struct Got {
    what: String,
    data: Vec<u8>,
    /// capacity the call could fill
    cap: usize,
    addr: Option<Option<SockAddr>>,
    flags: Option<ReturnFlags>,
    control: Option<(Vec<u8>, bool)>,
    /// Ok(None)-style "nothing" result of the managed flavours
    none: bool,
}

fn check_got(sh: &Shared, case: &DgramCase, i: usize, got: Got, sender: &Peer) -> bool {
    let d = &case.msgs[i];
    let len = dg_len(d);
    let want_full = payload(case.seed as u64, i, len);
    let want = &want_full[..len.min(got.cap)];
    let what = format!("datagram #{i} ({len} bytes, sent with {:?}) received by {}", d.send, got.what);
    if got.none {
        if len != 0 {
            sh.bad("none-for-nonempty", format!("{what}: the call reported no data"));
            return false;
        }
        return true;
    }
    if got.data.len() > got.cap {
        sh.bad("beyond-capacity", format!("{what}: {} bytes delivered into a capacity of {}", got.data.len(), got.cap));
        return false;
    }
    if got.data != want {
        let at = got.data.iter().zip(want.iter()).position(|(a, b)| a != b).unwrap_or(got.data.len().min(want.len()));
        sh.bad(
            if got.data.len() != want.len() { "length-mismatch" } else { "data-mismatch" },
            format!("{what}: got {} bytes, expected {} (= min(len, capacity {})); first difference at {at}", got.data.len(), want.len(), got.cap),
        );
        return false;
    }
    if len > got.cap {
        sh.truncated.set(sh.truncated.get() + 1);
    }
    if let Some(addr) = &got.addr {
        let ok = match (addr, sender) {
            (Some(a), Peer::Inet(s)) => a.as_socket() == Some(*s),
            (Some(a), Peer::Unix(p)) => a.as_pathname() == Some(p.as_path()),
            (None, _) => false,
        };
        if !ok {
            sh.bad("source-address", format!("{what}: source address {:?}, the sender is bound to {}", addr, match sender { Peer::Inet(s) => s.to_string(), Peer::Unix(p) => p.display().to_string() }));
            return false;
        }
    }
    if let Some(flags) = got.flags {
        if flags.contains(ReturnFlags::TRUNC) != (len > got.cap) {
            sh.bad("trunc-flag", format!("{what}: capacity {}, flags {flags:?}", got.cap));
            return false;
        }
    }
    if let Some((control, has_room)) = &got.control {
        let msgs = match parse_cmsgs(control) {
            Ok(m) => m,
            Err(e) => {
                sh.bad("control-malformed", format!("{what}: {e}"));
                return false;
            }
        };
        let want_tos = case.recv_tos && case.family != Family::UnixDgram && *has_room;
        // full traffic-class messages; one whose data was cut short by a too small control buffer is a
        // truncated message (legal exactly when there was no room for a whole one)
        let is_tos = |l: i32, t: i32| matches!((case.family, l, t), (Family::Udp4, libc::IPPROTO_IP, libc::IP_TOS) | (Family::Udp6, libc::IPPROTO_IPV6, libc::IPV6_TCLASS));
        let need = tos_cmsg_len(case.family) - 16;
        let tos: Vec<i32> = msgs
            .iter()
            .filter(|(l, t, d)| is_tos(*l, *t) && d.len() >= need)
            .map(|(_, _, d)| if need == 1 { d[0] as i32 } else { i32::from_ne_bytes(d[..4].try_into().unwrap()) })
            .collect();
        let cut = msgs.iter().filter(|(l, t, d)| is_tos(*l, *t) && d.len() < need).count();
        if msgs.len() != tos.len() + cut {
            sh.bad("control-unexpected", format!("{what}: control messages {msgs:?}"));
            return false;
        }
        if cut > 0 && *has_room {
            sh.bad("control-truncated-though-room", format!("{what}: control messages {msgs:?}"));
            return false;
        }
        // A delivered traffic class must be the one that was sent, wherever it shows up (the polling
        // driver's recv_msg_multi(0) uses a whole pool buffer for control data, so it may deliver one
        // although no room was asked for); it must be delivered when room was provided.
        let sent = send_tos(&d.send) as i32;
        if case.recv_tos && case.family != Family::UnixDgram && (want_tos || !tos.is_empty()) {
            if tos != [sent] {
                sh.bad("control-tos", format!("{what}: received traffic class {tos:?}, sent {sent}"));
                return false;
            }
            sh.tos_checked.set(sh.tos_checked.get() + 1);
        } else if !tos.is_empty() && !case.recv_tos {
            sh.bad("control-unexpected", format!("{what}: traffic class reported although not requested"));
            return false;
        }
        // MSG_CTRUNC concerns the control data, not the datagram: property C14 only speaks of the
        // datagram's truncation flag, so this is recorded, not judged.
        if let Some(flags) = got.flags {
            let expect = case.recv_tos && case.family != Family::UnixDgram && !*has_room;
            let got_ct = flags.contains(ReturnFlags::CTRUNC);
            sh.log.label(match (expect, got_ct) {
                (true, true) => "ctrunc:reported",
                (true, false) => "ctrunc:not-reported-though-no-room-requested",
                (false, true) => "ctrunc:reported-though-room",
                (false, false) => "ctrunc:none",
            });
        }
    }
    true
}

fn split2(p: Vec<u8>, cut: u16) -> Vec<Vec<u8>> {
    let c = mono_range(cut, 0, p.len());
    vec![p[..c].to_vec(), p[c..].to_vec()]
}

fn caps_total(bufs: &[Vec<u8>]) -> usize {
    bufs.iter().map(|b| b.capacity()).sum()
}

/// vectored receive result: buffers must be filled in order
fn gather(sh: &Shared, what: &str, n: usize, bufs: &[Vec<u8>], caps: &[usize]) -> Option<Vec<u8>> {
    let total: usize = caps.iter().sum();
    let mut rest = n.min(total);
    let mut all = vec![];
    for (j, b) in bufs.iter().enumerate() {
        let want = rest.min(caps[j]);
        if b.len() != want {
            sh.bad("recv-vectored-fill-order", format!("{what}: returned {n}; buffer #{j} (cap {}) holds {} bytes, expected {want}", caps[j], b.len()));
            return None;
        }
        rest -= want;
        all.extend_from_slice(b);
    }
    Some(all)
}

// ------------------------------------------------------------------------------------------------
// UDP through compio_net::UdpSocket

async fn udp_sender(sock: UdpSocket, dest: SocketAddr, case: DgramCase, sh: Rc<Shared>) {
    let fam = case.family;
    for (i, d) in case.msgs.iter().enumerate() {
        if sh.log.failed() {
            return;
        }
        let len = dg_len(d);
        let p = payload(case.seed as u64, i, len);
        let what = format!("datagram #{i} ({len} bytes) {:?}", d.send);
        let (res, back): (io::Result<usize>, Vec<u8>) = match &d.send {
            DSend::Plain => {
                let BufResult(r, b) = if case.connected { sock.send(p).await } else { sock.send_to(p, dest).await };
                (r, b)
            }
            DSend::Vectored { cut } => {
                let bufs = split2(p, *cut);
                let BufResult(r, b) = if case.connected { sock.send_vectored(bufs).await } else { sock.send_to_vectored(bufs, dest).await };
                (r, b.concat())
            }
            DSend::Msg { tos } => {
                let BufResult(r, (b, _c)) = sock.send_msg(p, tos_control(fam, *tos), dest).await;
                (r, b)
            }
            DSend::MsgVectored { cut, tos } => {
                let BufResult(r, (b, _c)) = sock.send_msg_vectored(split2(p, *cut), tos_control(fam, *tos), dest).await;
                (r, b.concat())
            }
            DSend::Zc => {
                if case.connected {
                    let BufResult(r, f) = sock.send_zerocopy(p).await;
                    (r, f.await)
                } else {
                    let BufResult(r, f) = sock.send_to_zerocopy(p, dest).await;
                    (r, f.await)
                }
            }
            DSend::ZcVectored { cut } => {
                let bufs = split2(p, *cut);
                if case.connected {
                    let BufResult(r, f) = sock.send_zerocopy_vectored(bufs).await;
                    (r, f.await.concat())
                } else {
                    let BufResult(r, f) = sock.send_to_zerocopy_vectored(bufs, dest).await;
                    (r, f.await.concat())
                }
            }
            DSend::MsgZc { tos } => {
                let BufResult(r, f) = sock.send_msg_zerocopy(p, tos_control(fam, *tos), dest).await;
                let (b, _c) = f.await;
                (r, b)
            }
        };
        match res {
            Ok(n) if n == len => {}
            Ok(n) => {
                sh.bad("send-count", format!("{what}: reported {n} bytes sent"));
                return;
            }
            Err(e) => {
                sh.bad(format!("send-error/{}", errno_name(&e)), format!("{what}: {e}"));
                return;
            }
        }
        if back != payload(case.seed as u64, i, len) {
            sh.bad("send-buffer-changed", format!("{what}: the buffer came back modified"));
            return;
        }
        sh.sent.set(i + 1);
    }
}

macro_rules! with_ctl {
    ($ctl:expr, $c:ident => $e:expr) => {
        if $ctl {
            let $c = AncillaryBuf::<64>::new();
            $e
        } else {
            let $c = AncillaryBuf::<0>::new();
            $e
        }
    };
}

async fn udp_receiver(sock: UdpSocket, sender: Peer, case: DgramCase, sh: Rc<Shared>) {
    let pool_len = case.pool_len as usize;
    let mcap = |len: u16| if len == 0 { pool_len } else { (len as usize).min(pool_len) };
    let n_single = match &case.multi {
        Some((from, _)) => mono_range(*from, 0, case.msgs.len()),
        None => case.msgs.len(),
    };
    let kind = |bit: u32| sh.kinds.set(sh.kinds.get() | (1 << bit));
    for (i, d) in case.msgs.iter().enumerate().take(n_single) {
        if sh.log.failed() {
            return;
        }
        let mut tries = 0u32;
        let got = loop {
            let r: io::Result<Got> = match &d.recv {
                DRecv::Recv { cap } => {
                    kind(0);
                    let buf = Vec::with_capacity(*cap as usize);
                    let cap = buf.capacity();
                    let BufResult(r, b) = sock.recv(buf).await;
                    r.map(|n| Got { what: format!("recv(cap {cap}) -> {n}"), data: b, cap, addr: None, flags: None, control: None, none: false })
                }
                DRecv::RecvVectored { caps } => {
                    kind(1);
                    let bufs: Vec<Vec<u8>> = caps.iter().map(|c| Vec::with_capacity(*c as usize)).collect();
                    let real: Vec<usize> = bufs.iter().map(|b| b.capacity()).collect();
                    let BufResult(r, b) = sock.recv_vectored(bufs).await;
                    match r {
                        Ok(n) => match gather(&sh, &format!("datagram #{i} recv_vectored{real:?}"), n, &b, &real) {
                            Some(data) => Ok(Got { what: format!("recv_vectored({real:?}) -> {n}"), data, cap: caps_total(&b), addr: None, flags: None, control: None, none: false }),
                            None => return,
                        },
                        Err(e) => Err(e),
                    }
                }
                DRecv::RecvFrom { cap } => {
                    kind(2);
                    let buf = Vec::with_capacity(*cap as usize);
                    let cap = buf.capacity();
                    let BufResult(r, b) = sock.recv_from(buf).await;
                    r.map(|(n, a)| Got { what: format!("recv_from(cap {cap}) -> {n}"), data: b, cap, addr: Some(Some(SockAddr::from(a))), flags: None, control: None, none: false })
                }
                DRecv::RecvFromVectored { caps } => {
                    kind(3);
                    let bufs: Vec<Vec<u8>> = caps.iter().map(|c| Vec::with_capacity(*c as usize)).collect();
                    let real: Vec<usize> = bufs.iter().map(|b| b.capacity()).collect();
                    let BufResult(r, b) = sock.recv_from_vectored(bufs).await;
                    match r {
                        Ok((n, a)) => match gather(&sh, &format!("datagram #{i} recv_from_vectored{real:?}"), n, &b, &real) {
                            Some(data) => Ok(Got { what: format!("recv_from_vectored({real:?}) -> {n}"), data, cap: caps_total(&b), addr: Some(Some(SockAddr::from(a))), flags: None, control: None, none: false }),
                            None => return,
                        },
                        Err(e) => Err(e),
                    }
                }
                DRecv::RecvMsg { cap, ctl } => {
                    kind(4);
                    let buf = Vec::with_capacity(*cap as usize);
                    let cap = buf.capacity();
                    with_ctl!(*ctl, c => {
                        let BufResult(r, (b, c)) = sock.recv_msg(buf, c).await;
                        r.map(|(n, clen, a, f)| Got {
                            what: format!("recv_msg(cap {cap}, ctl {ctl}) -> n={n} clen={clen}"),
                            data: b,
                            cap,
                            addr: Some(Some(SockAddr::from(a))),
                            flags: Some(f),
                            control: Some((c[..clen.min(c.len())].to_vec(), *ctl)),
                            none: clen != c.len(),
                        })
                    })
                    .map(|mut g| {
                        if g.none {
                            sh.bad("control-length", format!("datagram #{i} {}: control buffer length differs from the reported control length", g.what));
                        }
                        g.none = false;
                        g
                    })
                }
                DRecv::RecvMsgVectored { caps, ctl } => {
                    kind(5);
                    let bufs: Vec<Vec<u8>> = caps.iter().map(|c| Vec::with_capacity(*c as usize)).collect();
                    let real: Vec<usize> = bufs.iter().map(|b| b.capacity()).collect();
                    let r = with_ctl!(*ctl, c => {
                        let BufResult(r, (b, c)) = sock.recv_msg_vectored(bufs, c).await;
                        r.map(|(n, clen, a, f)| (n, clen, a, f, b, c.to_vec()))
                    });
                    match r {
                        Ok((n, clen, a, f, b, c)) => {
                            if clen != c.len() {
                                sh.bad("control-length", format!("datagram #{i} recv_msg_vectored: control buffer holds {} bytes, reported {clen}", c.len()));
                                return;
                            }
                            match gather(&sh, &format!("datagram #{i} recv_msg_vectored{real:?}"), n, &b, &real) {
                                Some(data) => Ok(Got {
                                    what: format!("recv_msg_vectored({real:?}, ctl {ctl}) -> n={n} clen={clen}"),
                                    data,
                                    cap: caps_total(&b),
                                    addr: Some(Some(SockAddr::from(a))),
                                    flags: Some(f),
                                    control: Some((c, *ctl)),
                                    none: false,
                                }),
                                None => return,
                            }
                        }
                        Err(e) => Err(e),
                    }
                }
                DRecv::Managed { len } => {
                    kind(6);
                    let cap = mcap(*len);
                    sock.recv_managed(*len as usize).await.map(|o| match o {
                        Some(b) => Got { what: format!("recv_managed({len}) -> {}", b.len()), data: b.to_vec(), cap, addr: None, flags: None, control: None, none: false },
                        None => Got { what: format!("recv_managed({len}) -> None"), data: vec![], cap, addr: None, flags: None, control: None, none: true },
                    })
                }
                DRecv::FromManaged { len } => {
                    kind(7);
                    let cap = mcap(*len);
                    sock.recv_from_managed(*len as usize).await.map(|o| match o {
                        Some((b, a)) => Got { what: format!("recv_from_managed({len}) -> {}", b.len()), data: b.to_vec(), cap, addr: Some(Some(SockAddr::from(a))), flags: None, control: None, none: false },
                        None => Got { what: format!("recv_from_managed({len}) -> None"), data: vec![], cap, addr: None, flags: None, control: None, none: true },
                    })
                }
                DRecv::MsgManaged { len, ctl } => {
                    kind(8);
                    let cap = mcap(*len);
                    with_ctl!(*ctl, c => {
                        sock.recv_msg_managed(*len as usize, c).await.map(|o| match o {
                            Some((b, c, a, f)) => Got {
                                what: format!("recv_msg_managed({len}, ctl {ctl}) -> {}", b.len()),
                                data: b.to_vec(),
                                cap,
                                addr: Some(Some(SockAddr::from(a))),
                                flags: Some(f),
                                control: Some((c.to_vec(), *ctl)),
                                none: false,
                            },
                            None => Got { what: format!("recv_msg_managed({len}) -> None"), data: vec![], cap, addr: None, flags: None, control: None, none: true },
                        })
                    })
                }
            };
            match r {
                Ok(g) => break g,
                Err(e) if is_nobufs(&e) && tries < 100_000 => {
                    tries += 1;
                    yield_now().await;
                }
                Err(e) => {
                    sh.bad(format!("recv-error/{}", errno_name(&e)), format!("datagram #{i} {:?}: {e}", d.recv));
                    return;
                }
            }
        };
        if sh.log.failed() || !check_got(&sh, &case, i, got, &sender) {
            return;
        }
        sh.received.set(i + 1);
    }
    // ---- multishot tail over the remaining datagrams
    let Some((_, mk)) = &case.multi else { return };
    let mut i = n_single;
    let mut tries = 0u32;
    let drvname = case.drv.name();
    while i < case.msgs.len() {
        if sh.log.failed() {
            return;
        }
        match mk {
            MultiKind::Multi { len } => {
                kind(9);
                let cap = mcap(*len);
                let mut st = std::pin::pin!(sock.recv_multi(*len as usize));
                while i < case.msgs.len() {
                    match st.next().await {
                        Some(Ok(b)) => {
                            let g = Got { what: format!("recv_multi({len}) item of {}", b.len()), data: b.to_vec(), cap, addr: None, flags: None, control: None, none: false };
                            drop(b);
                            if !check_got(&sh, &case, i, g, &sender) {
                                return;
                            }
                            i += 1;
                            sh.received.set(i);
                        }
                        Some(Err(e)) if is_nobufs(&e) && tries < 100_000 => {
                            tries += 1;
                            yield_now().await;
                        }
                        Some(Err(e)) => {
                            sh.bad(format!("recv-error/{}", errno_name(&e)), format!("recv_multi at datagram #{i}: {e}"));
                            return;
                        }
                        None => {
                            // documented end condition: an empty read; legal only for an empty datagram
                            if dg_len(&case.msgs[i]) != 0 {
                                sh.bad("multi-stream-ended", format!("recv_multi ended before datagram #{i} of {} bytes", dg_len(&case.msgs[i])));
                                return;
                            }
                            i += 1;
                            sh.received.set(i);
                            break;
                        }
                    }
                }
            }
            MultiKind::FromMulti => {
                kind(10);
                let cap = if case.drv == Drv::IoUring { pool_len.saturating_sub(16 + 128) } else { pool_len };
                let mut st = std::pin::pin!(sock.recv_from_multi());
                while i < case.msgs.len() {
                    match st.next().await {
                        Some(Ok(r)) => {
                            if r.data().is_empty() && dg_len(&case.msgs[i]) > 0 && cap > 0 {
                                sh.bad(format!("recv_from_multi/empty-payload/{drvname}"), format!("recv_from_multi item for datagram #{i} ({} bytes) carries no payload", dg_len(&case.msgs[i])));
                                return;
                            }
                            let g = Got { what: format!("recv_from_multi item of {}", r.data().len()), data: r.data().to_vec(), cap, addr: Some(r.addr()), flags: None, control: None, none: false };
                            drop(r);
                            if !check_got(&sh, &case, i, g, &sender) {
                                return;
                            }
                            i += 1;
                            sh.received.set(i);
                        }
                        Some(Err(e)) if is_nobufs(&e) && tries < 100_000 => {
                            tries += 1;
                            yield_now().await;
                        }
                        Some(Err(e)) => {
                            sh.bad(format!("recv-error/{}", errno_name(&e)), format!("recv_from_multi at datagram #{i}: {e}"));
                            return;
                        }
                        None => {
                            sh.bad("multi-stream-ended", format!("recv_from_multi ended before datagram #{i}"));
                            return;
                        }
                    }
                }
            }
            MultiKind::MsgMulti { clen } => {
                kind(11);
                let clen = *clen as usize;
                let cap = if case.drv == Drv::IoUring { pool_len.saturating_sub(16 + 128 + clen) } else { pool_len };
                // room for control data: io_uring reserves exactly `clen` bytes; the fallback takes a pool
                // buffer narrowed to `clen` (0 = not narrowed)
                let ctl_cap = if case.drv == Drv::IoUring { clen } else if clen == 0 { pool_len } else { clen.min(pool_len) };
                let has_room = ctl_cap >= tos_cmsg_len(case.family);
                let mut st = std::pin::pin!(sock.recv_msg_multi(clen));
                while i < case.msgs.len() {
                    match st.next().await {
                        Some(Ok(r)) => {
                            if r.data().is_empty() && dg_len(&case.msgs[i]) > 0 && cap > 0 {
                                sh.bad(format!("recv_msg_multi/empty-payload/{drvname}"), format!("recv_msg_multi item for datagram #{i} ({} bytes) carries no payload", dg_len(&case.msgs[i])));
                                return;
                            }
                            let g = Got {
                                what: format!("recv_msg_multi({clen}) item of {}", r.data().len()),
                                data: r.data().to_vec(),
                                cap,
                                addr: Some(r.addr()),
                                flags: Some(r.flags()),
                                control: Some((r.ancillary().to_vec(), has_room)),
                                none: false,
                            };
                            drop(r);
                            if !check_got(&sh, &case, i, g, &sender) {
                                return;
                            }
                            i += 1;
                            sh.received.set(i);
                        }
                        Some(Err(e)) if is_nobufs(&e) && tries < 100_000 => {
                            tries += 1;
                            yield_now().await;
                        }
                        Some(Err(e)) => {
                            sh.bad(format!("recv-error/{}", errno_name(&e)), format!("recv_msg_multi at datagram #{i}: {e}"));
                            return;
                        }
                        None => {
                            sh.bad("multi-stream-ended", format!("recv_msg_multi ended before datagram #{i}"));
                            return;
                        }
                    }
                }
            }
        }
    }
}

// ------------------------------------------------------------------------------------------------
// Unix datagram through the driver's ops (the code of compio-net's `Socket` methods, on an AF_UNIX fd)

async fn unix_sender(fd: SharedFd<Socket>, dest: SockAddr, case: DgramCase, sh: Rc<Shared>) {
    let flags = SendFlags::from_bits_retain(libc::MSG_NOSIGNAL as _);
    for (i, d) in case.msgs.iter().enumerate() {
        if sh.log.failed() {
            return;
        }
        let len = dg_len(d);
        let p = payload(case.seed as u64, i, len);
        let what = format!("datagram #{i} ({len} bytes) {:?}", d.send);
        let (res, back): (io::Result<usize>, Vec<u8>) = match &d.send {
            DSend::Plain | DSend::Zc => {
                let BufResult(r, b) = compio_runtime::submit(SendTo::new(fd.clone(), p, dest.clone(), flags)).await.into_inner();
                (r, b)
            }
            DSend::Vectored { cut } | DSend::ZcVectored { cut } => {
                let BufResult(r, b) = compio_runtime::submit(SendToVectored::new(fd.clone(), split2(p, *cut), dest.clone(), flags)).await.into_inner();
                (r, b.concat())
            }
            DSend::Msg { .. } | DSend::MsgZc { .. } => {
                let BufResult(r, (b, _c)) = compio_runtime::submit(SendMsg::new(fd.clone(), [p], Vec::<u8>::new(), Some(dest.clone()), flags)).await.into_inner();
                let [b] = b;
                (r, b)
            }
            DSend::MsgVectored { cut, .. } => {
                let BufResult(r, (b, _c)) = compio_runtime::submit(SendMsg::new(fd.clone(), split2(p, *cut), Vec::<u8>::new(), Some(dest.clone()), flags)).await.into_inner();
                (r, b.concat())
            }
        };
        match res {
            Ok(n) if n == len => {}
            Ok(n) => {
                sh.bad("send-count", format!("{what}: reported {n} bytes sent"));
                return;
            }
            Err(e) => {
                sh.bad(format!("send-error/{}", errno_name(&e)), format!("{what}: {e}"));
                return;
            }
        }
        if back != payload(case.seed as u64, i, len) {
            sh.bad("send-buffer-changed", format!("{what}: the buffer came back modified"));
            return;
        }
        sh.sent.set(i + 1);
    }
}

async fn unix_receiver(fd: SharedFd<Socket>, sender: Peer, case: DgramCase, sh: Rc<Shared>) {
    let pool_len = case.pool_len as usize;
    let mcap = |len: u16| if len == 0 { pool_len } else { (len as usize).min(pool_len) };
    let kind = |bit: u32| sh.kinds.set(sh.kinds.get() | (1 << bit));
    let none = RecvFlags::empty();
    for (i, d) in case.msgs.iter().enumerate() {
        if sh.log.failed() {
            return;
        }
        let mut tries = 0u32;
        let got = loop {
            let r: io::Result<Got> = match &d.recv {
                DRecv::Recv { cap } | DRecv::RecvFrom { cap } => {
                    kind(2);
                    let buf = Vec::with_capacity(*cap as usize);
                    let cap = buf.capacity();
                    let res = compio_runtime::submit(RecvFrom::new(fd.clone(), buf, none)).await.into_inner().map_addr();
                    let BufResult(r, b) = unsafe { res.map_advanced() };
                    r.map(|(n, a)| Got { what: format!("RecvFrom(cap {cap}) -> {n}"), data: b, cap, addr: Some(a), flags: None, control: None, none: false })
                }
                DRecv::RecvVectored { caps } | DRecv::RecvFromVectored { caps } => {
                    kind(3);
                    let bufs: Vec<Vec<u8>> = caps.iter().map(|c| Vec::with_capacity(*c as usize)).collect();
                    let real: Vec<usize> = bufs.iter().map(|b| b.capacity()).collect();
                    let res = compio_runtime::submit(RecvFromVectored::new(fd.clone(), bufs, none)).await.into_inner().map_addr();
                    let BufResult(r, b) = unsafe { res.map_vec_advanced() };
                    match r {
                        Ok((n, a)) => match gather(&sh, &format!("datagram #{i} RecvFromVectored{real:?}"), n, &b, &real) {
                            Some(data) => Ok(Got { what: format!("RecvFromVectored({real:?}) -> {n}"), data, cap: caps_total(&b), addr: Some(a), flags: None, control: None, none: false }),
                            None => return,
                        },
                        Err(e) => Err(e),
                    }
                }
                DRecv::RecvMsg { cap, .. } => {
                    kind(4);
                    let buf = Vec::with_capacity(*cap as usize);
                    let cap = buf.capacity();
                    let res = compio_runtime::submit(RecvMsg::new(fd.clone(), [buf], AncillaryBuf::<64>::new(), none)).await.into_inner().map_addr();
                    let BufResult(r, ([b], c)) = unsafe { res.map_vec_advanced() };
                    r.map(|(n, clen, a, f)| Got { what: format!("RecvMsg(cap {cap}) -> n={n} clen={clen}"), data: b, cap, addr: Some(a), flags: Some(f), control: Some((c[..clen.min(c.len())].to_vec(), true)), none: false })
                }
                DRecv::RecvMsgVectored { caps, .. } => {
                    kind(5);
                    let bufs: Vec<Vec<u8>> = caps.iter().map(|c| Vec::with_capacity(*c as usize)).collect();
                    let real: Vec<usize> = bufs.iter().map(|b| b.capacity()).collect();
                    let res = compio_runtime::submit(RecvMsg::new(fd.clone(), bufs, AncillaryBuf::<64>::new(), none)).await.into_inner().map_addr();
                    let BufResult(r, (b, c)) = unsafe { res.map_vec_advanced() };
                    match r {
                        Ok((n, clen, a, f)) => match gather(&sh, &format!("datagram #{i} RecvMsg{real:?}"), n, &b, &real) {
                            Some(data) => Ok(Got { what: format!("RecvMsg({real:?}) -> n={n} clen={clen}"), data, cap: caps_total(&b), addr: Some(a), flags: Some(f), control: Some((c[..clen.min(c.len())].to_vec(), true)), none: false }),
                            None => return,
                        },
                        Err(e) => Err(e),
                    }
                }
                DRecv::Managed { len } | DRecv::FromManaged { len } | DRecv::MsgManaged { len, .. } => {
                    kind(7);
                    let cap = mcap(*len);
                    let sub = Runtime::with_current(|rt| {
                        let pool = rt.buffer_pool()?;
                        let op = RecvFromManaged::new(fd.clone(), &pool, *len as usize, none)?;
                        io::Result::Ok(rt.submit(op))
                    });
                    match sub {
                        Err(e) => Err(e),
                        Ok(s) => {
                            let BufResult(r, op) = s.await;
                            match r {
                                Err(e) => Err(e),
                                Ok(0) => Ok(Got { what: format!("RecvFromManaged({len}) -> 0"), data: vec![], cap, addr: None, flags: None, control: None, none: true }),
                                Ok(n) => match compio_driver::TakeBuffer::take_buffer(op) {
                                    Some((mut b, a)) => {
                                        unsafe { compio_buf::SetLenExt::advance_to(&mut b, n) };
                                        Ok(Got { what: format!("RecvFromManaged({len}) -> {n}"), data: b.to_vec(), cap, addr: Some(a), flags: None, control: None, none: false })
                                    }
                                    None => Err(io::Error::other("no buffer selected")),
                                },
                            }
                        }
                    }
                }
            };
            match r {
                Ok(g) => break g,
                Err(e) if is_nobufs(&e) && tries < 100_000 => {
                    tries += 1;
                    yield_now().await;
                }
                Err(e) => {
                    sh.bad(format!("recv-error/{}", errno_name(&e)), format!("datagram #{i} {:?}: {e}", d.recv));
                    return;
                }
            }
        };
        if sh.log.failed() || !check_got(&sh, &case, i, got, &sender) {
            return;
        }
        sh.received.set(i + 1);
    }
}

// ------------------------------------------------------------------------------------------------

pub fn run_dgram(case: &DgramCase) -> Outcome {
    let mut cfg = RtCfg::new(case.drv);
    cfg.pool_len = case.pool_len as usize;
    cfg.pool_size = 8;
    let rt = match build_rt(&cfg) {
        Ok(rt) => rt,
        Err(e) => return Outcome::inconclusive(format!("runtime build: {e}")),
    };
    let sh = Rc::new(Shared { log: SharedLog::new(), sent: Cell::new(0), received: Cell::new(0), truncated: Cell::new(0), kinds: Cell::new(0), tos_checked: Cell::new(0) });
    let tmp = if case.family == Family::UnixDgram { tempfile::Builder::new().prefix("c14d").tempdir().ok() } else { None };
    let mut handles = vec![];
    let mut rx_raw = -1;
    let setup: Result<(), String> = rt.enter(|| {
        match case.family {
            Family::Udp4 | Family::Udp6 => {
                let bind = if case.family == Family::Udp4 { "127.0.0.1:0" } else { "[::1]:0" };
                let mut mk = rt.spawn(async move {
                    let rx = UdpSocket::bind(bind).await?;
                    let tx = UdpSocket::bind(bind).await?;
                    io::Result::Ok((rx, tx))
                });
                if !drive(&rt, || mk.is_finished(), Duration::from_secs(60)) {
                    return Err("watchdog: bind".into());
                }
                let (rx, tx) = match join_now(&mut mk) {
                    Some(Ok(Ok(p))) => p,
                    other => return Err(format!("bind failed: {:?}", other.map(|r| r.map(|r| r.map(|_| ())))))
                };
                let rx_addr = rx.local_addr().map_err(|e| e.to_string())?;
                let tx_addr = tx.local_addr().map_err(|e| e.to_string())?;
                if case.recv_tos {
                    let one: i32 = 1;
                    let (lvl, opt) = if case.family == Family::Udp4 { (libc::IPPROTO_IP, libc::IP_RECVTOS) } else { (libc::IPPROTO_IPV6, libc::IPV6_RECVTCLASS) };
                    unsafe { libc::setsockopt(rx.as_raw_fd(), lvl, opt, &one as *const _ as _, 4) };
                }
                rx_raw = rx.as_raw_fd();
                let (c1, c2, s1, s2) = (case.clone(), case.clone(), sh.clone(), sh.clone());
                let connected = case.connected;
                handles.push(rt.spawn(async move {
                    if connected {
                        if let Err(e) = tx.connect(rx_addr).await {
                            s1.bad("connect-error", format!("{e}"));
                            return;
                        }
                    }
                    udp_sender(tx, rx_addr, c1, s1).await;
                    std::future::pending::<()>().await;
                }));
                handles.push(rt.spawn(async move {
                    udp_receiver(rx.clone(), Peer::Inet(tx_addr), c2, s2).await;
                    let _keep = rx;
                    std::future::pending::<()>().await;
                }));
            }
            Family::UnixDgram => {
                let dir = tmp.as_ref().ok_or("no temp dir")?.path().to_path_buf();
                let (rp, tp) = (dir.join("rx.sock"), dir.join("tx.sock"));
                let mk = |p: &PathBuf| -> io::Result<Attacher<Socket>> {
                    let s = Socket::new(Domain::UNIX, Type::DGRAM, None)?;
                    s.set_nonblocking(true)?;
                    s.bind(&SockAddr::unix(p)?)?;
                    Attacher::new(s)
                };
                let rx = mk(&rp).map_err(|e| format!("unix dgram socket: {e}"))?;
                let tx = mk(&tp).map_err(|e| format!("unix dgram socket: {e}"))?;
                rx_raw = rx.as_raw_fd();
                let dest = SockAddr::unix(&rp).map_err(|e| e.to_string())?;
                let (c1, c2, s1, s2) = (case.clone(), case.clone(), sh.clone(), sh.clone());
                let (txfd, rxfd) = (tx.to_shared_fd(), rx.to_shared_fd());
                handles.push(rt.spawn(async move {
                    unix_sender(txfd, dest, c1, s1).await;
                    let _keep = tx;
                    std::future::pending::<()>().await;
                }));
                handles.push(rt.spawn(async move {
                    unix_receiver(rxfd, Peer::Unix(tp), c2, s2).await;
                    let _keep = rx;
                    std::future::pending::<()>().await;
                }));
            }
        }
        Ok(())
    });
    if let Err(e) = setup {
        return Outcome::inconclusive(e);
    }
    let n = case.msgs.len();
    let finished = drive(&rt, || sh.log.failed() || handles.iter().any(|h| h.is_finished() && sh.received.get() < n) || (sh.received.get() == n && sh.sent.get() == n), Duration::from_secs(120));
    let mut panic_msg = None;
    for (i, h) in handles.iter_mut().enumerate() {
        if h.is_finished() {
            if let Some(Err(e)) = join_now(h) {
                panic_msg = Some((i, e));
            }
        }
    }
    let l = sh.log.take();
    let result = if let Some((sig, detail)) = l.violation {
        Outcome::violation(sig, detail)
    } else if let Some((i, e)) = panic_msg {
        Outcome::violation(format!("C14/dgram/{}", netlab::strip_digits(&e)), format!("task #{i}: {e}"))
    } else if !finished || sh.received.get() != n {
        Outcome::inconclusive(format!("watchdog: sent {} received {} of {n}", sh.sent.get(), sh.received.get()))
    } else {
        let mut labels = vec![format!("drv:{}", case.drv.name()), format!("family:{:?}", case.family)];
        labels.extend(l.labels.iter().cloned());
        if case.connected {
            labels.push("connected".into());
        }
        if sh.truncated.get() > 0 {
            labels.push("truncated".into());
        }
        if sh.tos_checked.get() > 0 {
            labels.push("tos-roundtrip".into());
        }
        for (bit, name) in ["recv", "recv_vectored", "recv_from", "recv_from_vectored", "recv_msg", "recv_msg_vectored", "managed", "from_managed", "msg_managed", "multi", "from_multi", "msg_multi"].iter().enumerate() {
            if sh.kinds.get() & (1 << bit) != 0 {
                labels.push(format!("rx:{name}"));
            }
        }
        let mut skinds = std::collections::BTreeSet::new();
        for d in &case.msgs {
            skinds.insert(match d.send {
                DSend::Plain => "plain",
                DSend::Vectored { .. } => "vectored",
                DSend::Msg { .. } => "msg",
                DSend::MsgVectored { .. } => "msg_vectored",
                DSend::Zc => "zc",
                DSend::ZcVectored { .. } => "zc_vectored",
                DSend::MsgZc { .. } => "msg_zc",
            });
        }
        for k in &skinds {
            labels.push(format!("tx:{k}"));
        }
        let nontrivial = sh.truncated.get() > 0 || sh.kinds.get().count_ones() >= 2 || skinds.len() >= 2;
        Outcome::pass_owned(nontrivial, labels)
    };
    // "exactly once": after the last datagram nothing may be left in the receive queue
    let result = if let Outcome::Pass { .. } = &result {
        let mut b = [0u8; 8];
        let r = unsafe { libc::recv(rx_raw, b.as_mut_ptr() as _, 8, libc::MSG_DONTWAIT | libc::MSG_PEEK) };
        let errno = io::Error::last_os_error().raw_os_error();
        if r >= 0 || (errno != Some(libc::EAGAIN) && errno != Some(libc::EWOULDBLOCK)) {
            Outcome::violation("C14/dgram/extra-datagram", format!("after all {n} datagrams were received a peek on the socket returned {r} (errno {errno:?})"))
        } else {
            result
        }
    } else {
        result
    };
    drop(handles);
    drop(rt);
    result
}

// ------------------------------------------------------------------------------------------------
// generator

fn dlen() -> impl Strategy<Value = u16> + Clone {
    prop_oneof![1 => Just(0u16), 5 => 1u16..=64, 4 => 65u16..=600, 3 => 601u16..=2000]
}

fn cap() -> impl Strategy<Value = u16> + Clone {
    prop_oneof![1 => Just(0u16), 3 => 1u16..=64, 3 => 65u16..=600, 4 => 601u16..=2100]
}

fn tos() -> impl Strategy<Value = Option<u8>> + Clone {
    prop_oneof![1 => Just(None), 2 => (0u8..=63).prop_map(|t| Some(t << 2))]
}

fn dsend() -> impl Strategy<Value = DSend> + Clone {
    prop_oneof![
        3 => Just(DSend::Plain),
        2 => any::<u16>().prop_map(|cut| DSend::Vectored { cut }),
        2 => tos().prop_map(|tos| DSend::Msg { tos }),
        1 => (any::<u16>(), tos()).prop_map(|(cut, tos)| DSend::MsgVectored { cut, tos }),
        1 => Just(DSend::Zc),
        1 => any::<u16>().prop_map(|cut| DSend::ZcVectored { cut }),
        1 => tos().prop_map(|tos| DSend::MsgZc { tos }),
    ]
}

fn drecv() -> impl Strategy<Value = DRecv> + Clone {
    let mlen = prop_oneof![Just(0u16), 1u16..=2100];
    prop_oneof![
        2 => cap().prop_map(|cap| DRecv::Recv { cap }),
        1 => vec(cap(), 1..=3).prop_map(|caps| DRecv::RecvVectored { caps }),
        2 => cap().prop_map(|cap| DRecv::RecvFrom { cap }),
        1 => vec(cap(), 1..=3).prop_map(|caps| DRecv::RecvFromVectored { caps }),
        3 => (cap(), any::<bool>()).prop_map(|(cap, ctl)| DRecv::RecvMsg { cap, ctl }),
        1 => (vec(cap(), 1..=3), any::<bool>()).prop_map(|(caps, ctl)| DRecv::RecvMsgVectored { caps, ctl }),
        1 => mlen.clone().prop_map(|len| DRecv::Managed { len }),
        2 => mlen.clone().prop_map(|len| DRecv::FromManaged { len }),
        2 => (mlen, any::<bool>()).prop_map(|(len, ctl)| DRecv::MsgManaged { len, ctl }),
    ]
}

fn multi() -> impl Strategy<Value = Option<(u16, MultiKind)>> + Clone {
    prop_oneof![
        2 => Just(None),
        3 => (any::<u16>(), prop_oneof![prop_oneof![Just(0u16), 1u16..=2100].prop_map(|len| MultiKind::Multi { len }), Just(MultiKind::FromMulti), prop_oneof![2 => Just(0u8), 1 => Just(64u8), 5 => 1u8..=128].prop_map(|clen| MultiKind::MsgMulti { clen })]).prop_map(Some),
    ]
}

pub fn case_strategy() -> impl Strategy<Value = DgramCase> + Clone {
    (
        prop_oneof![Just(Drv::IoUring), Just(Drv::Poll)],
        prop_oneof![2 => Just(Family::Udp4), 2 => Just(Family::Udp6), 1 => Just(Family::UnixDgram)],
        any::<bool>(),
        any::<bool>(),
        prop_oneof![Just(64u16), Just(256u16), Just(1024u16), Just(4096u16)],
        any::<u16>(),
        vec((dlen(), dsend(), drecv()).prop_map(|(len, send, recv)| Dg { len, send, recv }), 1..=16),
        multi(),
    )
        .prop_map(|(drv, family, connected, recv_tos, pool_len, seed, msgs, multi)| {
            let mut c = DgramCase { drv, family, connected, recv_tos, pool_len, seed, msgs, multi };
            normalise(&mut c);
            c
        })
}

pub fn normalise(c: &mut DgramCase) {
    if c.family == Family::UnixDgram {
        c.connected = false;
        c.recv_tos = false;
        c.multi = None;
    }
    if let Some((_, mk)) = &mut c.multi {
        if crate::EXCLUDE_FUSION_POLL.load(std::sync::atomic::Ordering::Relaxed) && c.drv == Drv::Poll && !matches!(mk, MultiKind::Multi { .. }) {
            *mk = MultiKind::Multi { len: 0 };
        }
        // io_uring multishot recvmsg: header (16) + name (128) + control + payload share one pool buffer
        let clen = if let MultiKind::MsgMulti { clen } = mk { *clen as u16 } else { 0 };
        if c.drv == Drv::IoUring && !matches!(mk, MultiKind::Multi { .. }) && c.pool_len < 16 + 128 + clen + 64 {
            c.pool_len = 1024;
        }
    }
}

pub fn run(s: &mut Session) {
    let mut p = Part::new(
        "C14",
        "dgram",
        "case = driver {io_uring, poll} x family {UDP v4, UDP v6 via compio_net::UdpSocket; Unix datagram via the driver's socket ops} x connected/unconnected sender x 1-16 datagrams \
         (length 0..2000; send kind: send/send_to, vectored, send_msg(_vectored) with optional IP_TOS/IPV6_TCLASS control message, zero-copy variants) each paired with a receive call \
         (recv, recv_vectored, recv_from(_vectored), recv_msg(_vectored) with/without control buffer, recv_managed, recv_from_managed, recv_msg_managed; capacities 0..2100, smaller / equal / larger \
         than the datagram) and optionally a multishot tail (recv_multi, recv_from_multi, recv_msg_multi with any control length 0..128, aligned or not) consuming the remaining datagrams; pool buffer length 64..4096; sender and receiver are \
         concurrent tasks. Non-trivial = a truncated datagram, or >= 2 different receive kinds, or >= 2 different send kinds in the case; distinct = distinct serialised case.",
    );
    p.quick_cases = 6000;
    p.thorough_cases = 40000;
    p.threads = 4;
    p.max_shrink_iters = 400;
    p.assumptions = vec![
        "loopback UDP and Unix datagram sockets neither drop nor reorder <= 16 outstanding datagrams of <= 2000 bytes (default socket buffers)",
        "a multishot datagram stream is only dropped when no further datagram is outstanding",
    ];
    p.regressions = vec![
        (
            "fusion-poll-recv_from_multi",
            DgramCase {
                drv: Drv::Poll,
                family: Family::Udp4,
                connected: false,
                recv_tos: false,
                pool_len: 1024,
                seed: 1,
                msgs: vec![Dg { len: 5, send: DSend::Plain, recv: DRecv::Recv { cap: 10 } }],
                multi: Some((0, MultiKind::FromMulti)),
            },
        ),
        (
            "fusion-poll-recv_msg_multi",
            DgramCase {
                drv: Drv::Poll,
                family: Family::Udp6,
                connected: false,
                recv_tos: false,
                pool_len: 1024,
                seed: 1,
                msgs: vec![Dg { len: 5, send: DSend::Plain, recv: DRecv::Recv { cap: 10 } }],
                multi: Some((0, MultiKind::MsgMulti { clen: 64 })),
            },
        ),
        (
            "truncation-flags",
            DgramCase {
                drv: Drv::IoUring,
                family: Family::Udp4,
                connected: true,
                recv_tos: true,
                pool_len: 256,
                seed: 2,
                msgs: vec![
                    Dg { len: 1000, send: DSend::Msg { tos: Some(0x28) }, recv: DRecv::RecvMsg { cap: 100, ctl: true } },
                    Dg { len: 300, send: DSend::Zc, recv: DRecv::MsgManaged { len: 0, ctl: true } },
                    Dg { len: 7, send: DSend::Vectored { cut: 30000 }, recv: DRecv::RecvFromVectored { caps: vec![3, 10] } },
                ],
                multi: None,
            },
        ),
    ];
    s.run_part(p, case_strategy(), run_dgram);
}
