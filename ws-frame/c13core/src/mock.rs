//! In-memory peers for `Framed`: a reader that delivers a byte string through a fragmentation
//! schedule, a recording writer with partial writes and optional write-behind buffering, and a
//! tiny poll driver (no runtime: every future here completes after a bounded number of polls).
use std::{
    cell::{Cell, RefCell},
    future::Future,
    io,
    pin::Pin,
    rc::Rc,
    task::{Context, Poll, Waker},
};

use compio_buf::{BufResult, IoBuf, IoBufMut, SetLenExt};
use compio_io::{AsyncRead, AsyncWrite};
use serde::{Deserialize, Serialize};

/// One entry of a fragmentation / partial-write schedule: at most `n` bytes (0 is treated as 1; a
/// 0-byte read would mean EOF), optionally returning `Pending` once (after waking) first.
#[derive(Debug, Clone, Copy, Serialize, Deserialize, PartialEq, Eq)]
pub struct Frag {
    pub n: u16,
    pub pend: bool,
}

struct YieldOnce(bool);
impl Future for YieldOnce {
    type Output = ();

    fn poll(mut self: Pin<&mut Self>, cx: &mut Context<'_>) -> Poll<()> {
        if self.0 {
            Poll::Ready(())
        } else {
            self.0 = true;
            cx.waker().wake_by_ref();
            Poll::Pending
        }
    }
}

#[derive(Default)]
pub struct ReadLog {
    /// stream offsets at which a read call ended (fragment boundaries actually delivered)
    pub cuts: RefCell<Vec<usize>>,
    pub calls: Cell<usize>,
    pub eofs: Cell<usize>,
    pub pendings: Cell<usize>,
    pub bound_hit: Cell<bool>,
}

pub struct FragReader {
    data: Vec<u8>,
    pos: usize,
    sched: Vec<Frag>,
    next: usize,
    max_calls: usize,
    pub log: Rc<ReadLog>,
}

impl FragReader {
    pub fn new(data: Vec<u8>, sched: Vec<Frag>) -> (Self, Rc<ReadLog>) {
        let log = Rc::new(ReadLog::default());
        let max_calls = data.len() + 4;
        (FragReader { data, pos: 0, sched, next: 0, max_calls, log: log.clone() }, log)
    }
}

impl AsyncRead for FragReader {
    async fn read<B: IoBufMut>(&mut self, mut buf: B) -> BufResult<usize, B> {
        self.log.calls.set(self.log.calls.get() + 1);
        if self.log.calls.get() > self.max_calls {
            // every call delivers >= 1 byte or reports EOF, and a reader is entitled to stop asking
            // after the second EOF: more calls than bytes + 4 means the consumer is spinning
            self.log.bound_hit.set(true);
            return BufResult(Err(io::Error::other("VERIF step bound: reader polled more often than bytes + 4")), buf);
        }
        let frag = if self.sched.is_empty() {
            Frag { n: u16::MAX, pend: false }
        } else {
            let f = self.sched[self.next % self.sched.len()];
            self.next += 1;
            f
        };
        if frag.pend {
            self.log.pendings.set(self.log.pendings.get() + 1);
            YieldOnce(false).await;
        }
        let want = if self.sched.is_empty() { usize::MAX } else { (frag.n as usize).max(1) };
        let dst = buf.as_uninit();
        let n = want.min(self.data.len() - self.pos).min(dst.len());
        for (d, s) in dst[..n].iter_mut().zip(&self.data[self.pos..self.pos + n]) {
            d.write(*s);
        }
        unsafe { buf.advance_to(n) };
        self.pos += n;
        if n == 0 {
            self.log.eofs.set(self.log.eofs.get() + 1);
        } else {
            self.log.cuts.borrow_mut().push(self.pos);
        }
        BufResult(Ok(n), buf)
    }
}

#[derive(Default)]
pub struct WriteLog {
    /// bytes that reached the peer
    pub out: RefCell<Vec<u8>>,
    /// bytes accepted by `write` but still held back by a write-behind writer
    pub held: RefCell<Vec<u8>>,
    pub writes: Cell<usize>,
    pub flushes: Cell<usize>,
    pub shutdowns: Cell<usize>,
}

/// Recording writer.  `lazy` models a buffering writer (like `BufWriter<TcpStream>`): accepted
/// bytes reach the peer only on `flush`/`shutdown`.
pub struct RecWriter {
    sched: Vec<Frag>,
    next: usize,
    lazy: bool,
    pub log: Rc<WriteLog>,
}

impl RecWriter {
    pub fn new(sched: Vec<Frag>, lazy: bool) -> (Self, Rc<WriteLog>) {
        let log = Rc::new(WriteLog::default());
        (RecWriter { sched, next: 0, lazy, log: log.clone() }, log)
    }
}

impl AsyncWrite for RecWriter {
    async fn write<T: IoBuf>(&mut self, buf: T) -> BufResult<usize, T> {
        self.log.writes.set(self.log.writes.get() + 1);
        let (want, pend) = if self.sched.is_empty() {
            (usize::MAX, false)
        } else {
            let f = self.sched[self.next % self.sched.len()];
            self.next += 1;
            ((f.n as usize).max(1), f.pend)
        };
        if pend {
            YieldOnce(false).await;
        }
        let s = buf.as_init();
        let n = want.min(s.len());
        if self.lazy {
            self.log.held.borrow_mut().extend_from_slice(&s[..n]);
        } else {
            self.log.out.borrow_mut().extend_from_slice(&s[..n]);
        }
        BufResult(Ok(n), buf)
    }

    async fn flush(&mut self) -> io::Result<()> {
        self.log.flushes.set(self.log.flushes.get() + 1);
        let held = std::mem::take(&mut *self.log.held.borrow_mut());
        self.log.out.borrow_mut().extend_from_slice(&held);
        Ok(())
    }

    async fn shutdown(&mut self) -> io::Result<()> {
        self.log.shutdowns.set(self.log.shutdowns.get() + 1);
        let held = std::mem::take(&mut *self.log.held.borrow_mut());
        self.log.out.borrow_mut().extend_from_slice(&held);
        Ok(())
    }
}

/// Poll `fut` to completion with a no-op waker.  The mocks wake before every `Pending`, so a
/// future that stays pending for `max_polls` polls is stuck.
pub fn drive<F: Future>(fut: F, max_polls: usize) -> Option<F::Output> {
    let mut fut = std::pin::pin!(fut);
    let mut cx = Context::from_waker(Waker::noop());
    for _ in 0..max_polls {
        if let Poll::Ready(v) = fut.as_mut().poll(&mut cx) {
            return Some(v);
        }
    }
    None
}
