//! Extracts the real `AwakeFlag` (constants, struct, impl) *textually* from the working tree of
//! compio-driver, so that the flag protocol that runs under shuttle is the one in the tree — a
//! mutation of `wake` / `reset` / `set` there changes this harness.  If the markers are not found
//! the build fails loudly (the check then exits 2); a stale copy is never used.
use std::{env, fs, path::PathBuf};

const SRC: &str = "/repo/compio-driver/src/sys/driver/mod.rs";

fn main() {
    println!("cargo:rerun-if-changed={SRC}");
    println!("cargo:rerun-if-changed=build.rs");
    let text = fs::read_to_string(SRC).unwrap_or_else(|e| panic!("c03a build: cannot read {SRC}: {e}"));
    let start = text.find("const IDLE: u8").unwrap_or_else(|| panic!("c03a build: marker `const IDLE: u8` not found in {SRC}"));
    let imp = text[start..].find("impl AwakeFlag {").map(|i| i + start).unwrap_or_else(|| panic!("c03a build: marker `impl AwakeFlag {{` not found in {SRC}"));
    let end = text[imp..].find("\n}\n").map(|i| i + imp + 3).unwrap_or_else(|| panic!("c03a build: end of `impl AwakeFlag` not found in {SRC}"));
    let body = &text[start..end];
    for needle in ["const NOTIFIED: u8", "const AWAKE: u8", "struct AwakeFlag(AtomicU8)", "pub fn new()", "pub fn set(&self)", "pub fn reset(&self) -> bool", "pub fn wake(&self) -> bool"] {
        if !body.contains(needle) {
            panic!("c03a build: extracted AwakeFlag text lacks `{needle}` — the layout of {SRC} changed, adapt the extraction in {}", file!());
        }
    }
    if body.matches("impl ").count() != 1 || body.contains("mod ") {
        panic!("c03a build: extracted region of {SRC} contains more than the AwakeFlag items");
    }
    let out = PathBuf::from(env::var("OUT_DIR").unwrap()).join("awake_flag.rs");
    fs::write(&out, format!("// extracted from {SRC} by build.rs — do not edit\n{body}")).unwrap();
}
