//! Support for the libFuzzer targets in /verif/ws-io-fuzz: runs one decoded case through an
//! interpreter, honours /verif/known_findings.json, keeps the evidence counters in a static and
//! dumps them at process exit into $VERIF_FUZZ_STATS.
use std::{
    collections::{BTreeMap, HashSet},
    hash::{Hash, Hasher},
    sync::{Mutex, OnceLock},
};

use serde::Serialize;
use vcore::{
    serde_json::{self, json, Value},
    Outcome,
};

pub struct Target {
    pub id: &'static str,
    pub part: &'static str,
    pub rule: &'static str,
}

#[derive(Default)]
struct Stats {
    runs: u64,
    known: u64,
    nontrivial: HashSet<u64>,
    labels: BTreeMap<String, u64>,
    samples: Vec<Value>,
}

static STATS: OnceLock<Mutex<Stats>> = OnceLock::new();
static KNOWN: OnceLock<HashSet<String>> = OnceLock::new();
static META: OnceLock<&'static Target> = OnceLock::new();

extern "C" fn dump() {
    let Some(path) = std::env::var_os("VERIF_FUZZ_STATS") else { return };
    let (Some(st), Some(t)) = (STATS.get(), META.get()) else { return };
    let Ok(st) = st.lock() else { return };
    let j = json!({
        "property_id": t.id,
        "part": t.part,
        "evaluations": st.runs,
        "excluded_known": st.known,
        "distinct_nontrivial": st.nontrivial.len(),
        "hashes": [],
        "rule": t.rule,
        "samples": st.samples,
        "label_histogram": st.labels,
        "violations": 0,
    });
    let _ = std::fs::write(path, j.to_string());
}

fn load_known(id: &str) -> HashSet<String> {
    let dir = std::env::var("VERIF_DIR").unwrap_or_else(|_| "/verif".into());
    let Ok(text) = std::fs::read_to_string(std::path::Path::new(&dir).join("known_findings.json")) else { return HashSet::new() };
    let v: Value = serde_json::from_str(&text).unwrap_or(Value::Null);
    v["findings"]
        .as_array()
        .map(|a| {
            a.iter()
                .filter(|f| f["property"] == id && f["status"] == "known")
                .filter_map(|f| f["signature"].as_str().map(|s| s.to_string()))
                .collect()
        })
        .unwrap_or_default()
}

fn hash(s: &str) -> u64 {
    let mut h = std::collections::hash_map::DefaultHasher::new();
    s.hash(&mut h);
    h.finish()
}

/// Run one case.  Panics of the code under test are turned into violations with the engine's
/// `panic@file:message` signature, exactly as in the check binaries.
pub fn fuzz_one<C: Serialize>(target: &'static Target, part: &str, case: &C, run: impl FnOnce() -> Outcome) {
    let stats = STATS.get_or_init(|| {
        let _ = META.set(target);
        unsafe { libc::atexit(dump) };
        Mutex::new(Stats::default())
    });
    let known = KNOWN.get_or_init(|| load_known(target.id));
    let outcome = match vcore::guarded(run) {
        Ok(o) => o,
        Err((signature, detail)) => Outcome::Violation { signature, detail },
    };
    let mut st = stats.lock().unwrap();
    st.runs += 1;
    match outcome {
        Outcome::Pass { nontrivial, labels } => {
            *st.labels.entry(format!("part:{part}")).or_default() += 1;
            for l in labels {
                *st.labels.entry(l).or_default() += 1;
            }
            if nontrivial {
                let text = serde_json::to_string(case).unwrap_or_default();
                if st.nontrivial.insert(hash(&text)) && st.samples.len() < 3 {
                    st.samples.push(json!({"part": part, "case": serde_json::to_value(case).unwrap_or_default()}));
                }
            }
        }
        Outcome::Inconclusive { .. } => {}
        Outcome::Violation { signature, detail } => {
            if known.contains(&signature) {
                st.known += 1;
                *st.labels.entry(format!("known:{signature}")).or_default() += 1;
                return;
            }
            drop(st);
            eprintln!("{} violation ({part}): {signature}\n  {detail}\n  case: {}", target.id, serde_json::to_string(case).unwrap_or_default());
            std::process::abort();
        }
    }
}

/// `--from-bytes <artifact>` support of the check binaries: write the decoded case as a replay
/// file (`<verif>/replays/<id>/from-bytes-<hash>.json`) and return its path.
pub fn write_replay<C: Serialize>(verif_dir: &std::path::Path, id: &str, part: &str, case: &C) -> std::path::PathBuf {
    let dir = verif_dir.join("replays").join(id);
    let _ = std::fs::create_dir_all(&dir);
    let body = json!({"property": id, "part": part, "signature": "from-bytes", "detail": "decoded from a libFuzzer artifact", "case": case});
    let text = serde_json::to_string_pretty(&body).unwrap();
    let path = dir.join(format!("from-bytes-{part}-{:08x}.json", hash(&text) as u32));
    std::fs::write(&path, text).expect("write replay");
    path
}

/// The artifact named by `--from-bytes <file>` among the positional arguments, if any.
pub fn from_bytes_arg(rest: &[String]) -> Option<Vec<u8>> {
    let i = rest.iter().position(|a| a == "--from-bytes")?;
    let p = rest.get(i + 1)?;
    match std::fs::read(p) {
        Ok(b) => Some(b),
        Err(e) => {
            eprintln!("cannot read {p}: {e}");
            std::process::exit(2);
        }
    }
}
