use std::{os::unix::net::UnixStream, time::Duration};
use compio_io::AsyncRead;
use compio_runtime::{CancelToken, FutureExt, Runtime};
fn main() {
    let rt = Runtime::new().unwrap();
    rt.block_on(async {
        let (a, _b) = UnixStream::pair().unwrap();
        let a = compio_net::UnixStream::from_std(a).unwrap();
        let tok = CancelToken::new();
        let t2 = tok.clone();
        let h = compio_runtime::spawn(async move {
            let mut r: &compio_net::UnixStream = &a;
            let res = r.read(Vec::with_capacity(16)).with_cancel(t2).await;
            eprintln!("read finished: {:?}", res.0);
        });
        compio_runtime::time::sleep(Duration::from_millis(50)).await;
        eprintln!("cancelling");
        tok.cancel();
        let r = compio_runtime::time::timeout(Duration::from_secs(2), h).await;
        eprintln!("joined: {:?}", r.is_ok());
    });
}
