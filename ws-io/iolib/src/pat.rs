//! Common plain-data pieces of the C11/C12 case types: payload patterns, transfer scripts, error
//! kinds; their proptest strategies.
use std::io;

use serde::{Deserialize, Serialize};
use vcore::proptest::{collection::vec, prelude::*};

#[derive(Debug, Clone, Copy, Serialize, Deserialize, PartialEq, Eq)]
pub enum ErrKind {
    Other,
    BrokenPipe,
    ConnectionReset,
    TimedOut,
    WouldBlock,
    InvalidData,
    UnexpectedEof,
    WriteZero,
    Interrupted,
    OutOfMemory,
}

impl ErrKind {
    pub const INJECTABLE: [ErrKind; 8] = [
        ErrKind::Other,
        ErrKind::BrokenPipe,
        ErrKind::ConnectionReset,
        ErrKind::TimedOut,
        ErrKind::WouldBlock,
        ErrKind::InvalidData,
        ErrKind::UnexpectedEof,
        ErrKind::WriteZero,
    ];

    pub fn to_io(self) -> io::Error {
        io::Error::new(self.kind(), "injected by the verif mock")
    }

    pub fn kind(self) -> io::ErrorKind {
        match self {
            ErrKind::Other => io::ErrorKind::Other,
            ErrKind::BrokenPipe => io::ErrorKind::BrokenPipe,
            ErrKind::ConnectionReset => io::ErrorKind::ConnectionReset,
            ErrKind::TimedOut => io::ErrorKind::TimedOut,
            ErrKind::WouldBlock => io::ErrorKind::WouldBlock,
            ErrKind::InvalidData => io::ErrorKind::InvalidData,
            ErrKind::UnexpectedEof => io::ErrorKind::UnexpectedEof,
            ErrKind::WriteZero => io::ErrorKind::WriteZero,
            ErrKind::Interrupted => io::ErrorKind::Interrupted,
            ErrKind::OutOfMemory => io::ErrorKind::OutOfMemory,
        }
    }
}

/// What a result looked like, reduced to what the oracles compare.
#[derive(Debug, Clone, Copy, PartialEq, Eq)]
pub enum Res {
    Ok(usize),
    Err(io::ErrorKind),
}

impl Res {
    pub fn of(r: &io::Result<usize>) -> Res {
        match r {
            Ok(n) => Res::Ok(*n),
            Err(e) => Res::Err(e.kind()),
        }
    }

    pub fn of_unit(r: &io::Result<()>) -> Res {
        match r {
            Ok(()) => Res::Ok(0),
            Err(e) => Res::Err(e.kind()),
        }
    }
}

/// One entry of a transfer script; the mock consumes one entry per (non-empty) call.  After the
/// script ends a source delivers everything it has (then EOF), a sink accepts everything.
#[derive(Debug, Clone, Copy, Serialize, Deserialize, PartialEq, Eq)]
pub enum Xfer {
    /// transfer at most `n` bytes (n >= 1)
    Bytes(u16),
    Interrupted,
    Fail(ErrKind),
    /// `Ok(0)`
    Eof,
}

#[derive(Debug, Clone, Copy, Serialize, Deserialize, PartialEq, Eq)]
pub enum PayloadKind {
    /// bytes with period 251, most of them >= 0x80 somewhere (not valid UTF-8 in general)
    Binary,
    /// printable ASCII
    Ascii,
    /// valid UTF-8 with 1-4 byte characters (chunk boundaries split characters)
    Utf8,
}

#[derive(Debug, Clone, Copy, Serialize, Deserialize)]
pub struct Payload {
    pub len: u16,
    pub kind: PayloadKind,
}

impl Payload {
    /// The payload is a pure function of (len, kind): position coded, so that a lost, duplicated,
    /// reordered or misplaced byte changes the comparison, and shrinking cannot blur it.
    pub fn bytes(&self) -> Vec<u8> {
        let n = self.len as usize;
        match self.kind {
            PayloadKind::Binary => (0..n).map(|i| ((i * 7 + 13 + i / 251) % 251) as u8 + 3).collect(),
            PayloadKind::Ascii => (0..n).map(|i| 0x21 + ((i * 5 + i / 94) % 94) as u8).collect(),
            PayloadKind::Utf8 => {
                const TABLE: [char; 9] = ['a', 'é', '€', '😀', 'z', 'ß', '中', 'Q', '𝄞'];
                let mut s = String::new();
                let mut k = 0usize;
                while s.len() < n {
                    let c = TABLE[(k * 4 + k / 9) % TABLE.len()];
                    if s.len() + c.len_utf8() > n {
                        s.push((b'0' + (k % 10) as u8) as char);
                    } else {
                        s.push(c);
                    }
                    k += 1;
                }
                s.into_bytes()
            }
        }
    }
}

/// Pre-existing content of destination buffers: distinguishable from every payload pattern's
/// neighbourhood and valid ASCII (so it can prefill a `String`).
pub fn prefill(n: usize) -> Vec<u8> {
    (0..n).map(|i| b'A' + ((i * 3) % 26) as u8).collect()
}

/// Data written by write-side ops: position coded over the whole case (`base` = running index).
pub fn wdata(base: usize, n: usize) -> Vec<u8> {
    (base..base + n).map(|i| ((i * 11 + 5 + i / 241) % 241) as u8 + 7).collect()
}

// ------------------------------------------------------------------------------------------------
// strategies

pub fn errkind_strategy() -> impl Strategy<Value = ErrKind> + Clone {
    (0usize..ErrKind::INJECTABLE.len()).prop_map(|i| ErrKind::INJECTABLE[i])
}

pub fn xfer_strategy() -> impl Strategy<Value = Xfer> + Clone {
    prop_oneof![
        6 => (1u16..=9).prop_map(Xfer::Bytes),
        2 => (1u16..=64).prop_map(Xfer::Bytes),
        1 => Just(Xfer::Bytes(1)),
        2 => Just(Xfer::Interrupted),
        1 => errkind_strategy().prop_map(Xfer::Fail),
        1 => Just(Xfer::Eof),
    ]
}

/// Scripts with few faults (so that long transfers complete) and scripts with many.
pub fn script_strategy(max: usize) -> impl Strategy<Value = Vec<Xfer>> + Clone {
    prop_oneof![
        3 => vec(
            prop_oneof![8 => (1u16..=9).prop_map(Xfer::Bytes), 3 => (1u16..=64).prop_map(Xfer::Bytes), 2 => Just(Xfer::Interrupted)],
            0..=max
        ),
        3 => vec(xfer_strategy(), 0..=max),
    ]
}

pub fn payload_strategy(max: u16) -> impl Strategy<Value = Payload> + Clone {
    (
        prop_oneof![1 => Just(0u16), 1 => 1u16..=3, 6 => 0u16..=max, 1 => Just(max)],
        prop_oneof![3 => Just(PayloadKind::Binary), 1 => Just(PayloadKind::Ascii), 1 => Just(PayloadKind::Utf8)],
    )
        .prop_map(|(len, kind)| Payload { len, kind })
}
