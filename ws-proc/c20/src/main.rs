//! C20 — child processes: complete stdio and the real exit status (DESIGN.md §3 C20).
//!
//! The child is this binary in helper mode (`c20 --child <json spec>`): it echoes stdin to stdout or
//! produces N position-coded bytes on stdout, produces M position-coded bytes on stderr from a second
//! thread, closes its stdio, optionally sleeps, writes an "exiting" marker into a side file and then
//! exits with a code or kills itself with a signal.  The parent drives it through
//! `compio_process` on a compio runtime (io_uring or polling driver) with concurrent stdin writer /
//! stdout reader / stderr reader tasks and a generated order of `wait` versus draining.
mod child;

use std::{
    os::unix::process::ExitStatusExt,
    path::PathBuf,
    process::Stdio,
    sync::atomic::{AtomicU64, Ordering},
    time::{Duration, Instant},
};

use compio_buf::{BufResult, IoBuf, IoBufExt};
use compio_driver::{DriverType, ProactorBuilder};
use compio_io::{AsyncRead, AsyncReadManaged, AsyncWrite};
use compio_process::{ChildStderr, ChildStdin, ChildStdout, Command};
use compio_runtime::{ResumeUnwind, RuntimeBuilder};
use serde::{Deserialize, Serialize};
use vcore::{
    mono_range,
    proptest::prelude::*,
    Outcome, Part, Session,
};

pub const PIPE_CAP: usize = 65536;
pub const SIGNALS: [i32; 5] = [libc::SIGKILL, libc::SIGTERM, libc::SIGINT, libc::SIGUSR1, libc::SIGHUP];

/// position-coded content: byte `i` of stream `salt`
pub fn code(i: usize, salt: u8) -> u8 {
    (i.wrapping_mul(31) ^ (i >> 8).wrapping_mul(7) ^ (i >> 16)) as u8 ^ salt
}
pub const SALT_IN: u8 = 0x11;
pub const SALT_OUT: u8 = 0x5A;
pub const SALT_ERR: u8 = 0xC3;

// ------------------------------------------------------------------------------------------------
// case type

#[derive(Debug, Clone, Copy, Serialize, Deserialize, PartialEq, Eq)]
pub enum Drv {
    IoUring,
    Poll,
}

#[derive(Debug, Clone, Serialize, Deserialize)]
pub enum Stdout {
    /// the parent writes `len` position-coded bytes to the child's stdin in chunks of `wchunk`; the
    /// child echoes them
    Echo { len: Size, wchunk: u16 },
    /// the child produces `len` position-coded bytes
    Produce { len: Size },
}

/// payload size class, mapped into 0 ..= 4 x pipe capacity
#[derive(Debug, Clone, Copy, Serialize, Deserialize)]
pub enum Size {
    Zero,
    /// 1 ..= 4096
    Small(u16),
    /// pipe capacity - 64 ..= pipe capacity + 64
    AroundCap(u8),
    /// pipe capacity + 1 ..= 4 x pipe capacity
    Large(u16),
}

impl Size {
    pub fn bytes(self) -> usize {
        match self {
            Size::Zero => 0,
            Size::Small(r) => mono_range(r, 1, 4096),
            Size::AroundCap(r) => PIPE_CAP - 64 + (r as usize % 129),
            Size::Large(r) => mono_range(r, PIPE_CAP + 1, 4 * PIPE_CAP),
        }
    }
}

#[derive(Debug, Clone, Copy, Serialize, Deserialize)]
pub enum Exit {
    Code(u8),
    /// the helper kills itself with `SIGNALS[ix % 5]`
    Signal(u8),
    /// the helper sleeps after its output; the parent calls `Child::kill` once the output is drained
    ParentKill,
}

#[derive(Debug, Clone, Copy, Serialize, Deserialize, PartialEq, Eq)]
pub enum Order {
    /// `wait()` is spawned as a task before any stdio task exists
    WaitFirst,
    /// all stdio tasks are awaited, then `wait()`
    DrainFirst,
    /// `wait_with_output()` (stdout/stderr left in the `Child`), stdin written by a task
    WaitWithOutput,
}

#[derive(Debug, Clone, Copy, Serialize, Deserialize)]
pub enum Reader {
    /// `AsyncRead::read` into a fresh `Vec::with_capacity(chunk)`
    Plain { chunk: u16 },
    /// `AsyncReadManaged::read_managed(len)` from the runtime's buffer pool
    Managed { len: u16 },
}

#[derive(Debug, Clone, Serialize, Deserialize)]
pub struct ProcCase {
    pub driver: Drv,
    pub stdout: Stdout,
    pub stderr: Size,
    /// chunk size of the helper's own writes / reads
    pub child_chunk: u16,
    pub out_reader: Reader,
    pub err_reader: Reader,
    pub exit: Exit,
    pub order: Order,
    /// helper sleeps this long (ms) before touching its stdio
    pub start_delay: u8,
    /// helper sleeps this long (ms) after closing its stdio and before recording "exiting"
    pub exit_delay: u8,
    /// run exactly as written even if a known finding would exclude this shape
    #[serde(default)]
    pub strict: bool,
}

pub const SIG_BLOCKING_WRITE: &str = "C20/stdin/blocking-write-deadlock/poll";

/// Chunk sizes are raw draws mapped into `max(1, len/2048) ..= 65536` so that a stream needs at most
/// ~2048 operations (a 1-byte chunk for a 256 KiB stream would only measure syscall speed).
fn chunk(raw: u16, len: usize) -> usize {
    mono_range(raw, (len / 2048).max(1), 65536)
}

// ------------------------------------------------------------------------------------------------
// interpreter

static CASE_NO: AtomicU64 = AtomicU64::new(0);

fn side_dir() -> PathBuf {
    let d = std::env::temp_dir().join(format!("verif-c20-{}", std::process::id()));
    let _ = std::fs::create_dir_all(&d);
    d
}

async fn write_all_chunks(mut stdin: ChildStdin, len: usize, wchunk: usize) -> Result<usize, String> {
    let mut sent = 0;
    while sent < len {
        let n = wchunk.min(len - sent);
        let buf: Vec<u8> = (sent..sent + n).map(|i| code(i, SALT_IN)).collect();
        let mut off = 0;
        let mut buf = buf;
        while off < n {
            let BufResult(r, b) = stdin.write(buf.slice(off..)).await;
            buf = compio_buf::IntoInner::into_inner(b);
            match r {
                Ok(0) => return Err(format!("write returned 0 at offset {}", sent + off)),
                Ok(k) => off += k,
                Err(e) => return Err(format!("write failed at offset {}: {e}", sent + off)),
            }
        }
        sent += n;
    }
    drop(stdin); // EOF for the child
    Ok(sent)
}

async fn read_all<R: AsyncRead + AsyncReadManaged>(mut r: R, how: Reader, expect: usize) -> Result<(Vec<u8>, usize), String>
where
    R::Buffer: IoBuf,
{
    let mut all = Vec::new();
    let mut reads = 0;
    loop {
        reads += 1;
        match how {
            Reader::Plain { chunk: c } => {
                let cap = chunk(c, expect);
                let BufResult(res, buf) = r.read(Vec::with_capacity(cap)).await;
                match res {
                    Ok(0) => return Ok((all, reads)),
                    Ok(n) => {
                        if buf.len() != n {
                            return Err(format!("read returned {n} but the buffer holds {} bytes", buf.len()));
                        }
                        all.extend_from_slice(&buf);
                    }
                    Err(e) => return Err(format!("read failed after {} bytes: {e}", all.len())),
                }
            }
            Reader::Managed { len } => {
                let len = chunk(len, expect);
                match r.read_managed(len).await {
                    Ok(None) => return Ok((all, reads)),
                    Ok(Some(b)) => {
                        let s = b.as_init();
                        if s.is_empty() {
                            return Ok((all, reads));
                        }
                        all.extend_from_slice(s);
                    }
                    Err(e) => return Err(format!("read_managed failed after {} bytes: {e}", all.len())),
                }
            }
        }
        if all.len() > expect + 4096 {
            return Err(format!("{} bytes read, only {expect} were produced", all.len()));
        }
    }
}

/// What the guard thread concluded.
#[derive(Debug, Clone, PartialEq)]
enum Verdict {
    /// the runtime thread sits in a blocking write(2) on the child's stdin while the helper's main
    /// thread sits in a blocking write(2) on its stdout/stderr: a cycle, nobody can move
    BlockingWriteCycle(String),
    /// a helper thread sleeps in write(2) on its stdout/stderr pipe (pipe full) while the parent's
    /// runtime thread sleeps in its driver wait with nothing to do, and no byte moved for the whole
    /// observation window: the parent is not draining that pipe and nothing will ever wake either side
    NotDrained { stream: &'static str, detail: String },
    Watchdog,
}

/// set once a dead-lock verdict was reached in this process: later cases (shrinking steps of the
/// same failure) use the short observation window
static DEADLOCK_SEEN: std::sync::atomic::AtomicBool = std::sync::atomic::AtomicBool::new(false);

fn deadlock_window() -> Duration {
    let full = std::env::var("VERIF_C20_DEADLOCK_WINDOW").ok().and_then(|s| s.parse().ok()).unwrap_or(15);
    if DEADLOCK_SEEN.load(Ordering::Relaxed) {
        Duration::from_secs(full.min(4))
    } else {
        Duration::from_secs(full)
    }
}

/// (state letter, syscall nr, first argument) of one thread
fn thread_state(task_dir: &str) -> Option<(char, i64, i64)> {
    let (nr, a0) = syscall_of(&format!("{task_dir}/syscall"))?;
    let stat = std::fs::read_to_string(format!("{task_dir}/stat")).ok()?;
    // "pid (comm) S ..." — comm may contain spaces: take the field after the last ')'
    let st = stat.rsplit_once(')')?.1.trim_start().chars().next()?;
    Some((st, nr, a0))
}

/// (rchar, wchar) of a process or thread
fn io_counters(path: &str) -> Option<(u64, u64)> {
    let t = std::fs::read_to_string(path).ok()?;
    let get = |k: &str| t.lines().find_map(|l| l.strip_prefix(k)).and_then(|v| v.trim().parse::<u64>().ok());
    Some((get("rchar:")?, get("wchar:")?))
}

const DRIVER_WAITS: [i64; 6] = [libc::SYS_io_uring_enter, libc::SYS_epoll_wait, libc::SYS_epoll_pwait, 441 /* epoll_pwait2 */, libc::SYS_ppoll, libc::SYS_poll];

/// Which of the helper's fds 1/2 have a thread sleeping in write(2) on them, if the parent's runtime
/// thread sleeps in its driver wait at the same time; plus the byte counters of both sides.
#[allow(clippy::type_complexity)]
fn not_drained_state(tid: i64, pid: u32) -> Option<(Vec<i64>, (Option<(u64, u64)>, Option<(u64, u64)>), String)> {
    let (st, nr, _) = thread_state(&format!("/proc/self/task/{tid}"))?;
    if st != 'S' || !DRIVER_WAITS.contains(&nr) {
        return None;
    }
    let mut fds = vec![];
    for e in std::fs::read_dir(format!("/proc/{pid}/task")).ok()?.flatten() {
        if let Some((cst, cnr, a0)) = thread_state(&e.path().to_string_lossy()) {
            if cst == 'S' && cnr == libc::SYS_write && (a0 == 1 || a0 == 2) && !fds.contains(&a0) {
                // it must be a pipe
                let link = std::fs::read_link(format!("/proc/{pid}/fd/{a0}")).map(|l| l.to_string_lossy().into_owned()).unwrap_or_default();
                if link.starts_with("pipe:") {
                    fds.push(a0);
                }
            }
        }
    }
    if fds.is_empty() {
        return None;
    }
    fds.sort_unstable();
    let io = (io_counters(&format!("/proc/{pid}/io")), io_counters(&format!("/proc/self/task/{tid}/io")));
    Some((fds, io, format!("runtime thread {tid} sleeps in syscall {nr} (driver wait)")))
}

/// An OS thread outside the runtime: compio timers cannot fire while the runtime thread itself is
/// stuck inside a system call, so the watchdog and the deadlock diagnosis live here.  Joined before
/// the case returns.
struct Guard {
    stop: std::sync::Arc<std::sync::atomic::AtomicBool>,
    pid: std::sync::Arc<std::sync::atomic::AtomicU32>,
    stdin_fd: std::sync::Arc<std::sync::atomic::AtomicI32>,
    verdict: std::sync::Arc<std::sync::Mutex<Option<Verdict>>>,
    handle: Option<std::thread::JoinHandle<()>>,
}

fn syscall_of(path: &str) -> Option<(i64, i64)> {
    let t = std::fs::read_to_string(path).ok()?;
    let mut it = t.split_whitespace();
    let nr: i64 = it.next()?.parse().ok()?;
    let a0 = it.next().and_then(|a| i64::from_str_radix(a.trim_start_matches("0x"), 16).ok()).unwrap_or(-1);
    Some((nr, a0))
}

impl Guard {
    fn start(limit: Duration) -> Guard {
        use std::sync::{atomic::*, Arc, Mutex};
        let stop = Arc::new(AtomicBool::new(false));
        let pid = Arc::new(AtomicU32::new(0));
        let stdin_fd = Arc::new(AtomicI32::new(-1));
        let verdict = Arc::new(Mutex::new(None));
        let tid = unsafe { libc::syscall(libc::SYS_gettid) };
        let (s2, p2, f2, v2) = (stop.clone(), pid.clone(), stdin_fd.clone(), verdict.clone());
        let handle = std::thread::Builder::new()
            .name("c20-guard".into())
            .spawn(move || {
                let t0 = Instant::now();
                let mut streak = 0;
                let window = deadlock_window();
                #[allow(clippy::type_complexity)]
                let mut stable: Option<(Instant, Vec<i64>, (Option<(u64, u64)>, Option<(u64, u64)>), u32)> = None;
                while !s2.load(Ordering::Relaxed) {
                    std::thread::park_timeout(Duration::from_millis(100));
                    if s2.load(Ordering::Relaxed) {
                        return;
                    }
                    let pid = p2.load(Ordering::Relaxed);
                    if pid == 0 {
                        continue;
                    }
                    let fd = f2.load(Ordering::Relaxed) as i64;
                    let me = syscall_of(&format!("/proc/self/task/{tid}/syscall"));
                    let child = syscall_of(&format!("/proc/{pid}/syscall"));
                    let cycle = fd >= 0 && me == Some((libc::SYS_write, fd)) && matches!(child, Some((nr, 1 | 2)) if nr == libc::SYS_write);
                    streak = if cycle { streak + 1 } else { 0 };
                    // 30 consecutive samples over 3 s: both sides are parked in write(2), each waiting for the
                    // other to read (a state, not a duration: neither can leave it without outside help)
                    if streak >= 30 {
                        *v2.lock().unwrap() = Some(Verdict::BlockingWriteCycle(format!(
                            "runtime thread {tid} is blocked in write(2) on the child's stdin pipe (fd {fd}); helper {pid}'s main thread is blocked in write(2) on fd {}",
                            child.map(|c| c.1).unwrap_or(-1)
                        )));
                        unsafe { libc::kill(pid as i32, libc::SIGKILL) };
                        return;
                    }
                    // the general "pipe not drained" dead-lock: same state and not one byte moved on either
                    // side on every 100 ms sample of the whole window
                    match (not_drained_state(tid, pid), &mut stable) {
                        (Some((fds, io, _)), Some((_, f0, io0, n))) if *f0 == fds && *io0 == io => *n += 1,
                        (Some((fds, io, _)), st) => *st = Some((Instant::now(), fds, io, 1)),
                        (None, st) => *st = None,
                    }
                    if let Some((since, fds, io, n)) = &stable {
                        if since.elapsed() >= window && *n >= 20 {
                            let stream = match fds.as_slice() {
                                [1] => "stdout",
                                [2] => "stderr",
                                _ => "stdout+stderr",
                            };
                            // who holds the read end of that pipe?  (the helper's copy was closed by exec)
                            let mut holders = String::new();
                            for fd in fds {
                                let link = std::fs::read_link(format!("/proc/{pid}/fd/{fd}")).map(|l| l.to_string_lossy().into_owned()).unwrap_or_default();
                                let mine: Vec<String> = std::fs::read_dir("/proc/self/fd")
                                    .map(|d| d.flatten().filter(|e| std::fs::read_link(e.path()).map(|l| l.to_string_lossy() == link).unwrap_or(false)).map(|e| e.file_name().to_string_lossy().into_owned()).collect())
                                    .unwrap_or_default();
                                holders.push_str(&format!(" helper fd {fd} = {link}, read end held by the parent as fd {mine:?};"));
                            }
                            DEADLOCK_SEEN.store(true, Ordering::Relaxed);
                            *v2.lock().unwrap() = Some(Verdict::NotDrained {
                                stream,
                                detail: format!(
                                    "for {:.1}s ({n} samples) a helper thread slept in write(2) on a full pipe while the parent's runtime thread {tid} slept in its driver wait and no byte moved (helper rchar/wchar {:?}, runtime thread {:?});{holders} nobody reads that pipe, nothing can wake either side",
                                    since.elapsed().as_secs_f64(),
                                    io.0,
                                    io.1
                                ),
                            });
                            unsafe { libc::kill(pid as i32, libc::SIGKILL) };
                            return;
                        }
                    }
                    if t0.elapsed() > limit {
                        *v2.lock().unwrap() = Some(Verdict::Watchdog);
                        unsafe { libc::kill(pid as i32, libc::SIGKILL) };
                        return;
                    }
                }
            })
            .expect("guard thread");
        Guard { stop, pid, stdin_fd, verdict, handle: Some(handle) }
    }

    fn finish(mut self) -> Option<Verdict> {
        self.stop.store(true, Ordering::Relaxed);
        if let Some(h) = self.handle.take() {
            h.thread().unpark();
            let _ = h.join();
        }
        self.verdict.lock().unwrap().take()
    }
}

fn first_diff(got: &[u8], salt: u8) -> Option<usize> {
    got.iter().enumerate().position(|(i, b)| *b != code(i, salt))
}

struct Seen {
    status: std::process::ExitStatus,
    marker_at_wait: bool,
    out: Vec<u8>,
    err: Vec<u8>,
    written: Option<usize>,
    out_reads: usize,
}

fn watchdog() -> Duration {
    Duration::from_secs(std::env::var("VERIF_C20_WATCHDOG").ok().and_then(|s| s.parse().ok()).unwrap_or(90))
}

pub fn run_case(case: &ProcCase, known_blocking_write: bool) -> Outcome {
    let no = CASE_NO.fetch_add(1, Ordering::Relaxed);
    if std::env::var("VERIF_C20_TRACE").is_ok() {
        eprintln!("case {no}: {}", vcore::serde_json::to_string(case).unwrap());
    }
    let side = side_dir().join(format!("exit-{no}"));
    let _ = std::fs::remove_file(&side);
    let (out_len, in_len, mut wchunk) = match case.stdout {
        Stdout::Echo { len, wchunk } => (len.bytes(), Some(len.bytes()), chunk(wchunk, len.bytes())),
        Stdout::Produce { len } => (len.bytes(), None, 0),
    };
    let mut excluded = false;
    if known_blocking_write && !case.strict && case.driver == Drv::Poll && wchunk > 4096 {
        // known finding: on the polling driver a write to the (blocking) stdin pipe larger than the free
        // space parks the runtime thread; a write of at most PIPE_BUF never blocks once the pipe polls writable
        wchunk = 4096;
        excluded = true;
    }
    let err_len = case.stderr.bytes();
    let spec = child::Spec {
        echo: in_len.is_some(),
        out_len,
        err_len,
        chunk: chunk(case.child_chunk, out_len.max(err_len)),
        exit: match case.exit {
            Exit::Code(c) => child::ExitHow::Code(c as i32),
            Exit::Signal(ix) => child::ExitHow::Signal(SIGNALS[ix as usize % SIGNALS.len()]),
            Exit::ParentKill => child::ExitHow::Sleep,
        },
        start_delay_ms: (case.start_delay % 30) as u64,
        exit_delay_ms: (case.exit_delay % 40) as u64,
        side: side.to_string_lossy().into_owned(),
    };
    let mut pb = ProactorBuilder::new();
    pb.driver_type(match case.driver {
        Drv::IoUring => DriverType::IoUring,
        Drv::Poll => DriverType::Poll,
    })
    .capacity(64);
    let rt = match RuntimeBuilder::new().with_proactor(pb).build() {
        Ok(rt) => rt,
        Err(e) => return Outcome::inconclusive(format!("runtime build {:?}: {e}", case.driver)),
    };
    let exe = std::env::current_exe().expect("current_exe");
    let order = case.order;
    let exit = case.exit;
    let out_reader = case.out_reader;
    let err_reader = case.err_reader;
    let started = Instant::now();
    let guard = Guard::start(watchdog() + Duration::from_secs(10));
    let (g_pid, g_fd) = (guard.pid.clone(), guard.stdin_fd.clone());
    let pid_cell = std::rc::Rc::new(std::cell::Cell::new(0u32));
    let pid_cell2 = pid_cell.clone();
    let side2 = side.clone();
    let res: Result<Result<Seen, Outcome>, _> = rt.block_on(async move { compio_runtime::time::timeout(watchdog(), async move {
        let mut cmd = Command::new(exe);
        cmd.arg("--child").arg(vcore::serde_json::to_string(&spec).unwrap());
        if in_len.is_some() {
            cmd.stdin(Stdio::piped()).unwrap();
        } else {
            cmd.stdin(Stdio::null()).unwrap();
        }
        cmd.stdout(Stdio::piped()).unwrap().stderr(Stdio::piped()).unwrap();
        let mut child = match cmd.spawn() {
            Ok(c) => c,
            Err(e) => return Err(Outcome::inconclusive(format!("spawn: {e}"))),
        };
        pid_cell2.set(child.id());
        let stdin = child.stdin.take();
        if let Some(s) = &stdin {
            g_fd.store(std::os::fd::AsRawFd::as_raw_fd(s), Ordering::Relaxed);
        }
        g_pid.store(child.id(), Ordering::Relaxed);
        let side = side2;
        let wait_and_look = |child: compio_process::Child| {
            let side = side.clone();
            async move {
                let st = child.wait().await;
                // the moment `wait` returned: has the helper recorded that it is exiting?
                let marker = std::fs::read(&side).map(|b| b.starts_with(b"exiting")).unwrap_or(false);
                (st, marker)
            }
        };
        let writer = stdin.map(|s| compio_runtime::spawn(write_all_chunks(s, in_len.unwrap_or(0), wchunk)));
        let join_writer = |w: Option<compio_runtime::JoinHandle<Result<usize, String>>>| async move {
            match w {
                None => Ok(None),
                Some(h) => match h.await.resume_unwind() {
                    Some(Ok(n)) => Ok(Some(n)),
                    Some(Err(e)) => Err(Outcome::violation("C20/stdin/write-error", e)),
                    None => Err(Outcome::inconclusive("writer task cancelled")),
                },
            }
        };
        let viol = |stream: &str, e: String| Outcome::violation(format!("C20/{stream}/read-error"), e);
        match order {
            Order::WaitWithOutput => {
                if matches!(exit, Exit::ParentKill) {
                    unreachable!("generator never combines ParentKill with WaitWithOutput");
                }
                let side = side.clone();
                let out = child.wait_with_output().await;
                let marker = std::fs::read(&side).map(|b| b.starts_with(b"exiting")).unwrap_or(false);
                let written = join_writer(writer).await?;
                match out {
                    Ok(o) => Ok(Seen { status: o.status, marker_at_wait: marker, out: o.stdout, err: o.stderr, written, out_reads: 0 }),
                    Err(e) => Err(Outcome::violation("C20/wait_with_output/error", format!("{e}"))),
                }
            }
            Order::WaitFirst | Order::DrainFirst => {
                let stdout: ChildStdout = child.stdout.take().expect("piped stdout");
                let stderr: ChildStderr = child.stderr.take().expect("piped stderr");
                if matches!(exit, Exit::ParentKill) {
                    // drain, then kill, then wait
                    let ro = compio_runtime::spawn(read_all(stdout, out_reader, out_len));
                    let re = compio_runtime::spawn(read_all(stderr, err_reader, err_len));
                    // the helper keeps its stdio open while it sleeps: read exactly the produced bytes
                    // is impossible with read-to-EOF, so the helper closes stdio before sleeping
                    let (out, out_reads) = ro.await.resume_unwind().ok_or_else(|| Outcome::inconclusive("task cancelled"))?.map_err(|e| viol("stdout", e))?;
                    let (err, _) = re.await.resume_unwind().ok_or_else(|| Outcome::inconclusive("task cancelled"))?.map_err(|e| viol("stderr", e))?;
                    let written = join_writer(writer).await?;
                    if let Err(e) = child.kill() {
                        return Err(Outcome::violation("C20/kill/error", format!("{e}")));
                    }
                    let st = child.wait().await;
                    let status = st.map_err(|e| Outcome::violation("C20/wait/error", format!("{e}")))?;
                    return Ok(Seen { status, marker_at_wait: true, out, err, written, out_reads });
                }
                let (status, marker, out, err, written, out_reads);
                if order == Order::WaitFirst {
                    let w = compio_runtime::spawn(wait_and_look(child));
                    let ro = compio_runtime::spawn(read_all(stdout, out_reader, out_len));
                    let re = compio_runtime::spawn(read_all(stderr, err_reader, err_len));
                    let (st, m) = w.await.resume_unwind().ok_or_else(|| Outcome::inconclusive("task cancelled"))?;
                    status = st.map_err(|e| Outcome::violation("C20/wait/error", format!("{e}")))?;
                    marker = m;
                    (out, out_reads) = ro.await.resume_unwind().ok_or_else(|| Outcome::inconclusive("task cancelled"))?.map_err(|e| viol("stdout", e))?;
                    (err, _) = re.await.resume_unwind().ok_or_else(|| Outcome::inconclusive("task cancelled"))?.map_err(|e| viol("stderr", e))?;
                    written = join_writer(writer).await?;
                } else {
                    let ro = compio_runtime::spawn(read_all(stdout, out_reader, out_len));
                    let re = compio_runtime::spawn(read_all(stderr, err_reader, err_len));
                    (out, out_reads) = ro.await.resume_unwind().ok_or_else(|| Outcome::inconclusive("task cancelled"))?.map_err(|e| viol("stdout", e))?;
                    (err, _) = re.await.resume_unwind().ok_or_else(|| Outcome::inconclusive("task cancelled"))?.map_err(|e| viol("stderr", e))?;
                    written = join_writer(writer).await?;
                    let (st, m) = wait_and_look(child).await;
                    status = st.map_err(|e| Outcome::violation("C20/wait/error", format!("{e}")))?;
                    marker = m;
                }
                Ok(Seen { status, marker_at_wait: marker, out, err, written, out_reads })
            }
        }
    }).await });
    let pid = pid_cell.get();
    let verdict = guard.finish();
    if !matches!(res, Ok(Ok(_))) && pid != 0 {
        // unblock anything that still waits for the helper before the runtime is torn down
        unsafe { libc::kill(pid as i32, libc::SIGKILL) };
    }
    drop(rt);
    let cleanup = |pid: u32| {
        if pid != 0 {
            unsafe {
                libc::kill(pid as i32, libc::SIGKILL);
                let mut st = 0;
                libc::waitpid(pid as i32, &mut st, 0);
            }
        }
    };
    if let Some(v) = verdict {
        drop(res);
        cleanup(pid);
        let _ = std::fs::remove_file(&side);
        return match v {
            Verdict::BlockingWriteCycle(d) => Outcome::violation(
                SIG_BLOCKING_WRITE,
                format!("{d}; driver {:?}, stdin payload {:?} bytes in writes of {wchunk}, stdout {out_len}, stderr {err_len}: nobody can make progress", case.driver, in_len),
            ),
            Verdict::NotDrained { stream, detail } => Outcome::violation(
                format!("C20/stdio/not-drained-deadlock/{stream}/{}", if case.driver == Drv::Poll { "poll" } else { "io_uring" }),
                format!("{detail}; order {:?}, stdout {out_len} bytes, stderr {err_len} bytes, stdin {:?}", case.order, in_len),
            ),
            Verdict::Watchdog => Outcome::inconclusive(format!("external watchdog {}s", watchdog().as_secs() + 10)),
        };
    }
    let seen = match res {
        Err(_elapsed) => {
            cleanup(pid);
            let _ = std::fs::remove_file(&side);
            if std::env::var("VERIF_C20_TRACE").is_ok() {
                eprintln!("watchdog: {}", vcore::serde_json::to_string(case).unwrap());
            }
            return Outcome::inconclusive(format!("watchdog {}s", watchdog().as_secs()));
        }
        Ok(Err(o)) => {
            cleanup(pid);
            let _ = std::fs::remove_file(&side);
            return o;
        }
        Ok(Ok(s)) => s,
    };
    let marker_now = std::fs::read(&side).map(|b| b.starts_with(b"exiting")).unwrap_or(false);
    let _ = std::fs::remove_file(&side);
    // ---- oracle
    // the child must have been reaped by wait(): waitpid now has nothing to report
    let reaped = unsafe {
        let mut st = 0;
        let r = libc::waitpid(pid as i32, &mut st, libc::WNOHANG);
        r == -1 && std::io::Error::last_os_error().raw_os_error() == Some(libc::ECHILD)
    };
    if !reaped {
        cleanup(pid);
        return Outcome::violation("C20/wait/child-not-reaped", format!("after wait() returned {:?}, waitpid({pid}) still finds the child", seen.status));
    }
    let kind = |o: Order| match o {
        Order::WaitFirst => "wait-first",
        Order::DrainFirst => "drain-first",
        Order::WaitWithOutput => "wait_with_output",
    };
    if !matches!(case.exit, Exit::ParentKill) && !seen.marker_at_wait {
        return Outcome::violation(
            format!("C20/wait/returned-before-exit/{}", kind(case.order)),
            format!("wait returned {:?} but the helper had not yet recorded \"exiting\" (marker present later: {marker_now}); exit delay {} ms", seen.status, case.exit_delay % 40),
        );
    }
    let (want_code, want_sig) = match case.exit {
        Exit::Code(c) => (Some(c as i32), None),
        Exit::Signal(ix) => (None, Some(SIGNALS[ix as usize % SIGNALS.len()])),
        Exit::ParentKill => (None, Some(libc::SIGKILL)),
    };
    if seen.status.code() != want_code || seen.status.signal() != want_sig {
        return Outcome::violation(
            format!("C20/wait/wrong-status/{}", kind(case.order)),
            format!("status code {:?} signal {:?}, the helper ended with code {want_code:?} signal {want_sig:?}", seen.status.code(), seen.status.signal()),
        );
    }
    if let Some(n) = in_len {
        if seen.written != Some(n) {
            return Outcome::violation("C20/stdin/short", format!("{:?} of {n} bytes written", seen.written));
        }
    }
    for (name, got, want_len, salt) in [("stdout", &seen.out, out_len, if in_len.is_some() { SALT_IN } else { SALT_OUT }), ("stderr", &seen.err, err_len, SALT_ERR)] {
        if let Some(at) = first_diff(got, salt) {
            if at < want_len {
                return Outcome::violation(
                    format!("C20/{name}/content/{}", kind(case.order)),
                    format!("{name} byte {at} is {:#04x}, expected {:#04x} ({} of {want_len} bytes read): reordered, duplicated or corrupted", got[at], code(at, salt), got.len()),
                );
            }
        }
        if got.len() != want_len {
            return Outcome::violation(
                format!("C20/{name}/length/{}", kind(case.order)),
                format!("{name}: {} bytes read, the helper {} {want_len}", got.len(), if name == "stdout" && in_len.is_some() { "echoed" } else { "produced" }),
            );
        }
    }
    // ---- classification
    let mut labels = vec![
        format!("driver:{:?}", case.driver),
        format!("order:{}", kind(case.order)),
        match case.exit {
            Exit::Code(_) => "exit:code".to_string(),
            Exit::Signal(ix) => format!("exit:signal{}", SIGNALS[ix as usize % SIGNALS.len()]),
            Exit::ParentKill => "exit:parent-kill".into(),
        },
    ];
    if excluded {
        labels.push("excluded-known:poll-stdin-write>PIPE_BUF".into());
    }
    let big_out = out_len > PIPE_CAP;
    let big_err = err_len > PIPE_CAP;
    let both_dirs = in_len.map(|n| n > PIPE_CAP).unwrap_or(false);
    if both_dirs {
        labels.push("echo>pipe-capacity(back-pressure both ways)".into());
    }
    if big_out && in_len.is_none() {
        labels.push("produce>pipe-capacity".into());
    }
    if big_err {
        labels.push("stderr>pipe-capacity".into());
    }
    if big_out && big_err {
        labels.push("stdout+stderr>pipe-capacity".into());
    }
    if case.order == Order::WaitWithOutput && big_err {
        labels.push("wait_with_output+stderr>pipe-capacity".into());
    }
    if case.order == Order::WaitWithOutput && big_out {
        labels.push("wait_with_output+stdout>pipe-capacity".into());
    }
    if matches!(case.out_reader, Reader::Managed { .. }) && case.order != Order::WaitWithOutput {
        labels.push("stdout:read_managed".into());
    }
    if out_len == 0 && err_len == 0 {
        labels.push("no-output".into());
    }
    if seen.out_reads > 64 {
        labels.push("stdout:>64 reads".into());
    }
    let wait_before_drain = case.order != Order::DrainFirst && (out_len > 0 || err_len > 0);
    if wait_before_drain {
        labels.push("wait-before-drain".into());
    }
    let ms = started.elapsed().as_millis();
    labels.push(format!("time:{}", if ms < 50 { "<50ms" } else if ms < 200 { "<200ms" } else if ms < 1000 { "<1s" } else { ">=1s" }));
    let nontrivial = both_dirs || (big_out && big_err) || wait_before_drain;
    Outcome::pass_owned(nontrivial, labels)
}

// ------------------------------------------------------------------------------------------------
// generator

fn size() -> impl Strategy<Value = Size> + Clone {
    prop_oneof![
        1 => Just(Size::Zero),
        3 => any::<u16>().prop_map(Size::Small),
        2 => any::<u8>().prop_map(Size::AroundCap),
        4 => any::<u16>().prop_map(Size::Large),
    ]
}

fn raw_chunk() -> impl Strategy<Value = u16> + Clone {
    // mono_range maps 0 to the smallest legal chunk, 65535 to 64 KiB
    prop_oneof![2 => Just(0u16), 2 => 0u16..=64, 3 => 64u16..=4096, 2 => any::<u16>(), 1 => Just(u16::MAX)]
}

fn reader() -> impl Strategy<Value = Reader> + Clone {
    prop_oneof![4 => raw_chunk().prop_map(|chunk| Reader::Plain { chunk }), 1 => raw_chunk().prop_map(|len| Reader::Managed { len })]
}

fn case_strategy() -> impl Strategy<Value = ProcCase> + Clone {
    (
        prop_oneof![Just(Drv::IoUring), Just(Drv::Poll)],
        prop_oneof![
            3 => (size(), raw_chunk()).prop_map(|(len, wchunk)| Stdout::Echo { len, wchunk }),
            2 => size().prop_map(|len| Stdout::Produce { len }),
        ],
        size(),
        raw_chunk(),
        reader(),
        reader(),
        prop_oneof![4 => any::<u8>().prop_map(Exit::Code), 1 => Just(Exit::Code(0)), 3 => (0u8..5).prop_map(Exit::Signal), 1 => Just(Exit::ParentKill)],
        prop_oneof![3 => Just(Order::WaitFirst), 2 => Just(Order::DrainFirst), 2 => Just(Order::WaitWithOutput)],
        prop_oneof![3 => Just(0u8), 1 => 0u8..30],
        prop_oneof![2 => Just(0u8), 2 => 0u8..40],
    )
        .prop_map(|(driver, stdout, stderr, child_chunk, out_reader, err_reader, exit, order, start_delay, exit_delay)| {
            // Child::kill needs the Child, which wait_with_output / a spawned wait() consume: the
            // parent-kill flavour always drains first
            let order = if matches!(exit, Exit::ParentKill) { Order::DrainFirst } else { order };
            ProcCase { driver, stdout, stderr, child_chunk, out_reader, err_reader, exit, order, start_delay, exit_delay, strict: false }
        })
}

fn main() {
    let args: Vec<String> = std::env::args().collect();
    if args.get(1).map(|s| s.as_str()) == Some("--child") {
        child::main(&args[2]);
    }
    let mut s = Session::new();
    let mut p = Part::new(
        "C20",
        "stdio-exit",
        "case = driver {io_uring, polling} x stdout {echo of a stdin payload written by the parent in chunks | produced by the helper} x stderr payload; payload sizes in {0, 1..4096, \
         pipe capacity +-64, pipe capacity+1 .. 4 x pipe capacity (256 KiB)}; chunk sizes of parent writes, parent reads (AsyncRead into Vec::with_capacity(chunk) or read_managed(len)) and \
         of the helper, each from max(1, len/2048) to 64 KiB; exit {code 0..255 | self-kill with SIGKILL/TERM/INT/USR1/HUP | Child::kill by the parent}; order {wait() spawned before the \
         stdio tasks | stdio drained first | wait_with_output()}; helper start delay 0..30 ms and a delay 0..40 ms between closing its stdio and recording \"exiting\". stdin writer, stdout \
         reader, stderr reader and wait run as concurrent tasks on one compio runtime. Non-trivial = echo payload > pipe capacity (both directions back-pressure), or stdout and stderr both \
         > pipe capacity, or wait issued before draining with output present.",
    );
    p.quick_cases = 480;
    p.thorough_cases = 12_000;
    p.threads = 1;
    p.replay_repeats = 5;
    p.max_shrink_iters = 40;
    p.assumptions = vec![
        "Linux default pipe capacity 64 KiB",
        "stdin/stdout/stderr handles are taken out of the Child before wait() (its documented use); wait_with_output keeps stdout/stderr inside",
        "the pidfd wait path (feature linux_pidfd, nightly only) is not compiled into this harness",
        "a watchdog hit (90 s) is inconclusive, never a violation",
    ];
    p.regressions = vec![
        (
            "echo-4x-capacity-wait-first",
            ProcCase {
                driver: Drv::IoUring,
                stdout: Stdout::Echo { len: Size::Large(u16::MAX), wchunk: 20000 },
                stderr: Size::Large(30000),
                child_chunk: 3000,
                out_reader: Reader::Plain { chunk: 9000 },
                err_reader: Reader::Plain { chunk: 100 },
                exit: Exit::Code(2),
                order: Order::WaitFirst,
                start_delay: 0,
                exit_delay: 25,
                strict: true,
            },
        ),
        (
            "echo-4x-capacity-poll-wait_with_output",
            ProcCase {
                driver: Drv::Poll,
                stdout: Stdout::Echo { len: Size::Large(u16::MAX), wchunk: 3000 },
                stderr: Size::Large(u16::MAX),
                child_chunk: u16::MAX,
                out_reader: Reader::Plain { chunk: 0 },
                err_reader: Reader::Plain { chunk: 0 },
                exit: Exit::Signal(1),
                order: Order::WaitWithOutput,
                start_delay: 5,
                exit_delay: 20,
                strict: true,
            },
        ),
        (
            // reproduction of the known finding C20/stdin/blocking-write-deadlock/poll
            "poll-stdin-write-larger-than-pipe-space",
            ProcCase {
                driver: Drv::Poll,
                stdout: Stdout::Echo { len: Size::Large(21584), wchunk: 56549 },
                stderr: Size::Large(21406),
                child_chunk: 169,
                out_reader: Reader::Plain { chunk: 0 },
                err_reader: Reader::Plain { chunk: 631 },
                exit: Exit::Code(190),
                order: Order::WaitWithOutput,
                start_delay: 0,
                exit_delay: 0,
                strict: true,
            },
        ),
        (
            "wait_with_output-stderr-3x-capacity-small-stdout",
            ProcCase {
                driver: Drv::IoUring,
                stdout: Stdout::Produce { len: Size::Small(2000) },
                stderr: Size::Large(40000),
                child_chunk: 9000,
                out_reader: Reader::Plain { chunk: 0 },
                err_reader: Reader::Plain { chunk: 0 },
                exit: Exit::Code(7),
                order: Order::WaitWithOutput,
                start_delay: 0,
                exit_delay: 3,
                strict: true,
            },
        ),
        (
            "unit-exit-code-2",
            ProcCase {
                driver: Drv::Poll,
                stdout: Stdout::Produce { len: Size::Small(100) },
                stderr: Size::Zero,
                child_chunk: 0,
                out_reader: Reader::Plain { chunk: 0 },
                err_reader: Reader::Plain { chunk: 0 },
                exit: Exit::Code(2),
                order: Order::DrainFirst,
                start_delay: 0,
                exit_delay: 39,
                strict: true,
            },
        ),
        (
            "parent-kill-after-drain",
            ProcCase {
                driver: Drv::IoUring,
                stdout: Stdout::Produce { len: Size::AroundCap(70) },
                stderr: Size::Small(9),
                child_chunk: 500,
                out_reader: Reader::Managed { len: 4000 },
                err_reader: Reader::Plain { chunk: 0 },
                exit: Exit::ParentKill,
                order: Order::DrainFirst,
                start_delay: 0,
                exit_delay: 0,
                strict: true,
            },
        ),
    ];
    let known = s.known_signatures("C20").contains(SIG_BLOCKING_WRITE);
    s.run_part(p, case_strategy(), move |c| run_case(c, known));
    let _ = std::fs::remove_dir_all(side_dir());
    s.finish();
}
