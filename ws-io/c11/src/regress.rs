//! Rules (verbatim into the evidence) and fixed regression cases of C11.
use iolib::{c11_buf::*, c11_loops::*, c11_mem::*, pat::*};

pub const RULE_LOOPS: &str = "case = helper (read_exact(_at), read_to_end(_at), read_to_string(_at), read_vectored_exact(_at) over a default or natively \
vectored source, one default read_vectored(_at), append, take+read_to_end, take+read_exact, write_all(_at), write_vectored_all(_at), one default \
write_vectored(_at), copy_with_size) x position-coded payload (0-300 bytes; binary, ASCII or multi-byte UTF-8) x transfer script of 0-14 entries for \
the mock source/sink (per call: at most n bytes | Interrupted | other error kind | Ok(0); after the script: everything, then EOF) x buffer shape (Vec \
with 0-24 pre-existing bytes and 0-40 spare, [u8;24], ArrayVec, vec.slice(a..b) / (a..); vectored members of capacity 0-12 pre-filled in the canonical \
order; positions 0..len+6 and u64::MAX). The oracle judges the helper's result and buffers from the trace the mock recorded. Non-trivial = the trace \
has >= 2 transfer calls with different sizes, or an Interrupted / other injected error occurred (for the single-call defaults also: an empty member was \
skipped); distinct = distinct serialised case.";

pub const RULE_BUFFERED: &str = "case = BufReader | Take<BufReader> | BufWriter | split()/unsplit() halves, capacity in {0,1,2,3,4,7,16,64} x payload x \
transfer script (as in part loops) x 1-12 ops (reader: fill_buf, consume(k <= shown), read(n), read_vectored, read_exact(n), read_to_end; writer: \
write(n), write_vectored, write_all(n), flush, shutdown; halves: read, read_exact, write, write_all, flush). Model: bytes handed out must be the next \
bytes of the source stream, an EOF claim needs the source's own Ok(0) (or an exhausted source / the take limit), errors must be ones the mock produced; \
the sink must hold a prefix of the acknowledged bytes after every op and exactly them after a successful flush and after the final flush. \
Non-trivial = >= 2 ops executed and (reader) the source trace has two different transfer sizes or an injected error, (writer) at least one write was \
acknowledged; distinct = distinct serialised case.";

pub const RULE_MEM: &str = "case = in-memory target (&[u8] reader, [u8;16], Box<[u8]>, Vec<u8> positional, Vec<u8> appending incl. zerocopy, \
Cursor<Vec<u8>>, Cursor<[u8;16]>, &mut [u8] writer) with 0-40 initial bytes x 1-8 ops drawn from the target's table (read, read_vectored, read_exact, \
read_to_end, their _at forms, write, write_vectored, write_all, write_vectored_all, their _at forms, zerocopy writes, set_position) with sizes 0-40, \
member lists of 0-4 and positions 0..len+6; every result, the content and the cursor are compared with a reference model written from the rustdoc \
(slices clamp, Vec extends and zero-fills like a file). Non-trivial = >= 2 ops executed; distinct = distinct serialised case.";

pub fn assumptions() -> Vec<&'static str> {
    vec![
        "mock sources record a read with advance_to(n) at the beginning of the offered window, like the drivers and the in-memory implementations do",
        "vectored read destinations start in the canonical filled-in-order state (same assumption as C10/vectored)",
        "after a failed read the contents of the window are unspecified (rustdoc): only bytes outside the window are compared then",
        "consume(k) is only called with k <= the length of the last fill_buf result",
        "a zero-length write beyond the end of a Vec/Cursor<Vec> is skipped (whether it extends the content is not documented)",
    ]
}

fn pl(len: u16, kind: PayloadKind) -> Payload {
    Payload { len, kind }
}

pub fn loops() -> Vec<(&'static str, HelperCase)> {
    use Xfer::*;
    let p0 = Pos { raw: 0, far: false };
    vec![
        // --- known finding: read_to_end family overwrites pre-existing content ("hello56789")
        ("known-read_to_end-prefill", HelperCase { helper: Helper::ReadToEnd { prefill: 10, spare: 0 }, payload: pl(5, PayloadKind::Ascii), script: vec![] }),
        ("known-read_to_end_at-prefill", HelperCase { helper: Helper::ReadToEndAt { prefill: 10, spare: 4, pos: p0 }, payload: pl(5, PayloadKind::Ascii), script: vec![Bytes(2)] }),
        ("known-read_to_string-prefill", HelperCase { helper: Helper::ReadToString { prefill: 3, spare: 0 }, payload: pl(7, PayloadKind::Utf8), script: vec![Bytes(1), Bytes(3)] }),
        ("known-read_to_string_at-prefill", HelperCase { helper: Helper::ReadToStringAt { prefill: 3, spare: 1, pos: p0 }, payload: pl(4, PayloadKind::Ascii), script: vec![] }),
        // (found by the campaign: the old byte 'A' equals the first delivered byte; must still classify as the known shape)
        ("known-read_to_end_at-prefill-coincides", HelperCase { helper: Helper::ReadToEndAt { prefill: 1, spare: 0, pos: Pos { raw: 8049, far: false } }, payload: pl(50, PayloadKind::Binary), script: vec![] }),
        // --- known finding: copy with a zero-sized buffer reports success without copying
        ("known-copy-bufsize0", HelperCase { helper: Helper::Copy { buf_size: 0, sink_script: vec![], flush_err: None }, payload: pl(9, PayloadKind::Binary), script: vec![] }),
        // --- golden cases
        (
            "read_exact-chunked-interrupted",
            HelperCase {
                helper: Helper::ReadExact { dst: DstShape { prefill: 4, spare: 16, kind: DstKind::VecSlice { a: 32768, b: None } } },
                payload: pl(40, PayloadKind::Binary),
                script: vec![Bytes(1), Interrupted, Bytes(5), Bytes(2), Interrupted, Interrupted, Bytes(64)],
            },
        ),
        (
            "read_exact_at-eof-midway",
            HelperCase {
                helper: Helper::ReadExactAt { dst: DstShape { prefill: 0, spare: 30, kind: DstKind::Vec }, pos: Pos { raw: 20000, far: false } },
                payload: pl(20, PayloadKind::Binary),
                script: vec![Bytes(3), Bytes(4)],
            },
        ),
        (
            "read_vectored_exact-default-mixed-members",
            HelperCase {
                helper: Helper::ReadVecExact { members: Members { caps: vec![0, 3, 0, 5, 1], filled: 0 }, native: false },
                payload: pl(30, PayloadKind::Binary),
                script: vec![Bytes(2), Interrupted, Bytes(9), Bytes(1)],
            },
        ),
        (
            "read_vectored_exact_at-native",
            HelperCase {
                helper: Helper::ReadVecExactAt { members: Members { caps: vec![4, 4, 4], filled: 30000 }, native: true, pos: Pos { raw: 8000, far: false } },
                payload: pl(60, PayloadKind::Binary),
                script: vec![Bytes(5), Bytes(1), Interrupted, Bytes(3)],
            },
        ),
        (
            "write_all-partial-interrupted",
            HelperCase { helper: Helper::WriteAll { src: SrcShape::Slice { a: 10000, b: None } }, payload: pl(50, PayloadKind::Binary), script: vec![Bytes(3), Interrupted, Bytes(1), Bytes(20)] },
        ),
        ("write_all_at-write-zero", HelperCase { helper: Helper::WriteAllAt { src: SrcShape::Vec, pos: 7 }, payload: pl(12, PayloadKind::Binary), script: vec![Bytes(5), Eof] }),
        (
            "write_vectored_all_at-default",
            HelperCase { helper: Helper::WriteVecAllAt { cuts: vec![0, 3, 0, 4], native: false, pos: 2 }, payload: pl(20, PayloadKind::Binary), script: vec![Bytes(2), Bytes(1), Interrupted, Bytes(2)] },
        ),
        (
            "copy-shrinking-chunks",
            HelperCase {
                helper: Helper::Copy { buf_size: 5, sink_script: vec![Bytes(3), Interrupted, Bytes(1)], flush_err: None },
                payload: pl(40, PayloadKind::Binary),
                script: vec![Bytes(8), Bytes(3), Interrupted, Bytes(1), Bytes(6)],
            },
        ),
        ("take-limit-inside-chunk", HelperCase { helper: Helper::TakeToEnd { limit: 7 }, payload: pl(30, PayloadKind::Binary), script: vec![Bytes(3), Bytes(9)] }),
        (
            "read_to_string-split-multibyte",
            HelperCase { helper: Helper::ReadToString { prefill: 0, spare: 1 }, payload: pl(33, PayloadKind::Utf8), script: vec![Bytes(1), Bytes(1), Bytes(2), Interrupted, Bytes(1), Bytes(3)] },
        ),
    ]
}

pub fn buffered() -> Vec<(&'static str, BufCase)> {
    use Xfer::*;
    vec![
        // --- known finding: BufWriter reports the eager flush's error after buffering; write_all retries => duplicate
        (
            "known-bufwriter-interrupted-write_all-duplicates",
            BufCase { kind: BufKind::Writer, cap: 4, payload: Payload { len: 0, kind: PayloadKind::Binary }, script: vec![Interrupted], ops: vec![BOp::WriteAll(3), BOp::Flush], errs_during_write: true, flush_err: None },
        ),
        // --- known finding: zero-capacity BufReader reports EOF at once
        (
            "known-bufreader-cap0",
            BufCase { kind: BufKind::Reader, cap: 0, payload: Payload { len: 5, kind: PayloadKind::Binary }, script: vec![], ops: vec![BOp::Read(4)], errs_during_write: false, flush_err: None },
        ),
        (
            "known-take-bufreader-cap0",
            BufCase { kind: BufKind::ReaderTake { limit: 9 }, cap: 0, payload: Payload { len: 5, kind: PayloadKind::Binary }, script: vec![], ops: vec![BOp::FillBuf], errs_during_write: false, flush_err: None },
        ),
        // --- golden cases
        (
            "bufreader-small-reads-across-refills",
            BufCase {
                kind: BufKind::Reader,
                cap: 3,
                payload: Payload { len: 40, kind: PayloadKind::Binary },
                script: vec![Bytes(2), Interrupted, Bytes(3), Bytes(1), Fail(ErrKind::TimedOut), Bytes(9)],
                ops: vec![BOp::Read(1), BOp::FillBuf, BOp::Consume(20000), BOp::Read(5), BOp::FillBuf, BOp::Read(2), BOp::ReadVec(vec![1, 0, 2]), BOp::ReadExact(6), BOp::ReadToEnd],
                errs_during_write: false,
                flush_err: None,
            },
        ),
        (
            "bufwriter-failed-flush-keeps-tail",
            BufCase {
                kind: BufKind::Writer,
                cap: 6,
                payload: Payload { len: 0, kind: PayloadKind::Binary },
                script: vec![Bytes(2), Fail(ErrKind::BrokenPipe), Bytes(1), Interrupted, Eof],
                ops: vec![BOp::Write(5), BOp::Write(9), BOp::Flush, BOp::Flush, BOp::WriteVec(vec![3, 0, 4]), BOp::Flush, BOp::Flush, BOp::Shutdown],
                errs_during_write: false,
                flush_err: Some(ErrKind::Other),
            },
        ),
    ]
}

pub fn mem() -> Vec<(&'static str, MemCase)> {
    let op = |which: u16, n: u8, parts: Vec<u8>, pos: u16| MemOp { which, n, parts, pos };
    vec![
        // --- known findings
        ("known-array-read_vectored_at-beyond-end", MemCase { target: MemTarget::Array16, init_len: 0, ops: vec![op(6000, 0, vec![4], u16::MAX)], known_shapes: true }),
        ("known-vec-write_vectored_at-short", MemCase { target: MemTarget::VecAt, init_len: 10, ops: vec![op(42000, 0, vec![2], 0)], known_shapes: true }),
        ("known-vec-write_vectored-short", MemCase { target: MemTarget::VecAppend, init_len: 10, ops: vec![op(10000, 0, vec![2], 0)], known_shapes: true }),
        ("known-vec-write_zerocopy_vectored-short", MemCase { target: MemTarget::VecAppend, init_len: 10, ops: vec![op(60000, 0, vec![2], 0)], known_shapes: true }),
        // --- golden: the same parameters moved out of the affected region by construction
        ("vec-write_vectored_at-short-avoided", MemCase { target: MemTarget::VecAt, init_len: 10, ops: vec![op(42000, 0, vec![2], 0), op(0, 20, vec![], 0)], known_shapes: false }),
        (
            "cursor-vec-write-beyond-end-then-read",
            MemCase { target: MemTarget::CursorVec, init_len: 4, ops: vec![op(62000, 0, vec![], 60000), op(30000, 3, vec![], 0), op(62000, 0, vec![], 0), op(20000, 0, vec![], 0)], known_shapes: false },
        ),
    ]
}
