#!/bin/bash
# usage: seed_try.sh <patch.diff> <ws> <bin> [args...]  — try a seeded patch against one check binary in a scratch worktree
P="$1"; WS="$2"; BIN="$3"; shift 3
WT=${SEED_WT:-/tmp/wt-main}
git -C $WT checkout -q -- . ; git -C $WT clean -qfd; git -C $WT checkout -q --detach $(git -C /repo rev-parse HEAD)
git -C $WT apply "$P" || { echo "seed_try: patch does not apply"; exit 3; }
/verif/tools/mutant_run.sh $WS $BIN $WT "$@" 2>&1 | grep -E "^\[C[0-9]|mutant_run|^C[0-9]+/|build failed|^error|regression case|panic" | cut -c1-240 | head -8
rc=${PIPESTATUS[0]}
git -C $WT checkout -q -- .
exit $rc
