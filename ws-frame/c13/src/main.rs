//! C13 — framing and ancillary codecs: round trip and hostile-input safety (DESIGN.md §3 C13).
//!
//!   c13 [--tier quick|thorough] [--replay f.json] [--part roundtrip|hostile|cmsg]
//!   c13 --from-bytes <libFuzzer artifact>      decode like the fuzz target, run, print the JSON case
//!   c13 --write-golden <dir>                   write the golden corpus of the fuzz target
use c13core::{
    cmsg::{run_cmsg, BufKind, CmsgCase, Data, Msg},
    frames::{run_frames, run_hostile, CodecKind, Doc, Excl, FrameCase, Framer, HostileCase, Items},
    gen,
    mock::Frag,
    unstructured,
};
use vcore::{Outcome, Part, Session};

fn f(n: u16) -> Frag {
    Frag { n, pend: false }
}

fn bytes_case(framer: Framer, frames: &[&[u8]], rsched: Vec<Frag>) -> FrameCase {
    FrameCase {
        framer,
        items: Items::Bytes(frames.iter().map(|b| b.to_vec()).collect()),
        send: vec![true],
        end_close: true,
        wsched: vec![],
        lazy: false,
        rsched,
        rcap: 0,
        wcap: 0,
        strict: true,
    }
}

fn golden_hostile() -> Vec<(&'static str, HostileCase)> {
    let h = |framer, codec, stream: &[u8], rsched: Vec<Frag>| HostileCase { framer, codec, stream: stream.to_vec(), rsched, rcap: 0, strict: true };
    let test_doc = br#"{"id":114514,"name":"Test","n":-1,"flag":true,"tags":["a"],"child":null}"#;
    let mut json_len = vec![0, 0, 0, test_doc.len() as u8];
    json_len.extend_from_slice(test_doc);
    json_len.extend_from_slice(&[0, 0, 0, 2, b'{', b'}']);
    vec![
        // framed::frame::tests::test_length_delimited
        ("unit-length-delimited", h(Framer::Len { width: 4, big_endian: true }, CodecKind::Bytes, b"\x00\x00\x00\x05hello\x00\x00\x00\x00\x00\x00\x00\x03abc", vec![f(1)])),
        ("unit-length-delimited-le2", h(Framer::Len { width: 2, big_endian: false }, CodecKind::Bytes, b"\x05\x00hello\x00\x00\x01\x00x\xff", vec![f(2), f(1)])),
        // framed::frame::tests::test_char_delimited
        ("unit-char-delimited", h(Framer::CharR, CodecKind::Bytes, "helloℝℝworldℝtail".as_bytes(), vec![f(1)])),
        ("unit-line-delimited", h(Framer::CharNl, CodecKind::Bytes, b"hello\n\nworld\nrest", vec![f(3)])),
        ("any-delimited-overlap", h(Framer::Any { delim: b"aab".to_vec() }, CodecKind::Bytes, b"aaabxaabaab", vec![f(2)])),
        // framed::frame::tests::test_noop_framer / tests/framed.rs::test_bytes_framed
        ("unit-noop", h(Framer::Noop, CodecKind::Bytes, b"Hello, world!", vec![f(5)])),
        // tests/framed.rs::test_framed, codec::serde_json::test_serde_json_codec
        ("unit-json-length-delimited", h(Framer::Len { width: 4, big_endian: true }, CodecKind::Json, &json_len, vec![f(7)])),
        ("json-line", h(Framer::CharNl, CodecKind::Json, b"{\"id\":1,\"name\":\"\",\"n\":0,\"flag\":false,\"tags\":[]}\n[1,2\n", vec![f(4)])),
        // the design-phase probe: width 8, sixteen 0xFF
        ("len8-all-ones", h(Framer::Len { width: 8, big_endian: true }, CodecKind::Bytes, &[0xFF; 16], vec![])),
        ("len8-near-max-le", h(Framer::Len { width: 8, big_endian: false }, CodecKind::Bytes, &[0xF8, 0xFF, 0xFF, 0xFF, 0xFF, 0xFF, 0xFF, 0xFF, 1, 2], vec![f(3)])),
        ("len8-largest-representable", h(Framer::Len { width: 8, big_endian: true }, CodecKind::Bytes, &[0xFF, 0xFF, 0xFF, 0xFF, 0xFF, 0xFF, 0xFF, 0xF7, 1, 2], vec![f(3)])),
        ("len1-max", h(Framer::Len { width: 1, big_endian: true }, CodecKind::Bytes, &[0xFF, 1, 2, 3, 0, 0, 1, 9], vec![f(1)])),
    ]
}

fn main() {
    let mut s = Session::new();
    let excl = Excl::from_signatures(&s.known_signatures("C13"));
    // ---- auxiliary modes
    let rest = s.args.rest.clone();
    if let Some(i) = rest.iter().position(|a| a == "--from-bytes") {
        let path = rest.get(i + 1).expect("--from-bytes <file>");
        let bytes = std::fs::read(path).expect("read artifact");
        match unstructured::decode(&bytes) {
            Ok(input) => {
                println!("{}", vcore::serde_json::to_string_pretty(&input).unwrap());
                match vcore::guarded(|| unstructured::run(&input, Excl::default())) {
                    Ok(Outcome::Violation { signature, detail }) | Err((signature, detail)) => {
                        eprintln!("{signature}\n  {detail}");
                        let known = s.known_or_none("C13", &signature);
                        if !known {
                            println!("VIOLATION property=C13 replay={path}");
                            std::process::exit(1);
                        }
                    }
                    Ok(o) => eprintln!("{o:?}"),
                }
            }
            Err(e) => eprintln!("input too short to decode: {e}"),
        }
        std::process::exit(0);
    }
    if let Some(i) = rest.iter().position(|a| a == "--write-golden") {
        let dir = std::path::PathBuf::from(rest.get(i + 1).expect("--write-golden <dir>"));
        std::fs::create_dir_all(&dir).unwrap();
        for (name, c) in golden_hostile() {
            let b = unstructured::encode_hostile(&c);
            // the encoding must decode to the same case
            match unstructured::decode(&b) {
                Ok(unstructured::Input::Hostile(mut d)) => {
                    d.strict = c.strict;
                    assert_eq!(vcore::serde_json::to_string(&d).unwrap(), vcore::serde_json::to_string(&c).unwrap(), "golden {name} does not round-trip through the byte decoder")
                }
                other => panic!("golden {name} decodes to {other:?}"),
            }
            std::fs::write(dir.join(name), b).unwrap();
        }
        eprintln!("wrote {} golden inputs to {}", golden_hostile().len(), dir.display());
        std::process::exit(0);
    }

    // ---- (i) round trip
    let mut p = Part::new(
        "C13",
        "roundtrip",
        "case = framer {LengthDelimited width 1..8 x endianness, CharDelimited '\\n' | 'R-double-struck' (3 bytes) | NUL, AnyDelimited with a 1-4 byte delimiter, NoopFramer} x items \
         {0-8 byte payloads of 0-300 bytes drawn from an alphabet rich in delimiter bytes (BytesCodec) | 0-6 JSON documents of a small grammar, compact or pretty (SerdeJsonCodec)}; payloads \
         are made legal by construction (delimiter occurrences repaired, width-1 payloads <= 255 bytes); sink program feed|send per item then close|flush into a recording writer with a \
         partial-write schedule, optionally write-behind; the wire image must equal an independent reference encoding; then delivered to a Framed reader through a cyclic fragmentation \
         schedule (fragment sizes 1..400, optional Pending), custom buffer capacities. Oracle: decoded sequence == encoded sequence, then None (NoopFramer: concatenation equal, chunks \
         1..=4096). Non-trivial = at least 2 frames and a fragment boundary strictly inside a length header or delimiter (for 1-byte headers/delimiters: strictly inside a frame).",
    );
    p.quick_cases = 100_000;
    p.thorough_cases = 2_000_000;
    p.threads = 8;
    p.assumptions = vec![
        "payload length < 2^(8*width) for LengthDelimited; delimiter framers get payloads whose first delimiter occurrence in payload++delimiter is at the end",
        "SerdeJsonCodec is paired with LengthDelimited, '\\0'/'R' delimiters and, in compact form only, with '\\n'; with AnyDelimited/NoopFramer the JSON text travels as opaque bytes",
        "NoopFramer is a byte-stream bridge: only the concatenation is asserted",
    ];
    p.regressions = vec![
        ("unit-length-delimited-two-frames-bytewise", bytes_case(Framer::Len { width: 4, big_endian: true }, &[b"hello", b"", b"world!"], vec![f(1)])),
        ("len8-le-header-split", bytes_case(Framer::Len { width: 8, big_endian: false }, &[b"abc", b"de"], vec![f(3), f(2)])),
        ("unit-char-delimited-split-delimiter", bytes_case(Framer::CharR, &[b"hello", b"\xE2\x84", b""], vec![f(6), f(1)])),
        ("any-delimited-partial-prefix", bytes_case(Framer::Any { delim: b"ab".to_vec() }, &[b"a", b"ba", b"aa"], vec![f(1)])),
        ("noop-bridge", bytes_case(Framer::Noop, &[b"Hello, ", b"world!"], vec![f(5)])),
        (
            "unit-json-test-framed",
            FrameCase {
                framer: Framer::Len { width: 4, big_endian: true },
                items: Items::Json {
                    pretty: false,
                    docs: vec![Doc { id: 114514111, name: "hello, world!".into(), n: 0, flag: false, tags: vec![], child: None }; 2],
                },
                send: vec![true],
                end_close: true,
                wsched: vec![],
                lazy: false,
                rsched: vec![],
                rcap: 0,
                wcap: 0,
                strict: true,
            },
        ),
        (
            "lazy-writer-feed-then-close",
            FrameCase {
                framer: Framer::Len { width: 2, big_endian: true },
                items: Items::Bytes(vec![b"one".to_vec(), b"two".to_vec()]),
                send: vec![false],
                end_close: true,
                wsched: vec![],
                lazy: true,
                rsched: vec![f(1)],
                rcap: 0,
                wcap: 0,
                strict: true,
            },
        ),
        (
            "lazy-writer-send-then-flush",
            FrameCase {
                framer: Framer::CharNl,
                items: Items::Bytes(vec![b"one".to_vec(), b"two".to_vec()]),
                send: vec![true],
                end_close: false,
                wsched: vec![f(2)],
                lazy: true,
                rsched: vec![f(1)],
                rcap: 0,
                wcap: 0,
                strict: true,
            },
        ),
    ];
    s.run_part(p, gen::frame_case(), move |c| run_frames(c, excl));

    // ---- (iii) hostile input
    let mut p = Part::new(
        "C13",
        "hostile",
        "case = framer (as in roundtrip) x codec {BytesCodec, SerdeJsonCodec} x peer byte stream assembled from 0-8 chunks {random bytes rich in delimiter bytes | well-formed frame | \
         well-formed JSON frame | bare length field with value small / all-ones / near 2^(8w) / top bit | bare delimiter | partial header or delimiter} x fragmentation schedule. The stream is \
         decoded twice (scheduled fragments, delivered whole); every poll must give an item, an error or the end without panic; step bound: item count <= bytes + 1 and reader calls <= \
         bytes + 4; the item sequence must equal an independent reference parse of the stream (so it is also independent of the fragmentation); after an I/O error one more poll must not \
         panic. Non-trivial = the reference parse finds (and the stream yields) at least one complete frame, i.e. extract returned Some.",
    );
    p.quick_cases = 200_000;
    p.thorough_cases = 4_000_000;
    p.threads = 8;
    p.assumptions = vec![
        "hostile bytes are never given to the unsafe constructors AncillaryIter::new / RecvMsgMultiResult::new (their contract demands kernel-valid input)",
        "set_length_field_len(0) and an empty AnyDelimited delimiter are outside the listed parameter space (width 1..8, non-empty delimiters)",
    ];
    p.regressions = golden_hostile();
    s.run_part(p, gen::hostile_case(), move |c| run_hostile(c, excl));

    // ---- (ii) ancillary builder / iterator
    let mut p = Part::new(
        "C13",
        "cmsg",
        "case = control buffer {caller IoBufMut of 16..360 bytes with stale content and a 48-byte canary behind it | AncillaryBuf<16|24|40|64|128|256> between canaries} x 0-8 messages \
         (level, type, payload in {(), u8, u16, u32, i64, [u8;1|3|7|12|16|33|64], in_addr, in_pktinfo, in6_pktinfo}); AncillaryBuilder::push each, then AncillaryIter over the initialised \
         bytes. Oracle: push fails with BufferTooSmall exactly when offset + CMSG_SPACE(size) > capacity (independent layout model: 16-byte header, 8-byte alignment), buffer image == \
         model image (cleared on creation), buf_len == sum of CMSG_SPACE, canaries intact, iterator returns exactly the accepted messages (level, type, len, data) then None, and asking a \
         message for a value larger than its payload fails. Non-trivial = at least 2 accepted messages.",
    );
    p.quick_cases = 100_000;
    p.thorough_cases = 2_000_000;
    p.threads = 8;
    p.assumptions = vec!["Linux x86-64 control message layout (cmsghdr 16 bytes, alignment 8)", "AncillaryIter::new is only given buffers produced by AncillaryBuilder (kernel-valid by construction)"];
    p.regressions = vec![
        (
            "unit-test-cmsg-128",
            CmsgCase {
                buf: BufKind::Fixed { ix: 4 },
                prefill: 0,
                strict: true,
                msgs: vec![
                    Msg { level: 0, ty: 0, data: Data::Unit },
                    Msg { level: 1, ty: 1, data: Data::U8(u8::MAX) },
                    Msg { level: 2, ty: 2, data: Data::U32(u32::MAX) },
                    Msg { level: 3, ty: 3, data: Data::I64(i64::MIN) },
                    Msg { level: 4, ty: 4, data: Data::Arr { k: 0, seed: 0 } },
                ],
            },
        ),
        (
            "exact-fit-then-reject",
            CmsgCase {
                buf: BufKind::Custom { len: ((40 - 16) * 65536usize / 345 + 1) as u16 },
                prefill: 0xFF,
                strict: true,
                msgs: vec![Msg { level: 1, ty: 2, data: Data::U8(7) }, Msg { level: 3, ty: 4, data: Data::Unit }, Msg { level: 5, ty: 6, data: Data::Unit }],
            },
        ),
    ];
    s.run_part(p, gen::cmsg_case(), move |c| run_cmsg(c, excl));
    s.finish();
}
