//! C15 — TLS and WebSocket layers preserve the stream over any transport behaviour (DESIGN §3 C15).
mod certs;
mod mem;
mod tls;
mod ws;

use vcore::{Part, Session};

fn main() {
    let mut s = Session::new();
    let verif_dir = s.args.verif_dir.clone();
    let _ = certs::acceptor(&verif_dir, certs::Backend::Rustls, false); // fail early (exit 2) when the fixtures are missing
    let mut p = Part::new(
        "C15",
        "tls",
        "case = {client/server back-end in {native-tls(OpenSSL), rustls(ring)}, each over the futures-io end of an in-memory duplex or over \
         compio_io::compat::AsyncStream on its compio-style halves; TLS 1.2|1.3; 0-4 payload segments of 0-64 KiB (position coded) in either \
         direction, written in generated write_all chunk sizes with optional flush per chunk, read with generated buffer sizes; turn taking or \
         both directions at once over split halves; who closes first; poll order; per transport end: buffering (bytes visible only on \
         flush) and cyclic schedules for read/write/flush calls of {byte limit 1..unlimited, Pending-then-wake after 0..4 harness steps}}. \
         Oracle: both handshakes complete, every segment arrives unchanged in order exactly once, clean close seen by both, exact dead-lock \
         detection (nobody runnable, no waker fired, nothing scheduled) and a call/step cap proportional to the wire bytes. \
         Non-trivial = a flush-gated transport end, or a partial write and a pending read on one end during the handshake.",
    );
    p.quick_cases = 1200;
    p.thorough_cases = 40_000;
    p.threads = 4;
    p.regressions = tls::regressions();
    p.assumptions = vec![
        "native-tls acceptors (OpenSSL mozilla_intermediate v4) stop at TLS 1.2, so TLS 1.3 is only reached with a rustls server",
        "known shapes are avoided by construction (labelled known-shape-avoided:*) and reproduced by the three known-* regression cases",
        "OpenSSL, rustls, futures-rustls, tungstenite internals are exercised but not modelled",
    ];
    let vd = verif_dir.clone();
    s.run_part(p, tls::strategy(), move |c| tls::run(c, &vd));
    let mut p = Part::new(
        "C15",
        "ws",
        "case = {driver io-uring|poll; plain | TLS(native-tls) | TLS(rustls) under the WebSocket; tiny SO_SNDBUF on the client/server socket; \
         per direction a proxy schedule of {forward chunk 1..65535 bytes, stall 0..3 ms} and a proxy buffer cap (4-128 KiB = back-pressure, \
         or 4 MiB); 0-7 steps {sender, Text|Binary 0-100 KiB | Ping | Pong 0-125 bytes | Burst = the peer first sends 1-8 (1-40 over an \
         uncapped proxy) small messages that stay unread, the sender feed()s 48-384 KiB without flushing and then reads the queued messages \
         while its own flush is still pending, the peer reads the large message concurrently}; who closes, with or without close frame}. \
         compio_ws client and server run on one compio runtime over two Unix socketpairs joined by a forwarding proxy thread; send and \
         read of a step run concurrently. Oracle per step: the message read equals the message sent (in order, exactly once), a Ping is \
         answered by a Pong with its payload although the receiver never touches its stream again, the close frame is seen by the peer \
         and acknowledged, afterwards both sides report the normal end; a step that does not finish within the watchdog is judged by the \
         rescue rule (explicit flush of both streams delivers it => violation, else inconclusive). \
         Non-trivial = at least one message and the proxy really fragmented or stalled the byte stream.",
    );
    p.quick_cases = 400;
    p.thorough_cases = 12_000;
    p.threads = 4;
    p.max_shrink_iters = 6;
    p.regressions = ws::regressions();
    let vd = verif_dir.clone();
    s.run_part(p, ws::strategy(), move |c| ws::run(c, &vd));
    s.finish();
}
