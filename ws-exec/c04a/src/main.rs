//! C04 part (a) — task and join-handle lifecycle, single-threaded programs on the real
//! `compio_executor::Executor` in its production configuration (std atomics, `panic_guard` armed),
//! judged in lock-step by a reference model of the documented semantics (DESIGN.md §3 C04 (a)).
//!
//! A program is a list of operations (spawn a scripted task, tick, wake / clone / drop a stored
//! waker, poll / cancel / drop / detach a join handle, `is_finished`, drop the executor and keep
//! using what is left).  Task scripts are sequences of yield (self-wake), park (publish the waker),
//! wake another task, spawn a child, panic, return.  Futures, outputs and panic payloads are
//! instrumented: every poll and every drop is an event in a log that the model consumes after each
//! operation.
//!
//! Oracle (model):
//! * `tick` serves the hot queue in FIFO order: each event is the model's queue head — a poll if the
//!   task is not cancelled, otherwise the drop of its future; a tick serves at most `max_interval`
//!   entries and at least min(`max_interval`, entries hot when it began) — which bounds the wait of
//!   a hot task at position p by ⌊p / max_interval⌋ + 1 ticks (no starvation);
//! * a future is polled only while neither finished nor cancelled, what a poll does is what the
//!   script says at the model's program counter, and it is dropped exactly once — at completion, by
//!   the first run after its handle was dropped / cancelled, or by the executor's drop;
//! * a handle yields the task's own output / panic exactly once, `Cancelled` if there is none and the
//!   task is cancelled, `Pending` otherwise; a handle left pending is woken when its task completes;
//! * outputs and panic payloads are dropped exactly once, never after delivery;
//! * `tick()`'s return value and `has_task()` equal "the model's hot queue is not empty";
//! * wakers and handles used after the executor is gone change nothing (no poll, no drop of a future).

use std::{
    cell::{Cell, RefCell},
    collections::VecDeque,
    future::Future,
    pin::Pin,
    rc::{Rc, Weak},
    sync::{
        atomic::{AtomicUsize, Ordering},
        Arc,
    },
    task::{Context, Poll, Wake, Waker},
};

use compio_executor::{Executor, ExecutorConfig, JoinError, JoinHandle};
use serde::{Deserialize, Serialize};
use vcore::{
    ensure, mono_ix,
    proptest::{collection::vec, prelude::*},
    Outcome, Part, Session,
};

// ------------------------------------------------------------------------------------------------
// case

#[derive(Debug, Clone, Serialize, Deserialize)]
pub enum Step {
    /// wake self by reference, return Pending
    Yield,
    /// store a clone of the waker in the shared waker table, return Pending
    Park,
    /// wake (by reference) the w-th stored waker, continue
    WakeOther { w: u16 },
    /// spawn a child task; keep its handle in the handle table or detach it; continue
    SpawnChild { steps: Vec<Step>, keep: bool },
    Panic,
    Return,
}

#[derive(Debug, Clone, Serialize, Deserialize)]
pub enum Op {
    Spawn { steps: Vec<Step> },
    Tick,
    WakeByRef { w: u16 },
    WakeByValue { w: u16 },
    CloneWaker { w: u16 },
    DropWaker { w: u16 },
    PollHandle { h: u16 },
    IsFinished { h: u16 },
    CancelHandle { h: u16 },
    DropHandle { h: u16 },
    Detach { h: u16 },
    DropExecutor,
}

#[derive(Debug, Clone, Serialize, Deserialize)]
pub struct ProgCase {
    pub max_interval: u32,
    pub ops: Vec<Op>,
}

fn leaf_step() -> impl Strategy<Value = Step> + Clone {
    (0u8..10, any::<u16>()).prop_map(|(k, w)| match k {
        0..=2 => Step::Yield,
        3..=5 => Step::Park,
        6..=7 => Step::WakeOther { w },
        8 => Step::Panic,
        _ => Step::Return,
    })
}

fn step() -> impl Strategy<Value = Step> + Clone {
    prop_oneof![
        9 => leaf_step(),
        1 => (vec(leaf_step(), 0..4), any::<bool>()).prop_map(|(steps, keep)| Step::SpawnChild { steps, keep }),
    ]
}

fn op() -> impl Strategy<Value = Op> + Clone {
    // two levels: proptest boxes unions of more than ten arms, and boxed strategies are not Send
    let run = prop_oneof![
        10 => vec(step(), 0..6).prop_map(|steps| Op::Spawn { steps }),
        14 => Just(Op::Tick),
        1 => Just(Op::DropExecutor),
    ];
    let wakers = prop_oneof![
        3 => any::<u16>().prop_map(|w| Op::WakeByRef { w }),
        1 => any::<u16>().prop_map(|w| Op::WakeByValue { w }),
        1 => any::<u16>().prop_map(|w| Op::CloneWaker { w }),
        1 => any::<u16>().prop_map(|w| Op::DropWaker { w }),
    ];
    let handles = prop_oneof![
        3 => any::<u16>().prop_map(|h| Op::PollHandle { h }),
        1 => any::<u16>().prop_map(|h| Op::IsFinished { h }),
        1 => any::<u16>().prop_map(|h| Op::CancelHandle { h }),
        2 => any::<u16>().prop_map(|h| Op::DropHandle { h }),
        1 => any::<u16>().prop_map(|h| Op::Detach { h }),
    ];
    prop_oneof![13 => run, 6 => wakers, 8 => handles]
}

fn case_strategy() -> impl Strategy<Value = ProgCase> + Clone {
    (0usize..4, vec(op(), 0..40)).prop_map(|(mi, ops)| ProgCase { max_interval: [1, 2, 3, 61][mi], ops })
}

// ------------------------------------------------------------------------------------------------
// instrumentation shared between the real futures and the harness

#[derive(Debug, Clone, Copy, PartialEq, Eq)]
enum Ev {
    Poll(usize),
    FutDrop(usize),
    OutDrop(usize),
    PayloadDrop(usize),
}

struct World {
    /// (task, waker) published by `Park`
    wakers: RefCell<Vec<(usize, Waker)>>,
    /// (task, handle, wake counter of the waker it is polled with)
    handles: RefCell<Vec<(usize, JoinHandle<Out>, Arc<Counter>)>>,
    next_id: Cell<usize>,
    exe: RefCell<Weak<Executor>>,
    /// children spawned during the current operation, in order: (child id, kept)
    spawned: RefCell<Vec<(usize, bool)>>,
    /// declared last = dropped last: releasing the wakers / handles above may still log events
    log: RefCell<Vec<Ev>>,
}

#[derive(Default)]
struct Counter(AtomicUsize);

impl Wake for Counter {
    fn wake(self: Arc<Self>) {
        self.0.fetch_add(1, Ordering::SeqCst);
    }

    fn wake_by_ref(self: &Arc<Self>) {
        self.0.fetch_add(1, Ordering::SeqCst);
    }
}

// The instrumented values are deliberately tolerant of being dropped twice (plain data, a raw
// pointer to the `World` that the interpreter keeps alive for the whole case, owned parts released
// only by the first drop): a double drop in the executor then shows up as a second event in the log
// - a clean verdict - instead of corrupting the harness' own memory.

#[derive(Clone, Copy)]
struct WorldRef(*const World);
// panic payloads must be `Send`; everything here stays on one thread
unsafe impl Send for WorldRef {}

impl WorldRef {
    fn get(&self) -> &World {
        // SAFETY: the interpreter owns the `World` until every instrumented value is gone
        unsafe { &*self.0 }
    }
}

struct Out {
    id: usize,
    w: WorldRef,
}

impl Drop for Out {
    fn drop(&mut self) {
        self.w.get().log.borrow_mut().push(Ev::OutDrop(self.id));
    }
}

struct Payload {
    id: usize,
    w: WorldRef,
}

impl Drop for Payload {
    fn drop(&mut self) {
        self.w.get().log.borrow_mut().push(Ev::PayloadDrop(self.id));
    }
}

struct Scripted {
    id: usize,
    steps: std::mem::ManuallyDrop<Vec<Step>>,
    pc: usize,
    w: WorldRef,
    dropped: bool,
}

fn spawn_scripted(w: &Rc<World>, exe: &Executor, steps: Vec<Step>) -> (usize, JoinHandle<Out>) {
    spawn_scripted_raw(WorldRef(Rc::as_ptr(w)), exe, steps)
}

fn spawn_scripted_raw(wr: WorldRef, exe: &Executor, steps: Vec<Step>) -> (usize, JoinHandle<Out>) {
    let w = wr.get();
    let id = w.next_id.get();
    w.next_id.set(id + 1);
    (id, exe.spawn(Scripted { id, steps: std::mem::ManuallyDrop::new(steps), pc: 0, w: wr, dropped: false }))
}

impl Future for Scripted {
    type Output = Out;

    fn poll(mut self: Pin<&mut Self>, cx: &mut Context<'_>) -> Poll<Out> {
        let wr = self.w;
        let w = wr.get();
        w.log.borrow_mut().push(Ev::Poll(self.id));
        if self.dropped {
            // polled after its drop: the event is logged, the script is gone
            return Poll::Pending;
        }
        loop {
            let Some(step) = self.steps.get(self.pc).cloned() else {
                return Poll::Ready(Out { id: self.id, w: wr });
            };
            self.pc += 1;
            match step {
                Step::Yield => {
                    cx.waker().wake_by_ref();
                    return Poll::Pending;
                }
                Step::Park => {
                    w.wakers.borrow_mut().push((self.id, cx.waker().clone()));
                    return Poll::Pending;
                }
                Step::WakeOther { w: ix } => {
                    let target = {
                        let t = w.wakers.borrow();
                        if t.is_empty() { None } else { Some(t[mono_ix(ix, t.len())].1.clone()) }
                    };
                    if let Some(t) = target {
                        t.wake();
                    }
                }
                Step::SpawnChild { steps, keep } => {
                    let exe = w.exe.borrow().upgrade();
                    if let Some(exe) = exe {
                        let (cid, h) = spawn_scripted_raw(wr, &exe, steps);
                        w.spawned.borrow_mut().push((cid, keep));
                        if keep {
                            w.handles.borrow_mut().push((cid, h, Arc::new(Counter::default())));
                        } else {
                            h.detach();
                        }
                    }
                }
                Step::Panic => std::panic::panic_any(Payload { id: self.id, w: wr }),
                Step::Return => return Poll::Ready(Out { id: self.id, w: wr }),
            }
        }
    }
}

impl Drop for Scripted {
    fn drop(&mut self) {
        self.w.get().log.borrow_mut().push(Ev::FutDrop(self.id));
        if !self.dropped {
            self.dropped = true;
            // SAFETY: released once
            unsafe { std::mem::ManuallyDrop::drop(&mut self.steps) };
        }
    }
}

// ------------------------------------------------------------------------------------------------
// reference model

#[derive(Debug, Clone, Copy, PartialEq)]
enum Res {
    None,
    Value,
    Panic,
    Delivered,
    Dropped,
}

#[derive(Debug)]
struct MTask {
    steps: Vec<Step>,
    pc: usize,
    polls: u32,
    /// still owned by the executor's queue (neither finished nor dropped)
    in_queue: bool,
    hot: bool,
    finished: bool,
    cancelled: bool,
    fut_dropped: bool,
    res: Res,
    out_drops: u32,
    payload_drops: u32,
}

struct Model {
    mi: usize,
    tasks: Vec<MTask>,
    hot: VecDeque<usize>,
    /// task of each stored waker
    wakers: Vec<usize>,
    /// (task, polled-and-pending?, wakes seen so far)
    handles: Vec<(usize, bool, usize)>,
    alive: bool,
    nontrivial: bool,
    labels: std::collections::BTreeSet<&'static str>,
}

impl Model {
    fn new_task(&mut self, steps: Vec<Step>) -> usize {
        self.tasks.push(MTask { steps, pc: 0, polls: 0, in_queue: true, hot: true, finished: false, cancelled: false, fut_dropped: false, res: Res::None, out_drops: 0, payload_drops: 0 });
        let id = self.tasks.len() - 1;
        self.hot.push_back(id);
        id
    }

    fn make_hot(&mut self, t: usize) {
        if self.alive && self.tasks[t].in_queue && !self.tasks[t].hot {
            self.tasks[t].hot = true;
            self.hot.push_back(t);
        }
    }

    fn mid_flight(&self, t: usize) -> bool {
        let k = &self.tasks[t];
        k.polls > 0 && !k.finished && !k.fut_dropped
    }

    /// What one poll of task `t` does according to its script.  Returns Some(result) if it finishes.
    fn simulate_poll(&mut self, t: usize, spawned: &mut Vec<(usize, bool)>) -> Option<Res> {
        self.tasks[t].polls += 1;
        loop {
            let pc = self.tasks[t].pc;
            let Some(step) = self.tasks[t].steps.get(pc).cloned() else { return Some(Res::Value) };
            self.tasks[t].pc += 1;
            match step {
                Step::Yield => {
                    self.make_hot(t);
                    return None;
                }
                Step::Park => {
                    self.wakers.push(t);
                    return None;
                }
                Step::WakeOther { w } => {
                    if !self.wakers.is_empty() {
                        let target = self.wakers[mono_ix(w, self.wakers.len())];
                        self.make_hot(target);
                    }
                }
                Step::SpawnChild { steps, keep } => {
                    let cid = self.new_task(steps);
                    spawned.push((cid, keep));
                    if keep {
                        self.handles.push((cid, false, 0));
                    }
                    self.labels.insert("child-spawned-from-task");
                }
                Step::Panic => {
                    self.labels.insert("task-panicked");
                    return Some(Res::Panic);
                }
                Step::Return => return Some(Res::Value),
            }
        }
    }
}

// ------------------------------------------------------------------------------------------------
// quarantine: freed blocks stay intact until the case is over

/// While a case runs, memory freed on this thread is held back instead of being returned to the
/// system allocator.  A double drop or use-after-free in the executor then touches stale-but-intact
/// memory: the instrumented values log a second event (a clean verdict) instead of crashing the
/// harness, and a block freed twice is counted when the quarantine is released.  (Same idea as
/// ASan's quarantine; under the ASan step it is switched off so that ASan sees everything itself.)
mod quarantine {
    use std::{
        alloc::{GlobalAlloc, Layout, System},
        cell::{Cell, UnsafeCell},
    };

    pub struct Quarantine;

    struct List(UnsafeCell<Vec<(usize, usize, usize)>>);

    thread_local! {
        static ON: Cell<bool> = const { Cell::new(false) };
        static BUSY: Cell<bool> = const { Cell::new(false) };
        static HELD: List = const { List(UnsafeCell::new(Vec::new())) };
    }

    unsafe impl GlobalAlloc for Quarantine {
        unsafe fn alloc(&self, l: Layout) -> *mut u8 {
            unsafe { System.alloc(l) }
        }

        unsafe fn dealloc(&self, p: *mut u8, l: Layout) {
            let hold = ON.try_with(|on| on.get()).unwrap_or(false) && !BUSY.try_with(|b| b.replace(true)).unwrap_or(true);
            if hold {
                let _ = HELD.try_with(|h| unsafe { (*h.0.get()).push((p as usize, l.size(), l.align())) });
                BUSY.with(|b| b.set(false));
            } else {
                unsafe { System.dealloc(p, l) }
            }
        }

        unsafe fn realloc(&self, p: *mut u8, l: Layout, new: usize) -> *mut u8 {
            if ON.try_with(|on| on.get()).unwrap_or(false) {
                let nl = unsafe { Layout::from_size_align_unchecked(new, l.align()) };
                let np = unsafe { System.alloc(nl) };
                if !np.is_null() {
                    unsafe { std::ptr::copy_nonoverlapping(p, np, l.size().min(new)) };
                    unsafe { self.dealloc(p, l) };
                }
                np
            } else {
                unsafe { System.realloc(p, l, new) }
            }
        }
    }

    pub fn begin() {
        release();
        if std::env::var_os("VERIF_ASAN").is_none() {
            ON.with(|on| on.set(true));
        }
    }

    /// Gives everything back; returns how many blocks had been freed more than once.
    pub fn release() -> usize {
        ON.with(|on| on.set(false));
        let mut held = HELD.with(|h| unsafe { std::mem::take(&mut *h.0.get()) });
        held.sort_unstable();
        let before = held.len();
        held.dedup_by_key(|x| x.0);
        let dups = before - held.len();
        for (p, size, align) in held {
            unsafe { System.dealloc(p as *mut u8, Layout::from_size_align_unchecked(size, align)) };
        }
        dups
    }
}

#[global_allocator]
static ALLOC: quarantine::Quarantine = quarantine::Quarantine;

// ------------------------------------------------------------------------------------------------
// interpreter

fn run_case(case: &ProgCase) -> Outcome {
    quarantine::begin();
    let out = run_case_inner(case);
    let double_frees = quarantine::release();
    match out {
        Outcome::Pass { .. } if double_frees > 0 => Outcome::violation("C04/memory/double-free", format!("{double_frees} heap block(s) were freed twice while the program ran")),
        o => o,
    }
}

fn run_case_inner(case: &ProgCase) -> Outcome {
    let w = Rc::new(World {
        wakers: RefCell::new(vec![]),
        handles: RefCell::new(vec![]),
        next_id: Cell::new(0),
        exe: RefCell::new(Weak::new()),
        spawned: RefCell::new(vec![]),
        log: RefCell::new(vec![]),
    });
    let mut exe: Option<Rc<Executor>> = Some(Rc::new(Executor::with_config(ExecutorConfig { max_interval: case.max_interval, local_queue_size: 4, ..Default::default() })));
    *w.exe.borrow_mut() = Rc::downgrade(exe.as_ref().unwrap());
    let mut m = Model { mi: case.max_interval as usize, tasks: vec![], hot: VecDeque::new(), wakers: vec![], handles: vec![], alive: true, nontrivial: false, labels: Default::default() };

    macro_rules! take_log {
        () => {
            std::mem::take(&mut *w.log.borrow_mut())
        };
    }
    // events that may happen at any operation: an output / payload being released
    macro_rules! account_release {
        ($ev:expr, $ctx:expr) => {
            match $ev {
                Ev::OutDrop(t) => {
                    let k = &mut m.tasks[t];
                    k.out_drops += 1;
                    ensure!(k.out_drops == 1, "C04/output/dropped-twice", "task {t}: output dropped {} times ({})", k.out_drops, $ctx);
                    ensure!(matches!(k.res, Res::Value | Res::Delivered), "C04/output/unexpected-drop", "task {t}: an output was dropped although the model has {:?} ({})", k.res, $ctx);
                    if k.res == Res::Value {
                        k.res = Res::Dropped;
                    }
                    true
                }
                Ev::PayloadDrop(t) => {
                    let k = &mut m.tasks[t];
                    k.payload_drops += 1;
                    ensure!(k.payload_drops == 1, "C04/output/panic-payload-dropped-twice", "task {t} ({})", $ctx);
                    ensure!(matches!(k.res, Res::Panic | Res::Delivered), "C04/output/unexpected-drop", "task {t}: a panic payload was dropped although the model has {:?} ({})", k.res, $ctx);
                    if k.res == Res::Panic {
                        k.res = Res::Dropped;
                    }
                    true
                }
                _ => false,
            }
        };
    }
    // an operation that must neither poll nor drop any future
    macro_rules! quiet {
        ($ctx:expr) => {
            for ev in take_log!() {
                if !account_release!(ev, $ctx) {
                    return Outcome::violation("C04/unexpected-event", format!("{:?} during {}", ev, $ctx));
                }
            }
        };
    }

    for (opi, op) in case.ops.iter().enumerate() {
        let ctx = format!("op #{opi} {op:?}");
        match op {
            Op::Spawn { steps } => {
                let Some(e) = exe.as_ref() else { continue };
                let (id, h) = spawn_scripted(&w, e, steps.clone());
                let mid = m.new_task(steps.clone());
                ensure!(id == mid, "HARNESS/id-mismatch", "{id} vs {mid}");
                w.handles.borrow_mut().push((id, h, Arc::new(Counter::default())));
                m.handles.push((id, false, 0));
                quiet!(ctx);
            }
            Op::Tick => {
                let Some(e) = exe.as_ref() else { continue };
                let hot_at_start = m.hot.len();
                if hot_at_start > m.mi {
                    m.labels.insert("more-hot-tasks-than-max_interval");
                }
                w.spawned.borrow_mut().clear();
                let ret = e.tick();
                let events = take_log!();
                let real_spawned = std::mem::take(&mut *w.spawned.borrow_mut());
                let mut model_spawned = vec![];
                let mut served = 0usize;
                let mut completed: Vec<usize> = vec![];
                let mut i = 0;
                while i < events.len() {
                    let ev = events[i];
                    i += 1;
                    if account_release!(ev, ctx) {
                        continue;
                    }
                    match ev {
                        Ev::Poll(t) => {
                            let head = m.hot.front().copied();
                            ensure!(head == Some(t), "C04/tick/not-fifo", "{ctx}: task {t} was polled but the model's hot queue is {:?}", m.hot);
                            ensure!(!m.tasks[t].finished && !m.tasks[t].fut_dropped, "C04/future/polled-after-finished", "{ctx}: task {t}");
                            ensure!(!m.tasks[t].cancelled, "C04/future/polled-after-cancel", "{ctx}: task {t} was polled although its handle had been dropped / cancelled");
                            m.hot.pop_front();
                            m.tasks[t].hot = false;
                            served += 1;
                            if let Some(res) = m.simulate_poll(t, &mut model_spawned) {
                                // the future is dropped as soon as it completes
                                ensure!(events.get(i) == Some(&Ev::FutDrop(t)), "C04/future/not-dropped-at-completion", "{ctx}: task {t} finished, next event is {:?}", events.get(i));
                                i += 1;
                                // a task that woke itself in its last poll is taken out of the queue all the same
                                if m.tasks[t].hot {
                                    m.hot.retain(|x| *x != t);
                                }
                                let k = &mut m.tasks[t];
                                k.hot = false;
                                k.finished = true;
                                k.fut_dropped = true;
                                k.in_queue = false;
                                k.res = res;
                                completed.push(t);
                            }
                        }
                        Ev::FutDrop(t) => {
                            let head = m.hot.front().copied();
                            ensure!(head == Some(t), "C04/tick/not-fifo", "{ctx}: future of task {t} dropped but the model's hot queue is {:?}", m.hot);
                            ensure!(m.tasks[t].cancelled, "C04/future/dropped-without-cancel", "{ctx}: task {t} is not cancelled and did not finish");
                            ensure!(!m.tasks[t].fut_dropped, "C04/future/dropped-twice", "{ctx}: task {t}");
                            m.hot.pop_front();
                            served += 1;
                            let k = &mut m.tasks[t];
                            k.hot = false;
                            k.fut_dropped = true;
                            k.in_queue = false;
                        }
                        _ => unreachable!(),
                    }
                }
                ensure!(served <= m.mi, "C04/tick/more-than-max_interval", "{ctx}: {served} entries served, max_interval {}", m.mi);
                ensure!(served >= hot_at_start.min(m.mi), "C04/tick/starved", "{ctx}: {hot_at_start} tasks were hot, max_interval {}, only {served} served", m.mi);
                ensure!(real_spawned == model_spawned, "C04/script/spawn-mismatch", "{ctx}: {real_spawned:?} vs model {model_spawned:?}");
                ensure!(ret == !m.hot.is_empty(), "C04/tick/return-value", "{ctx}: tick() returned {ret}, model hot queue {:?}", m.hot);
                ensure!(e.has_task() == !m.hot.is_empty(), "C04/tick/has_task", "{ctx}: has_task() = {}, model hot queue {:?}", e.has_task(), m.hot);
                // a handle that was left pending must have been woken by the completion
                for t in completed {
                    for (hi, (ht, pending, seen)) in m.handles.iter_mut().enumerate() {
                        if *ht == t && *pending {
                            let now = w.handles.borrow()[hi].2 .0.load(Ordering::SeqCst);
                            ensure!(now > *seen, "C04/join/not-woken-on-completion", "{ctx}: task {t} completed, its pending handle was not woken");
                            *seen = now;
                            m.labels.insert("pending-handle-woken-by-completion");
                        }
                    }
                }
                // the real waker table must be the model's
                let real: Vec<usize> = w.wakers.borrow().iter().map(|x| x.0).collect();
                ensure!(real == m.wakers, "C04/script/park-mismatch", "{ctx}: wakers published by {real:?}, model {:?}", m.wakers);
            }
            Op::WakeByRef { w: ix } | Op::WakeByValue { w: ix } | Op::CloneWaker { w: ix } | Op::DropWaker { w: ix } => {
                if m.wakers.is_empty() {
                    continue;
                }
                let i = mono_ix(*ix, m.wakers.len());
                let t = m.wakers[i];
                if !m.alive {
                    m.labels.insert("stale-waker-used-after-executor-drop");
                }
                match op {
                    Op::WakeByRef { .. } => {
                        let wk = w.wakers.borrow()[i].1.clone();
                        wk.wake_by_ref();
                        drop(wk);
                        m.make_hot(t);
                    }
                    Op::WakeByValue { .. } => {
                        let (_, wk) = w.wakers.borrow_mut().remove(i);
                        wk.wake();
                        m.wakers.remove(i);
                        m.make_hot(t);
                    }
                    Op::CloneWaker { .. } => {
                        let c = w.wakers.borrow()[i].1.clone();
                        w.wakers.borrow_mut().push((t, c));
                        m.wakers.push(t);
                    }
                    _ => {
                        let x = w.wakers.borrow_mut().remove(i);
                        drop(x);
                        m.wakers.remove(i);
                    }
                }
                quiet!(ctx);
                if let Some(e) = exe.as_ref() {
                    ensure!(e.has_task() == !m.hot.is_empty(), "C04/wake/has_task", "{ctx}: has_task() = {}, model hot queue {:?}", e.has_task(), m.hot);
                }
            }
            Op::PollHandle { h } | Op::IsFinished { h } | Op::CancelHandle { h } | Op::DropHandle { h } | Op::Detach { h } => {
                if m.handles.is_empty() {
                    continue;
                }
                let i = mono_ix(*h, m.handles.len());
                let t = m.handles[i].0;
                if m.mid_flight(t) {
                    m.nontrivial = true;
                }
                if !m.alive {
                    m.labels.insert("handle-used-after-executor-drop");
                }
                match op {
                    Op::IsFinished { .. } => {
                        let real = w.handles.borrow()[i].1.is_finished();
                        let expect = m.tasks[t].finished || m.tasks[t].cancelled;
                        ensure!(real == expect, "C04/join/is_finished", "{ctx}: is_finished() = {real}, model: finished {} cancelled {}", m.tasks[t].finished, m.tasks[t].cancelled);
                        quiet!(ctx);
                    }
                    Op::PollHandle { .. } => {
                        let counter = w.handles.borrow()[i].2.clone();
                        let waker = Waker::from(counter);
                        let mut cx = Context::from_waker(&waker);
                        let r = {
                            let mut hs = w.handles.borrow_mut();
                            Pin::new(&mut hs[i].1).poll(&mut cx)
                        };
                        let expect_ready = matches!(m.tasks[t].res, Res::Value | Res::Panic) || m.tasks[t].cancelled;
                        match r {
                            Poll::Pending => {
                                ensure!(!expect_ready, "C04/join/pending-although-resolvable", "{ctx}: task {t}: model result {:?}, cancelled {}", m.tasks[t].res, m.tasks[t].cancelled);
                                m.handles[i].1 = true;
                                m.labels.insert("handle-polled-pending");
                                quiet!(ctx);
                            }
                            Poll::Ready(r) => {
                                let x = w.handles.borrow_mut().remove(i);
                                drop(x);
                                m.handles.remove(i);
                                match (r, m.tasks[t].res) {
                                    (Ok(out), Res::Value) => {
                                        ensure!(out.id == t, "C04/join/wrong-result", "{ctx}: output of task {} through the handle of task {t}", out.id);
                                        m.tasks[t].res = Res::Delivered;
                                        drop(out);
                                        m.labels.insert("output-delivered");
                                    }
                                    (Err(JoinError::Panicked(p)), Res::Panic) => {
                                        let p = p.downcast::<Payload>().map_err(|_| ()).ok();
                                        ensure!(p.as_ref().is_some_and(|p| p.id == t), "C04/join/wrong-result", "{ctx}: foreign panic payload through the handle of task {t}");
                                        m.tasks[t].res = Res::Delivered;
                                        drop(p);
                                        m.labels.insert("panic-delivered");
                                    }
                                    (Err(JoinError::Cancelled), res) => {
                                        ensure!(!matches!(res, Res::Value | Res::Panic), "C04/join/cancelled-although-result-present", "{ctx}: task {t} has {res:?}");
                                        ensure!(m.tasks[t].cancelled, "C04/join/cancelled-without-cancel", "{ctx}: task {t} is not cancelled");
                                        m.labels.insert("handle-reports-cancelled");
                                    }
                                    (r, res) => {
                                        let what = match r {
                                            Ok(_) => "Ok",
                                            Err(JoinError::Panicked(_)) => "Panicked",
                                            Err(JoinError::Cancelled) => "Cancelled",
                                        };
                                        return Outcome::violation("C04/join/wrong-result", format!("{ctx}: task {t}: handle returned {what}, model has {res:?}"));
                                    }
                                }
                                quiet!(ctx);
                            }
                        }
                    }
                    Op::CancelHandle { .. } => {
                        let (_, hd, counter) = w.handles.borrow_mut().remove(i);
                        m.handles.remove(i);
                        let waker = Waker::from(counter);
                        let mut cx = Context::from_waker(&waker);
                        let mut fut = Box::pin(hd.cancel());
                        let r = fut.as_mut().poll(&mut cx);
                        // cancel(): the task is scheduled so that the executor drops its future, and marked
                        m.make_hot(t);
                        m.tasks[t].cancelled = true;
                        let Poll::Ready(r) = r else {
                            return Outcome::violation("C04/cancel/pending", format!("{ctx}: cancel().await of a local handle did not resolve at once"));
                        };
                        match (r, m.tasks[t].res) {
                            (Some(out), Res::Value) => {
                                ensure!(out.id == t, "C04/join/wrong-result", "{ctx}");
                                m.tasks[t].res = Res::Delivered;
                                drop(out);
                            }
                            (None, Res::Value) => return Outcome::violation("C04/cancel/result-withheld", format!("{ctx}: task {t} had finished with a value, cancel() returned None")),
                            (Some(_), res) => return Outcome::violation("C04/join/wrong-result", format!("{ctx}: cancel() returned a value, model has {res:?}")),
                            (None, _) => {}
                        }
                        drop(fut);
                        m.labels.insert("handle-cancelled");
                        quiet!(ctx);
                    }
                    Op::DropHandle { .. } => {
                        let x = w.handles.borrow_mut().remove(i);
                        m.handles.remove(i);
                        drop(x);
                        m.make_hot(t);
                        m.tasks[t].cancelled = true;
                        m.labels.insert("handle-dropped");
                        quiet!(ctx);
                        // a result nobody can take any more is released right away
                        ensure!(!matches!(m.tasks[t].res, Res::Value | Res::Panic), "C04/output/kept-after-handle-drop", "{ctx}: task {t} still holds {:?} after its handle was dropped", m.tasks[t].res);
                    }
                    _ => {
                        let (_, hd, _) = w.handles.borrow_mut().remove(i);
                        m.handles.remove(i);
                        hd.detach();
                        m.labels.insert("handle-detached");
                        quiet!(ctx);
                    }
                }
                if let Some(e) = exe.as_ref() {
                    ensure!(e.has_task() == !m.hot.is_empty(), "C04/handle/has_task", "{ctx}: has_task() = {}, model hot queue {:?}", e.has_task(), m.hot);
                }
            }
            Op::DropExecutor => {
                let Some(e) = exe.take() else { continue };
                if (0..m.tasks.len()).any(|t| m.mid_flight(t)) {
                    m.nontrivial = true;
                }
                ensure!(Rc::strong_count(&e) == 1, "HARNESS/executor-still-shared", "{ctx}");
                drop(e);
                m.alive = false;
                m.hot.clear();
                m.labels.insert("executor-dropped-mid-program");
                let mut expect: std::collections::BTreeSet<usize> = (0..m.tasks.len()).filter(|t| m.tasks[*t].in_queue).collect();
                for ev in take_log!() {
                    if account_release!(ev, ctx) {
                        continue;
                    }
                    match ev {
                        Ev::FutDrop(t) => {
                            ensure!(expect.remove(&t), "C04/future/dropped-twice", "{ctx}: future of task {t} dropped by the executor's drop although it was gone already");
                        }
                        other => return Outcome::violation("C04/unexpected-event", format!("{other:?} during {ctx}")),
                    }
                }
                ensure!(expect.is_empty(), "C04/future/leaked-by-executor-drop", "{ctx}: futures of tasks {expect:?} were not dropped");
                for k in m.tasks.iter_mut() {
                    if k.in_queue {
                        k.in_queue = false;
                        k.hot = false;
                        k.fut_dropped = true;
                        k.cancelled = true;
                    }
                    // Task::drop marks every task it touches as cancelled; finished ones keep their result
                }
            }
        }
    }

    // ---------------- wind down: release everything, then the books must balance
    let ctx = "wind-down";
    let hs = std::mem::take(&mut *w.handles.borrow_mut());
    for (t, h, _) in hs {
        drop(h);
        if m.alive {
            m.make_hot(t);
        }
        m.tasks[t].cancelled = true;
    }
    quiet!(ctx);
    if let Some(e) = exe.take() {
        drop(e);
        let mut expect: std::collections::BTreeSet<usize> = (0..m.tasks.len()).filter(|t| m.tasks[*t].in_queue).collect();
        for ev in take_log!() {
            if account_release!(ev, ctx) {
                continue;
            }
            match ev {
                Ev::FutDrop(t) => ensure!(expect.remove(&t), "C04/future/dropped-twice", "{ctx}: task {t}"),
                other => return Outcome::violation("C04/unexpected-event", format!("{other:?} during {ctx}")),
            }
        }
        ensure!(expect.is_empty(), "C04/future/leaked-by-executor-drop", "{ctx}: futures of tasks {expect:?} were not dropped");
        for k in m.tasks.iter_mut() {
            k.in_queue = false;
            k.fut_dropped = true;
        }
    }
    let ws = std::mem::take(&mut *w.wakers.borrow_mut());
    drop(ws);
    quiet!(ctx);
    for (t, k) in m.tasks.iter().enumerate() {
        ensure!(k.fut_dropped, "C04/future/leaked", "task {t}: future never dropped");
        match k.res {
            Res::Value => return Outcome::violation("C04/output/leaked", format!("task {t}: output neither delivered nor dropped after everything was released")),
            Res::Panic => return Outcome::violation("C04/output/leaked", format!("task {t}: panic payload neither delivered nor dropped after everything was released")),
            _ => {}
        }
    }
    let mut labels: Vec<String> = m.labels.iter().map(|s| s.to_string()).collect();
    labels.push(format!("max_interval:{}", case.max_interval));
    labels.push(format!("tasks:{}", match m.tasks.len() { 0 => "0", 1..=2 => "1-2", 3..=5 => "3-5", _ => "6+" }));
    Outcome::pass_owned(m.nontrivial, labels)
}

fn main() {
    let mut s = Session::new();
    // the ASan step of the thorough tier writes its own evidence part
    let asan = std::env::var("VERIF_ASAN").is_ok();
    let mut p = Part::new(
        "C04",
        if asan { "single-thread-programs-asan" } else { "single-thread-programs" },
        "case = max_interval {1,2,3,61} x 0-40 operations of spawn(script) / tick / wake by ref / wake by value / clone waker / drop waker / \
         poll handle / is_finished / cancel().await / drop handle / detach / drop executor (the rest of the program then uses stale wakers and \
         handles); scripts = 0-5 steps of yield / park / wake another parked task / spawn a child (kept or detached) / panic / return; indices \
         mapped monotonically into the live waker / handle tables. Real production executor (std atomics), judged in lock-step by a reference \
         model. Non-trivial = a handle operation or the executor drop happened while the concerned task had been polled and was not finished; \
         distinct = distinct serialised case.",
    );
    p.quick_cases = 400_000;
    p.thorough_cases = 2_000_000;
    p.threads = 8;
    p.crash_guard = asan;
    if asan {
        p.threads = 1;
        p.thorough_cases = 40_000;
    }
    p.assumptions = vec![
        "the hot queue is FIFO and a tick serves it from the head (queue.rs / Executor::tick docs); the model asserts the order and the bounds on how many entries a tick serves, not an exact count",
        "when an output nobody can take any more is released is not asserted, only that it is released exactly once by the time everything is dropped (and at once when the handle is dropped after completion)",
        "a handle pending at executor drop is not woken by compio (observation, see the cross-thread part); not asserted",
    ];
    let sp = |steps: Vec<Step>| Op::Spawn { steps };
    p.regressions = vec![
        ("yield-then-return", ProgCase { max_interval: 61, ops: vec![sp(vec![Step::Yield, Step::Return]), Op::Tick, Op::PollHandle { h: 0 }] }),
        ("self-waker-with-interval-1", ProgCase { max_interval: 1, ops: vec![sp(vec![Step::Yield, Step::Yield]), sp(vec![Step::Return]), Op::Tick, Op::Tick, Op::Tick, Op::Tick] }),
        ("drop-handle-of-parked-task", ProgCase { max_interval: 2, ops: vec![sp(vec![Step::Park, Step::Return]), Op::Tick, Op::DropHandle { h: 0 }, Op::Tick, Op::WakeByRef { w: 0 }, Op::Tick] }),
        ("panic-delivered-once", ProgCase { max_interval: 3, ops: vec![sp(vec![Step::Panic]), sp(vec![Step::Yield]), Op::PollHandle { h: 0 }, Op::Tick, Op::PollHandle { h: 0 }, Op::Tick] }),
        ("executor-dropped-then-stale-use", ProgCase { max_interval: 61, ops: vec![sp(vec![Step::Park, Step::Return]), sp(vec![Step::Return]), Op::Tick, Op::DropExecutor, Op::WakeByRef { w: 0 }, Op::PollHandle { h: 0 }, Op::PollHandle { h: 0 }, Op::CloneWaker { w: 0 }, Op::WakeByValue { w: 0 }] }),
        ("child-spawned-and-woken", ProgCase { max_interval: 2, ops: vec![sp(vec![Step::SpawnChild { steps: vec![Step::Park, Step::Return], keep: true }, Step::Park, Step::WakeOther { w: 0 }, Step::Return]), Op::Tick, Op::Tick, Op::WakeByRef { w: 60000 }, Op::Tick, Op::Tick, Op::PollHandle { h: 60000 }] }),
    ];
    s.run_part(p, case_strategy(), run_case);
    s.finish();
}
