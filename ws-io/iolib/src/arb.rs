//! Decoders from fuzzer bytes (`arbitrary::Unstructured`, no derive) into the same case types the
//! proptest strategies build, so the libFuzzer targets call the same interpreters and an artifact
//! converts to a JSON replay file.
use arbitrary::{Result, Unstructured};

use crate::{
    c11_buf::{BOp, BufCase, BufKind},
    c11_loops::{DstKind, DstShape, Helper, HelperCase, Members, Pos, SrcShape},
    c11_mem::{MemCase, MemOp, MemTarget},
    c12::{AdKind, AdOp, AdapterCase, Flavour, InnerStep, MaxSpec},
    pat::{ErrKind, Payload, PayloadKind, Xfer},
};

fn errkind(u: &mut Unstructured) -> Result<ErrKind> {
    Ok(ErrKind::INJECTABLE[u.int_in_range(0..=ErrKind::INJECTABLE.len() - 1)?])
}

fn xfer(u: &mut Unstructured) -> Result<Xfer> {
    Ok(match u.int_in_range(0u8..=11)? {
        0..=6 => Xfer::Bytes(u.int_in_range(1u16..=9)?),
        7 => Xfer::Bytes(u.int_in_range(1u16..=64)?),
        8 | 9 => Xfer::Interrupted,
        10 => Xfer::Fail(errkind(u)?),
        _ => Xfer::Eof,
    })
}

fn list<T>(u: &mut Unstructured, max: usize, mut f: impl FnMut(&mut Unstructured) -> Result<T>) -> Result<Vec<T>> {
    let n = u.int_in_range(0..=max)?;
    let mut out = Vec::with_capacity(n);
    for _ in 0..n {
        out.push(f(u)?);
    }
    Ok(out)
}

fn script(u: &mut Unstructured, max: usize) -> Result<Vec<Xfer>> {
    list(u, max, xfer)
}

fn payload(u: &mut Unstructured, max: u16) -> Result<Payload> {
    let len = u.int_in_range(0..=max)?;
    let kind = match u.int_in_range(0u8..=4)? {
        0..=2 => PayloadKind::Binary,
        3 => PayloadKind::Ascii,
        _ => PayloadKind::Utf8,
    };
    Ok(Payload { len, kind })
}

fn pos(u: &mut Unstructured) -> Result<Pos> {
    Ok(match u.int_in_range(0u8..=9)? {
        0 | 1 => Pos { raw: 0, far: false },
        2 => Pos { raw: u16::MAX, far: false },
        3 => Pos { raw: 0, far: true },
        _ => Pos { raw: u.arbitrary()?, far: false },
    })
}

fn opt<T>(u: &mut Unstructured, f: impl FnOnce(&mut Unstructured) -> Result<T>) -> Result<Option<T>> {
    if u.arbitrary::<bool>()? {
        Ok(Some(f(u)?))
    } else {
        Ok(None)
    }
}

fn dst(u: &mut Unstructured) -> Result<DstShape> {
    let prefill = if u.arbitrary::<bool>()? { 0 } else { u.int_in_range(0u8..=24)? };
    let spare = u.int_in_range(0u8..=40)?;
    let kind = match u.int_in_range(0u8..=9)? {
        0..=3 => DstKind::Vec,
        4 => DstKind::Array24,
        5 | 6 => DstKind::ArrayVec24,
        _ => DstKind::VecSlice { a: u.arbitrary()?, b: opt(u, |u| u.arbitrary())? },
    };
    Ok(DstShape { prefill, spare, kind })
}

fn members(u: &mut Unstructured) -> Result<Members> {
    Ok(Members { caps: list(u, 5, |u| u.int_in_range(0u8..=12))?, filled: if u.int_in_range(0u8..=4)? < 3 { 0 } else { u.arbitrary()? } })
}

fn cuts(u: &mut Unstructured) -> Result<Vec<u8>> {
    list(u, 5, |u| u.int_in_range(0u8..=20))
}

fn src_shape(u: &mut Unstructured) -> Result<SrcShape> {
    Ok(if u.int_in_range(0u8..=2)? < 2 { SrcShape::Vec } else { SrcShape::Slice { a: u.arbitrary()?, b: opt(u, |u| u.arbitrary())? } })
}

fn rte_prefill(u: &mut Unstructured) -> Result<u8> {
    Ok(if u.int_in_range(0u8..=12)? == 0 { u.int_in_range(1u8..=12)? } else { 0 })
}

pub fn helper_case(u: &mut Unstructured) -> Result<HelperCase> {
    let helper = match u.int_in_range(0u8..=17)? {
        0 => Helper::ReadExact { dst: dst(u)? },
        1 => Helper::ReadExactAt { dst: dst(u)?, pos: pos(u)? },
        2 => Helper::ReadToEnd { prefill: rte_prefill(u)?, spare: u.int_in_range(0u8..=40)? },
        3 => Helper::ReadToEndAt { prefill: rte_prefill(u)?, spare: u.int_in_range(0u8..=40)?, pos: pos(u)? },
        4 => Helper::ReadToString { prefill: rte_prefill(u)?, spare: u.int_in_range(0u8..=40)? },
        5 => Helper::ReadToStringAt { prefill: rte_prefill(u)?, spare: u.int_in_range(0u8..=40)?, pos: pos(u)? },
        6 => Helper::ReadVecExact { members: members(u)?, native: u.arbitrary()? },
        7 => Helper::ReadVecExactAt { members: members(u)?, native: u.arbitrary()?, pos: pos(u)? },
        8 => Helper::ReadVectored { members: members(u)?, at: opt(u, pos)? },
        9 => Helper::Append { dst: dst(u)? },
        10 => Helper::TakeToEnd { limit: u.int_in_range(0u16..=80)? },
        11 => Helper::TakeExact { limit: u.int_in_range(0u16..=40)?, n: u.int_in_range(0u8..=40)? },
        12 => Helper::WriteAll { src: src_shape(u)? },
        13 => Helper::WriteAllAt { src: src_shape(u)?, pos: u.int_in_range(0u8..=24)? },
        14 => Helper::WriteVecAll { cuts: cuts(u)?, native: u.arbitrary()? },
        15 => Helper::WriteVecAllAt { cuts: cuts(u)?, native: u.arbitrary()?, pos: u.int_in_range(0u8..=24)? },
        16 => Helper::WriteVectored { cuts: cuts(u)?, at: opt(u, |u| u.int_in_range(0u8..=24))? },
        _ => Helper::Copy {
            buf_size: if u.int_in_range(0u8..=12)? == 0 { 0 } else { u.int_in_range(1u8..=7)? },
            sink_script: script(u, 10)?,
            flush_err: if u.int_in_range(0u8..=9)? == 0 { Some(errkind(u)?) } else { None },
        },
    };
    Ok(HelperCase { helper, payload: payload(u, 300)?, script: script(u, 14)? })
}

fn bop(u: &mut Unstructured, kind: BufKind) -> Result<BOp> {
    let small = |u: &mut Unstructured| u.int_in_range(0u8..=40);
    Ok(match kind {
        BufKind::Reader | BufKind::ReaderTake { .. } => match u.int_in_range(0u8..=9)? {
            0 | 1 => BOp::FillBuf,
            2 | 3 => BOp::Consume(u.arbitrary()?),
            4..=6 => BOp::Read(small(u)?),
            7 => BOp::ReadVec(list(u, 3, small)?),
            8 => BOp::ReadExact(small(u)?),
            _ => BOp::ReadToEnd,
        },
        BufKind::Writer => match u.int_in_range(0u8..=9)? {
            0..=3 => BOp::Write(small(u)?),
            4 => BOp::WriteVec(list(u, 3, small)?),
            5 | 6 => BOp::WriteAll(small(u)?),
            7 | 8 => BOp::Flush,
            _ => BOp::Shutdown,
        },
        BufKind::Split => match u.int_in_range(0u8..=8)? {
            0..=2 => BOp::Read(small(u)?),
            3 => BOp::ReadExact(small(u)?),
            4..=6 => BOp::Write(small(u)?),
            7 => BOp::WriteAll(small(u)?),
            _ => BOp::Flush,
        },
    })
}

pub fn buf_case(u: &mut Unstructured) -> Result<BufCase> {
    let kind = match u.int_in_range(0u8..=12)? {
        0..=3 => BufKind::Reader,
        4 | 5 => BufKind::ReaderTake { limit: u.int_in_range(0u16..=60)? },
        6..=10 => BufKind::Writer,
        _ => BufKind::Split,
    };
    let cap = if u.int_in_range(0u8..=14)? == 0 { 0 } else { u.int_in_range(1u8..=7)? };
    let payload = payload(u, 200)?;
    let script = script(u, 16)?;
    let writer = kind == BufKind::Writer;
    let errs_during_write = writer && u.int_in_range(0u8..=7)? == 0;
    let flush_err = if writer && u.int_in_range(0u8..=4)? == 0 { Some(errkind(u)?) } else { None };
    let n = u.int_in_range(1usize..=12)?;
    let mut ops = Vec::with_capacity(n);
    for _ in 0..n {
        ops.push(bop(u, kind)?);
    }
    Ok(BufCase { kind, cap, payload, script, ops, errs_during_write, flush_err })
}

pub fn mem_case(u: &mut Unstructured) -> Result<MemCase> {
    let target = [
        MemTarget::SliceRead,
        MemTarget::Array16,
        MemTarget::BoxSlice,
        MemTarget::VecAt,
        MemTarget::VecAppend,
        MemTarget::CursorVec,
        MemTarget::CursorArr16,
        MemTarget::MutSlice,
    ][u.int_in_range(0usize..=7)?];
    let init_len = u.int_in_range(0u8..=40)?;
    let n = u.int_in_range(1usize..=8)?;
    let mut ops = Vec::with_capacity(n);
    for _ in 0..n {
        ops.push(MemOp { which: u.arbitrary()?, n: u.int_in_range(0u8..=40)?, parts: list(u, 4, |u| u.int_in_range(0u8..=40))?, pos: u.arbitrary()? });
    }
    Ok(MemCase { target, init_len, ops, known_shapes: u.int_in_range(0u8..=9)? == 0 })
}

/// One C11 case of any of the three parts.
#[derive(Debug, Clone)]
pub enum C11Any {
    Loops(HelperCase),
    Buffered(BufCase),
    Mem(MemCase),
}

pub fn c11_any(u: &mut Unstructured) -> Result<C11Any> {
    Ok(match u.int_in_range(0u8..=5)? {
        0..=2 => C11Any::Loops(helper_case(u)?),
        3 | 4 => C11Any::Buffered(buf_case(u)?),
        _ => C11Any::Mem(mem_case(u)?),
    })
}

fn inner_step(u: &mut Unstructured, read: bool) -> Result<InnerStep> {
    Ok(match u.int_in_range(0u8..=13)? {
        0..=7 => InnerStep::Xfer(match u.int_in_range(0u8..=5)? {
            0..=2 => u.int_in_range(1u16..=4)?,
            3 | 4 => u.int_in_range(1u16..=16)?,
            _ => u.int_in_range(1u16..=100)?,
        }),
        8..=10 => InnerStep::Pending { wake_after: u.int_in_range(0u8..=4)? },
        11 => InnerStep::Fail(errkind(u)?),
        12 => InnerStep::Xfer(2),
        _ => {
            if read && u.int_in_range(0u8..=2)? > 0 {
                InnerStep::Xfer(3)
            } else {
                InnerStep::Eof
            }
        }
    })
}

pub fn adapter_case(u: &mut Unstructured) -> Result<AdapterCase> {
    let flavour = match u.int_in_range(0u8..=9)? {
        0..=2 => Flavour::Sync,
        3 => Flavour::SyncHalves,
        4..=7 => Flavour::Poll,
        _ => Flavour::PollHalves,
    };
    let poll = matches!(flavour, Flavour::Poll | Flavour::PollHalves);
    let base = u.int_in_range(0u8..=3)?;
    let max = match u.int_in_range(0u8..=6)? {
        0 | 1 => MaxSpec::Base,
        2 | 3 => MaxSpec::Twice,
        _ => MaxSpec::Unlimited,
    };
    let rsched = list(u, 14, |u| inner_step(u, true))?;
    let wsched = list(u, 14, |u| inner_step(u, false))?;
    let n = u.int_in_range(1usize..=24)?;
    let mut ops = Vec::with_capacity(n);
    for _ in 0..n {
        let size = |u: &mut Unstructured| -> Result<u8> { Ok(if u.int_in_range(0u8..=4)? == 0 { u.int_in_range(0u8..=150)? } else { u.int_in_range(0u8..=12)? }) };
        let kind = match u.int_in_range(0u8..=27)? {
            0..=4 => AdKind::Read(size(u)?),
            5..=7 => AdKind::FillBuf,
            8..=12 => AdKind::Consume(u.arbitrary()?),
            13 | 14 => AdKind::ReadUninit(size(u)?),
            15..=21 => AdKind::Write(size(u)?),
            22..=24 => AdKind::Flush,
            25 => {
                if poll {
                    AdKind::Close
                } else {
                    AdKind::ServiceRead
                }
            }
            26 => {
                if poll {
                    AdKind::Flush
                } else {
                    AdKind::ServiceWrite
                }
            }
            _ => {
                if poll {
                    AdKind::FillBuf
                } else if u.int_in_range(0u8..=3)? == 0 {
                    AdKind::IntoParts
                } else {
                    AdKind::ServiceRead
                }
            }
        };
        ops.push(AdOp { kind, task: u.int_in_range(0u8..=2)? });
    }
    Ok(AdapterCase { base, max, flavour, rsched, wsched, ops, polite: u.int_in_range(0u8..=9)? != 0, stale_flush: u.int_in_range(0u8..=9)? == 0 })
}
