//! C01, part "pool": the buffers of the provided-buffer pool are memory an in-flight buffer-select receive
//! refers to.  Tearing the proactor down while such receives are still armed in the kernel must not hand the
//! pool's buffers back to the allocator while the kernel can still pick one of them and write into it.
//!
//! The pool lets the user plug in the allocator, so the hand-back is observable without instrumentation: at
//! the first `deallocate` during the teardown the allocator (1) fills every pool buffer with a pattern,
//! (2) makes every armed receive fire (sends to its socket), (3) gives the kernel time and looks whether any
//! buffer the pool has declared dead was written to.  Nothing is freed before the look, so the harness never
//! touches freed memory itself.  Oracle: no buffer is written after its pool started handing buffers back;
//! every buffer is deallocated exactly once; the in-flight operations release their descriptor clones.
use std::{
    mem::MaybeUninit,
    net::{SocketAddr, UdpSocket},
    num::NonZeroU16,
    ptr::NonNull,
    sync::{
        atomic::{AtomicBool, AtomicUsize, Ordering},
        Mutex,
    },
    time::Duration,
};

use compio_driver::{
    op::{RecvFlags, RecvManaged, RecvMulti},
    AsRawFd, BufferAllocator, DriverType, ProactorBuilder, PushEntry, SharedFd,
};
use serde::{Deserialize, Serialize};
use vcore::{
    proptest::{collection::vec, prelude::*},
    Outcome, Part, Session,
};

const FILL: u8 = 0x5A;
const PAYLOAD: u8 = 0xC3;

static LIVE: Mutex<Vec<(usize, usize)>> = Mutex::new(Vec::new());
static TARGETS: Mutex<Vec<SocketAddr>> = Mutex::new(Vec::new());
static ARMED: AtomicBool = AtomicBool::new(false);
static HOOK_RAN: AtomicBool = AtomicBool::new(false);
static CLOBBERED: AtomicUsize = AtomicUsize::new(0);
static DOUBLE_FREE: AtomicUsize = AtomicUsize::new(0);

struct SpyAllocator;

impl BufferAllocator for SpyAllocator {
    fn allocate(len: u32) -> NonNull<MaybeUninit<u8>> {
        let ptr = Box::into_raw(Box::<[u8]>::new_uninit_slice(len as usize)).cast();
        LIVE.lock().unwrap_or_else(|p| p.into_inner()).push((ptr as usize, len as usize));
        unsafe { NonNull::new_unchecked(ptr) }
    }

    unsafe fn deallocate(ptr: NonNull<MaybeUninit<u8>>, len: u32) {
        if ARMED.swap(false, Ordering::SeqCst) {
            HOOK_RAN.store(true, Ordering::SeqCst);
            let live = LIVE.lock().unwrap_or_else(|p| p.into_inner()).clone();
            for &(addr, len) in &live {
                unsafe { std::ptr::write_bytes(addr as *mut u8, FILL, len) };
            }
            // data arrives for every receive that is still armed in the kernel
            let sender = UdpSocket::bind("127.0.0.1:0").ok();
            for t in TARGETS.lock().unwrap_or_else(|p| p.into_inner()).iter() {
                if let Some(s) = &sender {
                    let _ = s.send_to(&[PAYLOAD; 48], t);
                }
            }
            // the completion is run on behalf of this thread, at the latest when it returns from a system call
            for _ in 0..10 {
                std::thread::sleep(Duration::from_millis(4));
            }
            for &(addr, len) in &live {
                let bytes = unsafe { std::slice::from_raw_parts(addr as *const u8, len) };
                if bytes.iter().any(|b| *b != FILL) {
                    CLOBBERED.fetch_add(1, Ordering::SeqCst);
                }
            }
        }
        let mut live = LIVE.lock().unwrap_or_else(|p| p.into_inner());
        let before = live.len();
        live.retain(|(addr, _)| *addr != ptr.as_ptr() as usize);
        if live.len() + 1 != before {
            DOUBLE_FREE.fetch_add(1, Ordering::SeqCst);
            return; // not ours (any more): never free it a second time
        }
        drop(live);
        let ptr = std::ptr::slice_from_raw_parts_mut(ptr.as_ptr(), len as usize);
        drop(unsafe { Box::from_raw(ptr) });
    }
}

#[derive(Debug, Clone, Copy, Serialize, Deserialize, PartialEq)]
enum Recv {
    /// multishot buffer-select receive
    Multi,
    /// one-shot buffer-select receive
    Managed,
}

#[derive(Debug, Clone, Copy, Serialize, Deserialize, PartialEq)]
enum Fate {
    /// `Proactor::cancel(key)` (what a dropped stream does), then the proactor goes away at once
    Cancel,
    /// the key is still held when the proactor is dropped, and dropped afterwards
    Held,
}

#[derive(Debug, Clone, Serialize, Deserialize)]
struct PoolCase {
    bufs: u8,
    buf_len: u16,
    /// armed receives, each on its own UDP socket
    ops: Vec<(Recv, Fate)>,
    /// datagrams delivered (and their buffers returned) per socket before the teardown
    warmup: u8,
    /// poll once after the cancellations (the AsyncCancel reaches the kernel) before the drop
    poll_after_cancel: bool,
}

fn strategy() -> impl Strategy<Value = PoolCase> + Clone {
    let op = (prop_oneof![2 => Just(Recv::Multi), 1 => Just(Recv::Managed)], prop_oneof![Just(Fate::Cancel), Just(Fate::Held)]);
    (1u8..=8, prop_oneof![Just(64u16), Just(256), Just(1024)], vec(op, 1..4), 0u8..3, any::<bool>()).prop_map(|(bufs, buf_len, ops, warmup, poll_after_cancel)| PoolCase { bufs, buf_len, ops, warmup, poll_after_cancel })
}

fn run(case: &PoolCase) -> Outcome {
    LIVE.lock().unwrap_or_else(|p| p.into_inner()).clear();
    TARGETS.lock().unwrap_or_else(|p| p.into_inner()).clear();
    ARMED.store(false, Ordering::SeqCst);
    HOOK_RAN.store(false, Ordering::SeqCst);
    CLOBBERED.store(0, Ordering::SeqCst);
    DOUBLE_FREE.store(0, Ordering::SeqCst);
    let mut driver = match ProactorBuilder::new()
        .driver_type(DriverType::IoUring)
        .buffer_pool_allocator::<SpyAllocator>()
        .buffer_pool_size(NonZeroU16::new(case.bufs.max(1) as u16).unwrap())
        .buffer_pool_buffer_len(case.buf_len as usize)
        .build()
    {
        Ok(d) => d,
        Err(e) => return Outcome::inconclusive(format!("io_uring proactor: {e}")),
    };
    let pool = match driver.buffer_pool() {
        Ok(p) => p,
        Err(e) => return Outcome::inconclusive(format!("buffer pool: {e}")),
    };
    let mut sockets = vec![];
    let mut held = vec![];
    let sender = UdpSocket::bind("127.0.0.1:0").expect("sender");
    let mut in_flight = 0;
    for (kind, fate) in &case.ops {
        let socket = UdpSocket::bind("127.0.0.1:0").expect("socket");
        let addr = socket.local_addr().unwrap();
        let socket = SharedFd::new(socket);
        if driver.attach(socket.as_raw_fd()).is_err() {
            return Outcome::inconclusive("attach");
        }
        // warm-up: complete one-shot managed receives so that buffers have travelled through the kernel and back
        for _ in 0..case.warmup {
            let Ok(op) = RecvManaged::new(socket.clone(), &pool, 0, RecvFlags::empty()) else { return Outcome::inconclusive("RecvManaged::new") };
            let _ = sender.send_to(&[1u8; 16], addr);
            match driver.push(op) {
                PushEntry::Ready(_) => {}
                PushEntry::Pending(mut key) => {
                    let mut done = false;
                    for _ in 0..50 {
                        let _ = driver.poll(Some(Duration::from_millis(20)));
                        match driver.pop(key) {
                            PushEntry::Ready(r) => {
                                drop(r);
                                done = true;
                                break;
                            }
                            PushEntry::Pending(k) => key = k,
                        }
                        if done {
                            break;
                        }
                    }
                    if !done {
                        return Outcome::inconclusive("warm-up receive did not complete");
                    }
                }
            }
        }
        TARGETS.lock().unwrap_or_else(|p| p.into_inner()).push(addr);
        macro_rules! arm {
            ($op:expr) => {{
                let Ok(op) = $op else { return Outcome::inconclusive("managed op constructor") };
                match driver.push(op) {
                    PushEntry::Pending(key) => {
                        in_flight += 1;
                        match fate {
                            Fate::Cancel => {
                                let _ = driver.poll(Some(Duration::ZERO)); // hand it to the kernel first
                                let _ = driver.cancel(key);
                            }
                            Fate::Held => held.push(Box::new(key) as Box<dyn std::any::Any>),
                        }
                    }
                    PushEntry::Ready(_) => {}
                }
            }};
        }
        match kind {
            Recv::Multi => arm!(RecvMulti::new(socket.clone(), &pool, 0, RecvFlags::empty())),
            Recv::Managed => arm!(RecvManaged::new(socket.clone(), &pool, 0, RecvFlags::empty())),
        }
        sockets.push(socket);
    }
    let _ = driver.flush();
    if case.poll_after_cancel {
        let _ = driver.poll(Some(Duration::ZERO));
    }
    drop(pool);
    ARMED.store(true, Ordering::SeqCst);
    drop(driver);
    ARMED.store(false, Ordering::SeqCst);
    drop(held);
    let clobbered = CLOBBERED.load(Ordering::SeqCst);
    if clobbered > 0 {
        return Outcome::violation(
            "C01/pool/buffer-handed-back-while-receive-armed",
            format!("the kernel wrote into {clobbered} pool buffer(s) after the pool had started to hand its buffers back to the allocator: an in-flight buffer-select receive still had access to them"),
        );
    }
    if DOUBLE_FREE.load(Ordering::SeqCst) > 0 {
        return Outcome::violation("C01/pool/buffer-deallocated-twice", "a pool buffer was handed back to the allocator twice (or one that was never allocated)".to_string());
    }
    if !HOOK_RAN.load(Ordering::SeqCst) || !LIVE.lock().unwrap_or_else(|p| p.into_inner()).is_empty() {
        return Outcome::violation("C01/pool/buffers-leaked", format!("{} pool buffer(s) were never handed back after the proactor was dropped", LIVE.lock().unwrap_or_else(|p| p.into_inner()).len()));
    }
    for (i, s) in sockets.into_iter().enumerate() {
        if s.try_unwrap().is_err() {
            return Outcome::violation("C01/pool/descriptor-clone-leaked", format!("the receive on socket {i} still holds its descriptor clone after the proactor and every key were dropped"));
        }
    }
    let mut labels = vec![format!("armed:{in_flight}"), format!("warmup:{}", case.warmup.min(1))];
    if case.ops.iter().any(|(k, _)| *k == Recv::Multi) {
        labels.push("multishot".into());
    }
    if case.ops.iter().any(|(_, f)| *f == Fate::Held) {
        labels.push("key-held-over-drop".into());
    }
    Outcome::pass_owned(in_flight > 0, labels)
}

fn main() {
    let mut s = Session::new();
    let mut p = Part::new(
        "C01",
        "pool",
        "case = io_uring proactor with a provided-buffer pool (1-8 buffers of 64/256/1024 bytes, custom allocator) x 1-3 buffer-select receives (multishot | one-shot), each on its own UDP \
         socket, armed in the kernel x per receive: cancelled (dropped stream) or key held over the teardown x 0-2 completed warm-up receives x an extra poll before the drop; the proactor is \
         dropped while the receives are armed, and at the first buffer hand-back every armed socket receives a datagram. Non-trivial = at least one receive in flight at the drop.",
    );
    p.quick_cases = 60;
    p.thorough_cases = 1500;
    p.replay_repeats = 3;
    p.max_shrink_iters = 30;
    p.regressions = vec![("cancelled-multishot-armed-at-drop", PoolCase { bufs: 4, buf_len: 256, ops: vec![(Recv::Multi, Fate::Cancel)], warmup: 0, poll_after_cancel: false })];
    if s.args.shard.0 != 0 {
        p.regressions.clear();
    }
    s.run_part(p, strategy(), run);
    s.finish();
}
