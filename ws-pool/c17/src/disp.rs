//! C17 part `dispatcher`: a real `compio_dispatcher::Dispatcher` built from a `ProactorBuilder` in
//! *Create* mode (`thread_pool_limit` configured, no explicit `reuse_thread_pool`).  The dispatcher
//! and the runtimes of its worker threads must share ONE blocking pool: blocking jobs arrive through
//! `Dispatcher::dispatch_blocking` **and** through `spawn_blocking` inside dispatched tasks, more
//! than `limit` in flight in total.  Every job parks on a gate, so the overlap does not depend on
//! timing: the gate is opened once the running gauge has been stable (or has already exceeded the
//! limit).  Oracles are the exact ones of the other parts (gauge <= limit, exactly once, closure
//! destroyed once, handed-back closure intact, tagged results).
use std::{
    num::NonZeroUsize,
    panic::{catch_unwind, AssertUnwindSafe},
    sync::{
        atomic::{AtomicBool, AtomicUsize, Ordering},
        mpsc, Arc,
    },
    time::{Duration, Instant},
};

use compio_dispatcher::Dispatcher;
use compio_driver::{DispatchError, DriverType, ProactorBuilder};
use compio_runtime::JoinError;
use futures_channel::oneshot;
use serde::{Deserialize, Serialize};
use vcore::{
    proptest::{collection::vec, prelude::*},
    Outcome, Part, Session,
};

use crate::{payload_string, Shared, Token, INLINE, PANIC_MARK};

#[derive(Debug, Clone, Copy, Serialize, Deserialize, PartialEq)]
pub enum Back {
    RunInline,
    DropIt,
}

#[derive(Debug, Clone, Serialize, Deserialize)]
pub struct DJob {
    /// extra work after the gate has opened (microseconds)
    pub dur_us: u16,
    /// what the harness does with a closure that `dispatch_blocking` hands back
    pub back: Back,
}

#[derive(Debug, Clone, Serialize, Deserialize)]
pub struct TJob {
    pub dur_us: u16,
    pub panic: bool,
}

#[derive(Debug, Clone, Serialize, Deserialize)]
pub struct DispPoolCase {
    pub limit: u8,
    pub idle_ms: u8,
    pub workers: u8,
    /// true = io_uring, false = polling driver for the worker runtimes
    pub iour: bool,
    /// jobs handed in through `Dispatcher::dispatch_blocking`
    pub direct: Vec<DJob>,
    /// one dispatched task per entry; each task starts these jobs with `spawn_blocking` and awaits them
    pub tasks: Vec<Vec<TJob>>,
    /// hand the direct jobs in before (true) or after the tasks were dispatched
    pub direct_first: bool,
}

fn expected_value(id: usize) -> u64 {
    (id as u64).wrapping_mul(0x94D0_49BB_1331_11EB) ^ 0xD15
}

struct Gate(Arc<AtomicBool>);

impl Drop for Gate {
    fn drop(&mut self) {
        self.0.store(true, Ordering::SeqCst);
    }
}

/// instrumented, gated job body
fn body(sh: &Shared, gate: &AtomicBool, id: usize, dur_us: u32, panic_after: bool) -> u64 {
    sh.jobs[id].exec.fetch_add(1, Ordering::SeqCst);
    let pooled = !INLINE.with(|c| c.get());
    struct G<'a>(&'a Shared, bool);
    impl Drop for G<'_> {
        fn drop(&mut self) {
            if self.1 {
                self.0.running.fetch_sub(1, Ordering::SeqCst);
            }
        }
    }
    if pooled {
        let g = sh.running.fetch_add(1, Ordering::SeqCst) + 1;
        sh.max_running.fetch_max(g, Ordering::SeqCst);
    }
    let _g = G(sh, pooled);
    if pooled {
        // a job run by the harness itself (handed back) must not wait for the gate it opens
        let end = Instant::now() + Duration::from_secs(60);
        while !gate.load(Ordering::SeqCst) && Instant::now() < end {
            std::thread::sleep(Duration::from_micros(200));
        }
    }
    if dur_us > 0 {
        std::thread::sleep(Duration::from_micros(dur_us as u64));
    }
    if panic_after {
        panic!("{PANIC_MARK} {id}");
    }
    expected_value(id)
}

type TaskOut = Vec<(usize, Result<u64, String>)>;

fn poll_rx<T>(rx: &mut oneshot::Receiver<T>, end: Instant) -> Option<Result<T, ()>> {
    loop {
        match rx.try_recv() {
            Ok(Some(v)) => return Some(Ok(v)),
            Err(_) => return Some(Err(())),
            Ok(None) => {}
        }
        if Instant::now() > end {
            return None;
        }
        std::thread::sleep(Duration::from_micros(300));
    }
}

pub fn run_disp(case: &DispPoolCase) -> Outcome {
    let limit = case.limit.clamp(1, 8) as usize;
    let idle = Duration::from_millis(case.idle_ms.clamp(5, 50) as u64);
    let workers = case.workers.clamp(1, 4) as usize;
    let ndirect = case.direct.len();
    let ntask: usize = case.tasks.iter().map(|t| t.len()).sum();
    let (sh, drop_rx) = Shared::new(ndirect + ntask);
    let gate_flag = Arc::new(AtomicBool::new(false));
    let _open_on_exit = Gate(gate_flag.clone());
    let attempted = Arc::new(AtomicUsize::new(0));

    let mut pb = ProactorBuilder::new();
    pb.capacity(64).driver_type(if case.iour { DriverType::IoUring } else { DriverType::Poll }).thread_pool_limit(limit).thread_pool_recv_timeout(idle);
    let disp = match Dispatcher::builder().worker_threads(NonZeroUsize::new(workers).unwrap()).thread_names(|i| format!("c17dw-{i}")).proactor_builder(pb).build() {
        Ok(d) => d,
        Err(e) => return Outcome::inconclusive(format!("Dispatcher::build: {e}")),
    };

    let mut direct_rx: Vec<(usize, oneshot::Receiver<u64>)> = vec![];
    let mut handed_back: Vec<(usize, Back)> = vec![];
    let mut task_rx: Vec<(usize, oneshot::Receiver<TaskOut>)> = vec![];
    let mut refused_task = false;

    let do_direct = |direct_rx: &mut Vec<(usize, oneshot::Receiver<u64>)>, handed_back: &mut Vec<(usize, Back)>| {
        for (id, j) in case.direct.iter().enumerate() {
            let token = Token::new(&sh, id);
            let (gate, dur) = (gate_flag.clone(), j.dur_us as u32);
            let f = move || {
                let token = token;
                body(&token.sh, &gate, id, dur, false)
            };
            match disp.dispatch_blocking(f) {
                Ok(rx) => direct_rx.push((id, rx)),
                Err(DispatchError(f)) => {
                    match j.back {
                        Back::RunInline => {
                            INLINE.with(|c| c.set(true));
                            let _ = catch_unwind(AssertUnwindSafe(f));
                            INLINE.with(|c| c.set(false));
                        }
                        Back::DropIt => drop(f),
                    }
                    handed_back.push((id, j.back));
                }
            }
        }
    };
    if case.direct_first {
        do_direct(&mut direct_rx, &mut handed_back);
    }
    let mut first = ndirect;
    for (t, jobs) in case.tasks.iter().enumerate() {
        let (sh2, gate, jobs, attempted2) = (sh.clone(), gate_flag.clone(), jobs.clone(), attempted.clone());
        let first_id = first;
        first += jobs.len();
        let r = disp.dispatch(move || async move {
            let mut hs = vec![];
            for (k, j) in jobs.iter().enumerate() {
                let id = first_id + k;
                let token = Token::new(&sh2, id);
                let (gate, dur, pan) = (gate.clone(), j.dur_us as u32, j.panic);
                attempted2.fetch_add(1, Ordering::SeqCst);
                hs.push((id, compio_runtime::spawn_blocking(move || {
                    let token = token;
                    body(&token.sh, &gate, id, dur, pan)
                })));
            }
            let mut out: TaskOut = vec![];
            for (id, h) in hs {
                out.push((
                    id,
                    match h.await {
                        Ok(v) => Ok(v),
                        Err(JoinError::Panicked(p)) => Err(payload_string(&*p)),
                        Err(JoinError::Cancelled) => Err("cancelled".into()),
                    },
                ));
            }
            out
        });
        match r {
            Ok(rx) => task_rx.push((t, rx)),
            Err(_) => refused_task = true,
        }
    }
    if !case.direct_first {
        do_direct(&mut direct_rx, &mut handed_back);
    }

    // hold the gate until the picture is stable: every task has reached its spawn_blocking calls and
    // the number of running jobs has not changed for 30 ms (or already exceeds the limit); 3 s cap
    let total = ndirect + ntask;
    let target = limit.min(total - handed_back.len());
    let start = Instant::now();
    let mut last = (-1i32, Instant::now());
    loop {
        let r = sh.running.load(Ordering::SeqCst);
        if r as usize > limit {
            break;
        }
        if r != last.0 {
            last = (r, Instant::now());
        }
        let all_submitted = attempted.load(Ordering::SeqCst) == ntask || r as usize >= limit;
        if all_submitted && r as usize >= target && last.1.elapsed() > Duration::from_millis(30) {
            break;
        }
        if start.elapsed() > Duration::from_secs(3) {
            break;
        }
        std::thread::sleep(Duration::from_micros(500));
    }
    let running_at_gate = sh.running.load(Ordering::SeqCst) as usize;
    gate_flag.store(true, Ordering::SeqCst);

    // collect
    let end = Instant::now() + Duration::from_secs(30);
    let mut results: Vec<Option<Result<u64, String>>> = vec![None; total];
    for (id, rx) in direct_rx.iter_mut() {
        match poll_rx(rx, end) {
            Some(Ok(v)) => results[*id] = Some(Ok(v)),
            Some(Err(())) => results[*id] = Some(Err("receiver cancelled".into())),
            None => return hang(disp, "a dispatch_blocking result did not arrive within the watchdog"),
        }
    }
    for (t, rx) in task_rx.iter_mut() {
        match poll_rx(rx, end) {
            Some(Ok(out)) => {
                for (id, r) in out {
                    results[id] = Some(r);
                }
            }
            Some(Err(())) => return Outcome::violation("C17/disp/task-cancelled", format!("dispatched task {t} was cancelled although the dispatcher is alive")),
            None => return hang(disp, "a dispatched task did not finish within the watchdog"),
        }
    }
    // join on a helper thread (watchdog)
    let (jtx, jrx) = mpsc::channel();
    let jh = std::thread::Builder::new()
        .name("c17dj".into())
        .spawn(move || {
            let r = catch_unwind(AssertUnwindSafe(|| compio_runtime::Runtime::new().expect("harness runtime").block_on(disp.join())));
            let _ = jtx.send(r.is_ok());
        })
        .expect("spawn join thread");
    match jrx.recv_timeout(Duration::from_secs(30)) {
        Ok(true) => {}
        Ok(false) => return Outcome::violation("C17/disp/join-panicked", "Dispatcher::join panicked although no worker did"),
        Err(_) => return Outcome::inconclusive("Dispatcher::join did not return within the watchdog"),
    }
    let _ = jh.join();
    if refused_task {
        return Outcome::violation("C17/disp/dispatch-refused", "Dispatcher::dispatch handed a task back although the workers are alive");
    }
    while drop_rx.try_recv().is_ok() {}

    // ------------------------------------------------------------------ oracle
    for id in 0..total {
        let exec = sh.jobs[id].exec.load(Ordering::SeqCst);
        let dropped = sh.jobs[id].dropped.load(Ordering::SeqCst);
        let back = handed_back.iter().find(|(i, _)| *i == id).map(|(_, b)| *b);
        let want_exec = if back == Some(Back::DropIt) { 0 } else { 1 };
        if exec != want_exec {
            let sig = match (back, exec) {
                (Some(Back::DropIt), _) => "C17/disp/handed-back-job-also-ran",
                (Some(Back::RunInline), 0) => "C17/disp/handed-back-closure-is-not-the-job",
                (_, 0) => "C17/disp/accepted-job-never-ran",
                _ => "C17/disp/job-ran-twice",
            };
            return Outcome::violation(sig, format!("job {id} ({}) executed {exec} times, handed back: {back:?}", if id < ndirect { "dispatch_blocking" } else { "spawn_blocking in a task" }));
        }
        if dropped != 1 {
            return Outcome::violation(if dropped == 0 { "C17/disp/closure-leaked" } else { "C17/disp/closure-dropped-twice" }, format!("job {id}: closure destroyed {dropped} times"));
        }
        let panics = id >= ndirect && {
            let mut k = id - ndirect;
            let mut p = false;
            for t in &case.tasks {
                if k < t.len() {
                    p = t[k].panic;
                    break;
                }
                k -= t.len();
            }
            p
        };
        match (&results[id], back, panics) {
            (None, Some(_), _) => {}
            (Some(Ok(v)), None, false) if *v == expected_value(id) => {}
            (Some(Err(p)), None, true) if p.contains(PANIC_MARK) && p.ends_with(&format!(" {id}")) => {}
            (got, _, _) => {
                return Outcome::violation("C17/disp/result-mismatch", format!("job {id}: submitter received {got:?} (panics: {panics}, handed back: {back:?})"));
            }
        }
    }
    let max = sh.max_running.load(Ordering::SeqCst) as usize;
    if max > limit {
        return Outcome::violation(
            "C17/limit-exceeded/dispatcher-shared-pool",
            format!(
                "thread_pool_limit {limit}: {max} blocking jobs were running at once ({ndirect} handed in through dispatch_blocking, {ntask} through spawn_blocking inside {} dispatched tasks on {workers} workers; {} handed back) - the dispatcher and its worker runtimes do not share one bounded pool",
                case.tasks.len(),
                handed_back.len()
            ),
        );
    }
    let mut labels = vec![if case.iour { "io_uring".to_string() } else { "polling".to_string() }];
    if !handed_back.is_empty() {
        labels.push("handed-back".into());
    }
    if running_at_gate == limit {
        labels.push("saturated-at-gate".into());
    }
    if max == limit {
        labels.push("gauge==limit".into());
    }
    let accepted_direct = ndirect - handed_back.len();
    if accepted_direct > 0 && ntask > 0 {
        labels.push("both-sides-in-flight".into());
    }
    Outcome::pass_owned(ndirect > 0 && ntask > 0 && total > limit, labels)
}

fn hang(disp: Dispatcher, why: &str) -> Outcome {
    // do not run Dispatcher's destructor logic on a wedged system from this thread
    std::mem::forget(disp);
    Outcome::inconclusive(why)
}

fn dur() -> impl Strategy<Value = u16> + Clone {
    prop_oneof![3 => Just(0u16), 3 => 0u16..800, 1 => 800u16..6000]
}

pub fn case_strategy() -> impl Strategy<Value = DispPoolCase> + Clone {
    (
        prop_oneof![3 => Just(1u8), 3 => Just(2u8), 2 => 3u8..=4],
        5u8..=50,
        1u8..=3,
        any::<bool>(),
        vec((dur(), prop_oneof![Just(Back::RunInline), Just(Back::DropIt)]).prop_map(|(dur_us, back)| DJob { dur_us, back }), 0..=7),
        vec(vec((dur(), prop_oneof![9 => Just(false), 1 => Just(true)]).prop_map(|(dur_us, panic)| TJob { dur_us, panic }), 1..=4), 0..=4),
        any::<bool>(),
    )
        .prop_map(|(limit, idle_ms, workers, iour, direct, tasks, direct_first)| DispPoolCase { limit, idle_ms, workers, iour, direct, tasks, direct_first })
}

pub fn run(s: &mut Session) -> bool {
    let mut p = Part::new(
        "C17",
        "dispatcher",
        "case = Dispatcher(workers 1-3, io_uring|polling) built from a ProactorBuilder in Create mode with thread_pool_limit 1-4 and idle timeout 5-50 ms x 0-7 gated blocking jobs \
         through Dispatcher::dispatch_blocking (handed-back closures are run inline or dropped) x 0-4 dispatched tasks each starting 1-4 gated jobs with spawn_blocking (10 % panic), \
         either side first; the gate opens when the running gauge has been stable for 30 ms (or exceeds the limit). Non-trivial = jobs from both sides and more jobs than the limit in \
         total; distinct = distinct serialised case.",
    );
    p.crash_guard = true;
    p.quick_cases = 160;
    p.thorough_cases = 4000;
    p.replay_repeats = 10;
    p.max_shrink_iters = 24;
    p.assumptions = vec!["the gate makes the overlap independent of job durations; the 30 ms stability window only decides when the gate opens, never a verdict"];
    let d = |back| DJob { dur_us: 0, back };
    let t = |n: usize| vec![TJob { dur_us: 0, panic: false }; n];
    p.regressions = vec![
        (
            "limit2-both-sides-saturate",
            DispPoolCase { limit: 2, idle_ms: 50, workers: 2, iour: true, direct: vec![d(Back::RunInline), d(Back::RunInline), d(Back::DropIt)], tasks: vec![t(2), t(1)], direct_first: true },
        ),
        (
            "limit1-tasks-first-polling",
            DispPoolCase { limit: 1, idle_ms: 10, workers: 1, iour: false, direct: vec![d(Back::DropIt), d(Back::RunInline)], tasks: vec![t(2)], direct_first: false },
        ),
    ];
    if s.args.shard.0 != 0 {
        p.regressions.clear();
    }
    s.run_part(p, case_strategy(), |c| crate::with_breaker(c, run_disp))
}
