#!/bin/bash
# usage: seed_inplace.sh <patch> <ID> — apply a seeded patch to /repo itself, run ./check <ID> (quick), undo
P="$1"; ID="$2"
git -C /repo diff --quiet || { echo "repo dirty"; exit 3; }
git -C /repo apply "$P" || exit 3
cd /verif && ./check $ID 2>&1 | grep -E "VIOLATION|^check:|KNOWN|hard timeout|died" | cut -c1-220 | head -8
git -C /repo checkout -- .
