//! C11 part `mem`: op programs over the in-memory implementations of the compio-io traits
//! (`&[u8]`, `[u8; N]`, `Box<[u8]>` → `[u8]`, `Vec<u8>` positional and appending, `Cursor<_>`,
//! `&mut [u8]`) against a plain reference model written from the rustdoc.
use std::io::{self, Cursor};

use compio_buf::BufResult;
use compio_io::{AsyncRead, AsyncReadAt, AsyncReadAtExt, AsyncReadExt, AsyncWrite, AsyncWriteAt, AsyncWriteAtExt, AsyncWriteExt, AsyncWriteZerocopy};
use serde::{Deserialize, Serialize};
use vcore::{
    guarded, mono_ix, mono_range,
    proptest::{collection::vec, prelude::*},
    Outcome,
};

use crate::{
    exec::block_on,
    pat::{prefill, wdata, Res},
};

#[derive(Debug, Clone, Copy, Serialize, Deserialize, PartialEq)]
pub enum MemTarget {
    /// `&[u8]` as `AsyncRead`
    SliceRead,
    /// `[u8; 16]` as `AsyncReadAt` + `AsyncWriteAt`
    Array16,
    /// `Box<[u8]>` (forwards to `[u8]`)
    BoxSlice,
    /// `Vec<u8>` as `AsyncReadAt` + `AsyncWriteAt` (file-like)
    VecAt,
    /// `Vec<u8>` as `AsyncWrite` (+ zerocopy): appends
    VecAppend,
    CursorVec,
    CursorArr16,
    /// `&mut [u8]` as `AsyncWrite`
    MutSlice,
}

#[derive(Debug, Clone, Copy, PartialEq, Eq)]
pub enum OpK {
    Read,
    ReadVec,
    ReadExact,
    ReadToEnd,
    ReadAt,
    ReadVecAt,
    ReadExactAt,
    ReadVecExactAt,
    ReadToEndAt,
    Write,
    WriteVec,
    WriteAll,
    WriteVecAll,
    WriteAt,
    WriteVecAt,
    WriteAllAt,
    WriteVecAllAt,
    Zerocopy,
    ZerocopyVec,
    SetPos,
}

/// `which` selects from the target's op table; `n` = capacity / length; `parts` = member sizes;
/// `pos` = position mapped into `0..=len+6`.
#[derive(Debug, Clone, Serialize, Deserialize)]
pub struct MemOp {
    pub which: u16,
    pub n: u8,
    pub parts: Vec<u8>,
    pub pos: u16,
}

#[derive(Debug, Clone, Serialize, Deserialize)]
pub struct MemCase {
    pub target: MemTarget,
    pub init_len: u8,
    pub ops: Vec<MemOp>,
    /// Allow the parameter regions of the known defects (vectored positional read beyond the end,
    /// `Vec` vectored writes shorter than the existing content).  Off for most cases: there the
    /// parameters are moved into the unaffected region by construction.
    pub known_shapes: bool,
}

fn table(t: MemTarget) -> &'static [OpK] {
    use OpK::*;
    match t {
        MemTarget::SliceRead => &[Read, Read, ReadVec, ReadVec, ReadExact, ReadToEnd],
        MemTarget::Array16 | MemTarget::BoxSlice | MemTarget::VecAt => &[ReadAt, ReadVecAt, ReadExactAt, ReadVecExactAt, ReadToEndAt, WriteAt, WriteAt, WriteVecAt, WriteVecAt, WriteAllAt, WriteVecAllAt],
        MemTarget::VecAppend => &[Write, WriteVec, WriteVec, WriteAll, WriteVecAll, Zerocopy, ZerocopyVec],
        MemTarget::CursorVec | MemTarget::CursorArr16 => &[Read, ReadVec, ReadExact, ReadToEnd, Write, Write, WriteVec, WriteVec, WriteAll, WriteVecAll, SetPos, SetPos],
        MemTarget::MutSlice => &[Write, WriteVec, WriteAll, WriteVecAll],
    }
}

enum Obj {
    SliceRead { all: Vec<u8>, off: usize },
    Array16([u8; 16]),
    BoxSlice(Box<[u8]>),
    Vec(Vec<u8>),
    CursorVec(Cursor<Vec<u8>>),
    CursorArr(Cursor<[u8; 16]>),
    MutSlice { backing: Vec<u8>, off: usize },
}

struct Model {
    content: Vec<u8>,
    cursor: u64,
    /// fixed size (arrays, slices): writes clamp; otherwise the content grows
    fixed: bool,
}

impl Model {
    fn start(&self, pos: u64) -> usize {
        pos.min(self.content.len() as u64) as usize
    }

    fn write_at(&mut self, pos: u64, d: &[u8]) -> usize {
        if self.fixed {
            let p = self.start(pos);
            let n = d.len().min(self.content.len() - p);
            self.content[p..p + n].copy_from_slice(&d[..n]);
            n
        } else {
            let p = pos as usize;
            if self.content.len() < p {
                self.content.resize(p, 0);
            }
            let over = d.len().min(self.content.len() - p);
            self.content[p..p + over].copy_from_slice(&d[..over]);
            self.content.extend_from_slice(&d[over..]);
            d.len()
        }
    }
}

fn res_unit(r: &io::Result<()>) -> Res {
    Res::of_unit(r)
}

pub fn run_mem(case: &MemCase) -> Outcome {
    let tname = format!("{:?}", case.target);
    let init = prefill(match case.target {
        MemTarget::Array16 | MemTarget::CursorArr16 => 16,
        _ => case.init_len as usize,
    });
    let mut model = Model { content: init.clone(), cursor: 0, fixed: !matches!(case.target, MemTarget::VecAt | MemTarget::VecAppend | MemTarget::CursorVec) };
    let mut obj = match case.target {
        MemTarget::SliceRead => Obj::SliceRead { all: init.clone(), off: 0 },
        MemTarget::Array16 => Obj::Array16(init.clone().try_into().unwrap()),
        MemTarget::BoxSlice => Obj::BoxSlice(init.clone().into_boxed_slice()),
        MemTarget::VecAt | MemTarget::VecAppend => Obj::Vec(init.clone()),
        MemTarget::CursorVec => Obj::CursorVec(Cursor::new(init.clone())),
        MemTarget::CursorArr16 => Obj::CursorArr(Cursor::new(init.clone().try_into().unwrap())),
        MemTarget::MutSlice => Obj::MutSlice { backing: init.clone(), off: 0 },
    };
    let tab = table(case.target);
    let mut labels: Vec<String> = vec![format!("target:{tname}")];
    let mut base = 0usize;
    let mut executed = 0usize;
    let mut avoided = 0usize;

    for (oi, op) in case.ops.iter().enumerate() {
        let mut k = tab[mono_ix(op.which, tab.len())];
        let len = model.content.len();
        let mut pos = mono_range(op.pos, 0, len + 6) as u64;
        let n = op.n as usize;
        let caps: Vec<usize> = op.parts.iter().map(|c| *c as usize).collect();
        let total: usize = caps.iter().sum();
        let positional = !matches!(case.target, MemTarget::SliceRead | MemTarget::VecAppend | MemTarget::CursorVec | MemTarget::CursorArr16 | MemTarget::MutSlice);
        let eff_pos = if positional { pos } else { model.cursor };

        // ---- keep the known defect shapes out unless the case opts in
        let mut method = "";
        let mut converted = false;
        match k {
            OpK::ReadVecAt | OpK::ReadVecExactAt | OpK::ReadVec if !matches!(case.target, MemTarget::SliceRead) => {
                method = "[u8]::read_vectored_at";
                if eff_pos > len as u64 {
                    if case.known_shapes {
                        labels.push("known-shape:read_vectored_at-beyond-end".into());
                    } else if positional {
                        pos = len as u64;
                        avoided += 1;
                    } else {
                        k = OpK::Read;
                        avoided += 1;
                    }
                }
            }
            OpK::WriteVecAt | OpK::WriteVecAllAt | OpK::WriteVec | OpK::WriteVecAll | OpK::ZerocopyVec if matches!(case.target, MemTarget::VecAt | MemTarget::VecAppend | MemTarget::CursorVec) => {
                let affected = match case.target {
                    // `len - (self.len() - pos)`
                    MemTarget::VecAt | MemTarget::CursorVec => eff_pos <= len as u64 && total < len - eff_pos as usize,
                    // `len - self.len()`
                    _ => total < len,
                };
                method = match (case.target, k) {
                    (MemTarget::VecAppend, OpK::ZerocopyVec) => "Vec::write_zerocopy_vectored",
                    (MemTarget::VecAppend, _) => "Vec::write_vectored",
                    _ => "Vec::write_vectored_at",
                };
                if affected {
                    if case.known_shapes {
                        labels.push(format!("known-shape:{method}-shorter-than-content"));
                    } else {
                        avoided += 1;
                        match case.target {
                            MemTarget::VecAt => pos = (len - total) as u64,
                            MemTarget::CursorVec => {
                                converted = true;
                                k = if k == OpK::WriteVecAll { OpK::WriteAll } else { OpK::Write }
                            }
                            _ => {
                                converted = true;
                                k = if k == OpK::WriteVecAll { OpK::WriteAll } else if k == OpK::ZerocopyVec { OpK::Zerocopy } else { OpK::Write }
                            }
                        }
                    }
                }
            }
            _ => {}
        }
        let eff_pos = if positional { pos } else { model.cursor };
        let opname = format!("{k:?}");
        labels.push(format!("op:{opname}"));

        // ---- data for writes
        let wparts: Vec<Vec<u8>> = {
            let mut b = base;
            caps.iter()
                .map(|c| {
                    let d = wdata(b, *c);
                    b += *c;
                    d
                })
                .collect()
        };
        let wflat: Vec<u8> = wparts.concat();
        // a vectored write that was turned into a scalar one (avoided shape) keeps its bytes
        let wd = if converted { wflat.clone() } else { wdata(base, n) };
        // a zero-length write beyond the end of a growable target: whether it extends the content is
        // not documented either way; skipped
        if !model.fixed && eff_pos > len as u64 && !is_read(k) && k != OpK::SetPos {
            let dl = if matches!(k, OpK::Write | OpK::WriteAt | OpK::WriteAll | OpK::WriteAllAt | OpK::Zerocopy) { wd.len() } else { wflat.len() };
            if dl == 0 {
                labels.push("skipped:empty-write-beyond-end".into());
                continue;
            }
        }

        // ---- reference
        enum Want {
            /// result, bytes read (flat)
            Read(Res, Vec<u8>),
            Write(Res),
            Nothing,
        }
        let p = model.start(eff_pos);
        let avail = len - p;
        let want = match k {
            OpK::Read | OpK::ReadAt => {
                let m = n.min(avail);
                let w = Want::Read(Res::Ok(m), model.content[p..p + m].to_vec());
                if !positional {
                    model.cursor += m as u64;
                }
                w
            }
            OpK::ReadVec | OpK::ReadVecAt => {
                let m = total.min(avail);
                let w = Want::Read(Res::Ok(m), model.content[p..p + m].to_vec());
                if !positional {
                    model.cursor += m as u64;
                }
                w
            }
            OpK::ReadExact | OpK::ReadExactAt | OpK::ReadVecExactAt => {
                let need = if k == OpK::ReadVecExactAt { total } else { n };
                if need <= avail {
                    let w = Want::Read(Res::Ok(0), model.content[p..p + need].to_vec());
                    if !positional {
                        model.cursor += need as u64;
                    }
                    w
                } else {
                    if !positional {
                        model.cursor += avail as u64;
                    }
                    Want::Read(Res::Err(io::ErrorKind::UnexpectedEof), vec![])
                }
            }
            OpK::ReadToEnd | OpK::ReadToEndAt => {
                let w = Want::Read(Res::Ok(avail), model.content[p..].to_vec());
                if !positional {
                    model.cursor += avail as u64;
                }
                w
            }
            OpK::Write | OpK::WriteAt | OpK::Zerocopy => {
                let m = match case.target {
                    MemTarget::VecAppend => {
                        model.content.extend_from_slice(&wd);
                        wd.len()
                    }
                    _ => model.write_at(eff_pos, &wd),
                };
                if !positional {
                    model.cursor += m as u64;
                }
                Want::Write(Res::Ok(m))
            }
            OpK::WriteVec | OpK::WriteVecAt | OpK::ZerocopyVec => {
                let m = match case.target {
                    MemTarget::VecAppend => {
                        model.content.extend_from_slice(&wflat);
                        wflat.len()
                    }
                    _ => model.write_at(eff_pos, &wflat),
                };
                if !positional {
                    model.cursor += m as u64;
                }
                Want::Write(Res::Ok(m))
            }
            OpK::WriteAll | OpK::WriteAllAt | OpK::WriteVecAll | OpK::WriteVecAllAt => {
                let d = if matches!(k, OpK::WriteAll | OpK::WriteAllAt) { &wd } else { &wflat };
                let m = match case.target {
                    MemTarget::VecAppend => {
                        model.content.extend_from_slice(d);
                        d.len()
                    }
                    _ => model.write_at(eff_pos, d),
                };
                if !positional {
                    model.cursor += m as u64;
                }
                Want::Write(if m == d.len() { Res::Ok(0) } else { Res::Err(io::ErrorKind::WriteZero) })
            }
            OpK::SetPos => {
                model.cursor = pos;
                Want::Nothing
            }
        };
        base += n.max(total);

        // ---- the real thing
        let real = guarded(|| -> (Res, Vec<u8>) { run_real(&mut obj, k, n, &caps, pos, &wd, &wparts) });
        let (res, bytes) = match real {
            Ok(x) => x,
            Err((psig, detail)) => {
                let m = if method.is_empty() { format!("{tname}.{opname}") } else { method.to_string() };
                return Outcome::violation(format!("C11/mem/{m}/{psig}"), format!("op #{oi} {opname} on {tname} (content len {len}, pos {eff_pos}, n {n}, parts {caps:?}): {detail}"));
            }
        };
        executed += 1;
        match want {
            Want::Read(wres, wbytes) => {
                if res != wres {
                    return Outcome::violation(format!("C11/mem/{tname}.{opname}/wrong-result"), format!("op #{oi} at {eff_pos} (content len {len}, n {n}, parts {caps:?}): got {res:?}, reference {wres:?}"));
                }
                if matches!(wres, Res::Ok(_)) && bytes != wbytes {
                    return Outcome::violation(format!("C11/mem/{tname}.{opname}/wrong-bytes"), format!("op #{oi} at {eff_pos} (content len {len}, n {n}, parts {caps:?}): got {bytes:?}, reference {wbytes:?}"));
                }
                if matches!(wres, Res::Err(_)) {
                    labels.push("unexpected-eof".into());
                    if !positional {
                        // the read cursor after a failed exact read is unspecified
                        break;
                    }
                }
            }
            Want::Write(wres) => {
                if res != wres {
                    return Outcome::violation(format!("C11/mem/{tname}.{opname}/wrong-result"), format!("op #{oi} at {eff_pos} (content len {len}, data {} bytes, parts {caps:?}): got {res:?}, reference {wres:?}", wd.len()));
                }
                if matches!(wres, Res::Err(_)) {
                    labels.push("write-zero".into());
                }
            }
            Want::Nothing => {}
        }
        // ---- state after the op
        let (content, cursor): (Vec<u8>, Option<u64>) = match &obj {
            Obj::SliceRead { all, off } => (all.clone(), Some(*off as u64)),
            Obj::Array16(a) => (a.to_vec(), None),
            Obj::BoxSlice(b) => (b.to_vec(), None),
            Obj::Vec(v) => (v.clone(), None),
            Obj::CursorVec(c) => (c.get_ref().clone(), Some(c.position())),
            Obj::CursorArr(c) => (c.get_ref().to_vec(), Some(c.position())),
            Obj::MutSlice { backing, off } => (backing.clone(), Some(*off as u64)),
        };
        if content != model.content {
            return Outcome::violation(
                format!("C11/mem/{tname}.{opname}/wrong-content"),
                format!("after op #{oi} at {eff_pos} (n {n}, parts {caps:?}): content {:?}, reference {:?}", content, model.content),
            );
        }
        if let Some(c) = cursor {
            let want_c = if matches!(case.target, MemTarget::SliceRead | MemTarget::MutSlice) { model.cursor.min(content.len() as u64) } else { model.cursor };
            if c != want_c {
                return Outcome::violation(format!("C11/mem/{tname}.{opname}/wrong-cursor"), format!("after op #{oi}: cursor {c}, reference {want_c}"));
            }
        }
        if positional && eff_pos > len as u64 {
            labels.push("pos:beyond-end".into());
        }
    }
    if avoided > 0 {
        labels.push("known-shape-avoided".into());
    }
    labels.sort();
    labels.dedup();
    Outcome::pass_owned(executed >= 2, labels)
}

fn flat_of(bufs: &[Vec<u8>]) -> Vec<u8> {
    bufs.concat()
}

fn mk(caps: &[usize]) -> Vec<Vec<u8>> {
    caps.iter().map(|c| Vec::with_capacity(*c)).collect()
}

/// Check the members were filled front to back; returns the flat bytes.
fn members_in_order(bufs: &[Vec<u8>], total: usize) -> Vec<u8> {
    let mut left = total;
    for b in bufs {
        let want = left.min(b.capacity());
        assert!(b.len() == want, "HARNESS-ORACLE members not filled front to back: {:?} (total {total})", bufs.iter().map(|b| (b.len(), b.capacity())).collect::<Vec<_>>());
        left -= want;
    }
    flat_of(bufs)
}

macro_rules! rd {
    ($e:expr) => {{
        let BufResult(r, b) = block_on($e);
        (Res::of(&r), b.to_vec())
    }};
}

macro_rules! rdv {
    ($e:expr) => {{
        let BufResult(r, b) = block_on($e);
        let flat = match &r {
            Ok(n) => members_in_order(&b, *n),
            Err(_) => vec![],
        };
        (Res::of(&r), flat)
    }};
}

macro_rules! rdx {
    ($e:expr) => {{
        let BufResult(r, b) = block_on($e);
        (res_unit(&r), b.to_vec())
    }};
}

macro_rules! rdvx {
    ($e:expr) => {{
        let BufResult(r, b) = block_on($e);
        (res_unit(&r), flat_of(&b))
    }};
}

macro_rules! wr {
    ($e:expr) => {{
        let BufResult(r, _) = block_on($e);
        (Res::of(&r), vec![])
    }};
}

macro_rules! wrx {
    ($e:expr) => {{
        let BufResult(r, _) = block_on($e);
        (res_unit(&r), vec![])
    }};
}

fn run_reader<R: AsyncRead>(r: &mut R, k: OpK, n: usize, caps: &[usize]) -> (Res, Vec<u8>) {
    match k {
        OpK::Read => rd!(r.read(Vec::with_capacity(n))),
        OpK::ReadVec => rdv!(r.read_vectored(mk(caps))),
        OpK::ReadExact => rdx!(r.read_exact(Vec::with_capacity(n))),
        OpK::ReadToEnd => rd!(r.read_to_end(Vec::new())),
        _ => unreachable!("not a stream read op"),
    }
}

fn run_reader_at<R: AsyncReadAt + ?Sized>(r: &R, k: OpK, n: usize, caps: &[usize], pos: u64) -> (Res, Vec<u8>) {
    match k {
        OpK::ReadAt => rd!(r.read_at(Vec::with_capacity(n), pos)),
        OpK::ReadVecAt => rdv!(r.read_vectored_at(mk(caps), pos)),
        OpK::ReadExactAt => rdx!(r.read_exact_at(Vec::with_capacity(n), pos)),
        OpK::ReadVecExactAt => rdvx!(r.read_vectored_exact_at(mk(caps), pos)),
        OpK::ReadToEndAt => rd!(r.read_to_end_at(Vec::new(), pos)),
        _ => unreachable!("not a positional read op"),
    }
}

fn run_writer<W: AsyncWrite>(w: &mut W, k: OpK, wd: &[u8], parts: &[Vec<u8>]) -> (Res, Vec<u8>) {
    match k {
        OpK::Write => wr!(w.write(wd.to_vec())),
        OpK::WriteVec => wr!(w.write_vectored(parts.to_vec())),
        OpK::WriteAll => wrx!(w.write_all(wd.to_vec())),
        OpK::WriteVecAll => wrx!(w.write_vectored_all(parts.to_vec())),
        _ => unreachable!("not a stream write op"),
    }
}

fn run_writer_at<W: AsyncWriteAt + ?Sized>(w: &mut W, k: OpK, wd: &[u8], parts: &[Vec<u8>], pos: u64) -> (Res, Vec<u8>) {
    match k {
        OpK::WriteAt => wr!(w.write_at(wd.to_vec(), pos)),
        OpK::WriteVecAt => wr!(w.write_vectored_at(parts.to_vec(), pos)),
        OpK::WriteAllAt => wrx!(w.write_all_at(wd.to_vec(), pos)),
        OpK::WriteVecAllAt => wrx!(w.write_vectored_all_at(parts.to_vec(), pos)),
        _ => unreachable!("not a positional write op"),
    }
}

fn is_read(k: OpK) -> bool {
    matches!(k, OpK::Read | OpK::ReadVec | OpK::ReadExact | OpK::ReadToEnd | OpK::ReadAt | OpK::ReadVecAt | OpK::ReadExactAt | OpK::ReadVecExactAt | OpK::ReadToEndAt)
}

fn run_real(obj: &mut Obj, k: OpK, n: usize, caps: &[usize], pos: u64, wd: &[u8], parts: &[Vec<u8>]) -> (Res, Vec<u8>) {
    match obj {
        Obj::SliceRead { all, off } => {
            let mut s: &[u8] = &all[*off..];
            let before = s.len();
            let r = run_reader(&mut s, k, n, caps);
            *off += before - s.len();
            r
        }
        Obj::Array16(a) => {
            if is_read(k) {
                run_reader_at(&*a, k, n, caps, pos)
            } else {
                run_writer_at(a, k, wd, parts, pos)
            }
        }
        Obj::BoxSlice(b) => {
            if is_read(k) {
                run_reader_at(&*b, k, n, caps, pos)
            } else {
                run_writer_at(b, k, wd, parts, pos)
            }
        }
        Obj::Vec(v) => match k {
            OpK::Zerocopy => {
                let BufResult(r, fut) = block_on(v.write_zerocopy(wd.to_vec()));
                let back = block_on(fut);
                assert!(back == wd, "HARNESS-ORACLE zerocopy buffer came back changed");
                (Res::of(&r), vec![])
            }
            OpK::ZerocopyVec => {
                let BufResult(r, fut) = block_on(v.write_zerocopy_vectored(parts.to_vec()));
                let back = block_on(fut);
                assert!(back == parts, "HARNESS-ORACLE zerocopy members came back changed");
                (Res::of(&r), vec![])
            }
            OpK::Write | OpK::WriteVec | OpK::WriteAll | OpK::WriteVecAll => run_writer(v, k, wd, parts),
            _ if is_read(k) => run_reader_at(&*v, k, n, caps, pos),
            _ => run_writer_at(v, k, wd, parts, pos),
        },
        Obj::CursorVec(c) => match k {
            OpK::SetPos => {
                c.set_position(pos);
                (Res::Ok(0), vec![])
            }
            _ if is_read(k) => run_reader(c, k, n, caps),
            _ => run_writer(c, k, wd, parts),
        },
        Obj::CursorArr(c) => match k {
            OpK::SetPos => {
                c.set_position(pos);
                (Res::Ok(0), vec![])
            }
            _ if is_read(k) => run_reader(c, k, n, caps),
            _ => run_writer(c, k, wd, parts),
        },
        Obj::MutSlice { backing, off } => {
            let mut s: &mut [u8] = &mut backing[*off..];
            let before = s.len();
            let r = run_writer(&mut s, k, wd, parts);
            *off += before - s.len();
            r
        }
    }
}

// ------------------------------------------------------------------------------------------------
// generators

pub fn case_strategy() -> impl Strategy<Value = MemCase> + Clone {
    let target = prop_oneof![
        2 => Just(MemTarget::SliceRead),
        2 => Just(MemTarget::Array16),
        2 => Just(MemTarget::BoxSlice),
        3 => Just(MemTarget::VecAt),
        2 => Just(MemTarget::VecAppend),
        3 => Just(MemTarget::CursorVec),
        2 => Just(MemTarget::CursorArr16),
        2 => Just(MemTarget::MutSlice),
    ];
    let small = prop_oneof![1 => Just(0u8), 1 => Just(1u8), 6 => 0u8..=12, 2 => 0u8..=40];
    let op = (any::<u16>(), small.clone(), vec(small, 0..=4), prop_oneof![2 => Just(0u16), 6 => any::<u16>(), 1 => Just(u16::MAX)]).prop_map(|(which, n, parts, pos)| MemOp { which, n, parts, pos });
    (target, prop_oneof![1 => Just(0u8), 5 => 0u8..=40], vec(op, 1..=8), prop_oneof![9 => Just(false), 1 => Just(true)]).prop_map(|(target, init_len, ops, known_shapes)| MemCase { target, init_len, ops, known_shapes })
}
