//! C12 — blocking-style (`SyncStream`) and poll-style (`AsyncStream`, `AsyncReadStream`,
//! `AsyncWriteStream`) adapters are lossless FIFO pipes.
//!
//! The inner stream is a mock driven by one generated schedule per direction (deliver/accept n,
//! `Pending` then wake after j harness steps, error, EOF).  It delivers a position-coded infinite
//! stream and records what it receives; the data written by the harness is position-coded by the
//! number of bytes the adapter acknowledged so far.  Model = two counters per direction
//! (delivered/handed-out, acknowledged/received); all byte comparisons are against the patterns.
use std::{
    cell::RefCell,
    future::poll_fn,
    io::{self, BufRead, Read, Write},
    mem::MaybeUninit,
    pin::Pin,
    rc::Rc,
    task::{Context, Poll, Waker},
};

use compio_buf::{BufResult, IoBuf, IoBufMut, IoBufMutExt, SetLenExt};
use compio_io::{
    compat::{AsyncReadStream, AsyncStream, AsyncWriteStream, SyncStream, SyncStreamReadHalf, SyncStreamWriteHalf},
    util::Splittable,
    AsyncRead, AsyncWrite,
};
use futures_util::io::{AsyncBufRead as FBufRead, AsyncRead as FRead, AsyncWrite as FWrite};
use serde::{Deserialize, Serialize};
use vcore::{
    mono_range,
    proptest::{collection::vec, prelude::*, strategy::SBoxedStrategy},
    Outcome,
};

use crate::{
    exec::Task,
    pat::{errkind_strategy, ErrKind},
};

// ------------------------------------------------------------------------------------------------
// case type

#[derive(Debug, Clone, Copy, Serialize, Deserialize, PartialEq)]
pub enum InnerStep {
    /// deliver / accept at most n bytes (n >= 1); for flush/shutdown calls: succeed
    Xfer(u16),
    /// the call stays `Pending`; its waker is woken `wake_after` harness steps later
    Pending { wake_after: u8 },
    Fail(ErrKind),
    /// read: `Ok(0)`; write: `Ok(0)`; flush/shutdown: succeed
    Eof,
}

#[derive(Debug, Clone, Copy, Serialize, Deserialize, PartialEq)]
pub enum MaxSpec {
    Base,
    Twice,
    Unlimited,
}

#[derive(Debug, Clone, Copy, Serialize, Deserialize, PartialEq)]
pub enum Flavour {
    /// `SyncStream<S>`
    Sync,
    /// `SyncStream<(R, W)>::split()` halves
    SyncHalves,
    /// `AsyncStream<(R, W)>`
    Poll,
    /// `AsyncStream::split()` → `AsyncReadStream` + `AsyncWriteStream`
    PollHalves,
}

#[derive(Debug, Clone, Copy, Serialize, Deserialize, PartialEq)]
pub enum AdKind {
    Read(u8),
    FillBuf,
    /// consume k of the bytes the last fill_buf showed (mapped into `0..=shown`)
    Consume(u16),
    ReadUninit(u8),
    Write(u8),
    Flush,
    /// poll flavours: `poll_close`
    Close,
    /// sync flavours: `fill_read_buf().await`
    ServiceRead,
    /// sync flavours: `flush_write_buf().await`
    ServiceWrite,
    /// sync flavours: `into_parts()` (ends the read side)
    IntoParts,
}

#[derive(Debug, Clone, Copy, Serialize, Deserialize)]
pub struct AdOp {
    pub kind: AdKind,
    /// which of the 3 counting wakers polls (poll flavours)
    pub task: u8,
}

#[derive(Debug, Clone, Serialize, Deserialize)]
pub struct AdapterCase {
    /// index into {1, 2, 8, 64}
    pub base: u8,
    pub max: MaxSpec,
    pub flavour: Flavour,
    pub rsched: Vec<InnerStep>,
    pub wsched: Vec<InnerStep>,
    pub ops: Vec<AdOp>,
    /// the inner reader never delivers more than the read limit leaves room for.  The unchanged
    /// tree lets the read buffer grow past `max_buffer_size` otherwise (known finding), so this is
    /// on for most cases.
    pub polite: bool,
    /// poll flavours: allow a write to be accepted while a `poll_flush`/`poll_close` of another
    /// poll is still in flight.  The unchanged tree then reports the flush complete although the
    /// later bytes are still buffered (known finding), so this is off for most cases.
    pub stale_flush: bool,
}

pub fn base_of(raw: u8) -> usize {
    [1usize, 2, 8, 64][raw as usize % 4]
}

const UNLIMITED: usize = 64 << 20;

pub fn rbyte(i: usize) -> u8 {
    ((i * 7 + 3 + i / 251) % 251) as u8 + 2
}

pub fn wbyte(i: usize) -> u8 {
    ((i * 11 + 5 + i / 241) % 241) as u8 + 9
}

// ------------------------------------------------------------------------------------------------
// inner mock

struct Armed {
    left: u32,
    waker: Option<Waker>,
    fired: bool,
}

struct Half {
    sched: Vec<InnerStep>,
    ip: usize,
    armed: Option<Armed>,
    /// error kinds the inner stream produced and the adapter has not reported yet
    unreported: Vec<io::ErrorKind>,
    pendings: usize,
}

impl Half {
    fn new(sched: Vec<InnerStep>) -> Self {
        Half { sched, ip: 0, armed: None, unreported: vec![], pendings: 0 }
    }

    fn poll_step(&mut self, cx: &mut Context<'_>, default: InnerStep) -> Poll<InnerStep> {
        loop {
            match self.sched.get(self.ip).copied() {
                None => return Poll::Ready(default),
                Some(InnerStep::Pending { wake_after }) => match &mut self.armed {
                    None => {
                        self.armed = Some(Armed { left: wake_after as u32, waker: Some(cx.waker().clone()), fired: false });
                        self.pendings += 1;
                        return Poll::Pending;
                    }
                    Some(a) if !a.fired => {
                        a.waker = Some(cx.waker().clone());
                        return Poll::Pending;
                    }
                    Some(_) => {
                        self.armed = None;
                        self.ip += 1;
                    }
                },
                Some(s) => {
                    self.ip += 1;
                    return Poll::Ready(s);
                }
            }
        }
    }

    fn is_pending(&self) -> bool {
        self.armed.as_ref().is_some_and(|a| !a.fired)
    }

    /// One harness step; returns true when the parked waker was woken now.
    fn tick(&mut self, force: bool) -> bool {
        if let Some(a) = &mut self.armed {
            if !a.fired {
                if a.left == 0 || force {
                    a.fired = true;
                    if let Some(w) = a.waker.take() {
                        w.wake();
                    }
                    return true;
                }
                a.left -= 1;
            }
        }
        false
    }
}

struct Inner {
    r: Half,
    w: Half,
    /// bytes delivered to the adapter
    delivered: usize,
    eof_delivered: bool,
    /// bytes the harness obtained from the adapter (kept here so that the polite reader can see
    /// how much room the limit leaves)
    out: usize,
    received: Vec<u8>,
    write_zero_unreported: usize,
    flushes: usize,
    shutdowns: usize,
    writes_after_shutdown: usize,
    max: usize,
    polite: bool,
    budget: usize,
    read_calls: usize,
    partial_deliveries: usize,
    /// short transfers that happened while the adapter held buffered data of that direction
    partial_with_buffered: usize,
    /// the inner writer call currently in flight (or last made) is flush/shutdown, not write
    w_in_flush: bool,
}

type Sh = Rc<RefCell<Inner>>;

fn spend(i: &mut Inner) {
    if i.budget == 0 {
        panic!("inner-stream call budget exhausted: the adapter loops without terminating");
    }
    i.budget -= 1;
}

pub struct MockR(Sh);
pub struct MockW(Sh);

impl AsyncRead for MockR {
    async fn read<B: IoBufMut>(&mut self, mut buf: B) -> BufResult<usize, B> {
        let cap = buf.buf_capacity();
        if cap == 0 {
            return BufResult(Ok(0), buf);
        }
        // after the schedule the inner reader keeps delivering (EOF only where the schedule says so)
        let step = poll_fn(|cx| self.0.borrow_mut().r.poll_step(cx, InnerStep::Xfer(5))).await;
        let mut i = self.0.borrow_mut();
        spend(&mut i);
        i.read_calls += 1;
        match step {
            InnerStep::Xfer(n) => {
                let mut n = (n as usize).min(cap);
                if i.polite {
                    let room = i.max.saturating_sub(i.delivered - i.out);
                    if room == 0 {
                        panic!("inner read called although the read buffer already holds max_buffer_size unread bytes");
                    }
                    n = n.min(room);
                }
                if n < cap {
                    i.partial_deliveries += 1;
                    if i.delivered > i.out {
                        i.partial_with_buffered += 1;
                    }
                }
                let start = i.delivered;
                let dst = buf.as_uninit();
                for (k, d) in dst.iter_mut().take(n).enumerate() {
                    d.write(rbyte(start + k));
                }
                unsafe { buf.advance_to(n) };
                i.delivered += n;
                BufResult(Ok(n), buf)
            }
            InnerStep::Eof => {
                i.eof_delivered = true;
                BufResult(Ok(0), buf)
            }
            InnerStep::Fail(k) => {
                i.r.unreported.push(k.kind());
                BufResult(Err(k.to_io()), buf)
            }
            InnerStep::Pending { .. } => unreachable!(),
        }
    }
}

impl AsyncWrite for MockW {
    async fn write<T: IoBuf>(&mut self, buf: T) -> BufResult<usize, T> {
        if buf.as_init().is_empty() {
            return BufResult(Ok(0), buf);
        }
        self.0.borrow_mut().w_in_flush = false;
        let step = poll_fn(|cx| self.0.borrow_mut().w.poll_step(cx, InnerStep::Xfer(u16::MAX))).await;
        let mut i = self.0.borrow_mut();
        spend(&mut i);
        if i.shutdowns > 0 {
            i.writes_after_shutdown += 1;
        }
        match step {
            InnerStep::Xfer(n) => {
                let n = (n as usize).min(buf.as_init().len());
                if n < buf.as_init().len() {
                    i.partial_with_buffered += 1;
                }
                let d = buf.as_init()[..n].to_vec();
                i.received.extend_from_slice(&d);
                BufResult(Ok(n), buf)
            }
            InnerStep::Eof => {
                i.write_zero_unreported += 1;
                BufResult(Ok(0), buf)
            }
            InnerStep::Fail(k) => {
                i.w.unreported.push(k.kind());
                BufResult(Err(k.to_io()), buf)
            }
            InnerStep::Pending { .. } => unreachable!(),
        }
    }

    async fn flush(&mut self) -> io::Result<()> {
        self.0.borrow_mut().w_in_flush = true;
        let step = poll_fn(|cx| self.0.borrow_mut().w.poll_step(cx, InnerStep::Xfer(u16::MAX))).await;
        let mut i = self.0.borrow_mut();
        spend(&mut i);
        match step {
            InnerStep::Fail(k) => {
                i.w.unreported.push(k.kind());
                Err(k.to_io())
            }
            _ => {
                i.flushes += 1;
                Ok(())
            }
        }
    }

    async fn shutdown(&mut self) -> io::Result<()> {
        self.0.borrow_mut().w_in_flush = true;
        let step = poll_fn(|cx| self.0.borrow_mut().w.poll_step(cx, InnerStep::Xfer(u16::MAX))).await;
        let mut i = self.0.borrow_mut();
        spend(&mut i);
        match step {
            InnerStep::Fail(k) => {
                i.w.unreported.push(k.kind());
                Err(k.to_io())
            }
            _ => {
                i.shutdowns += 1;
                Ok(())
            }
        }
    }
}

pub struct MockDuplex {
    r: MockR,
    w: MockW,
}

impl AsyncRead for MockDuplex {
    async fn read<B: IoBufMut>(&mut self, buf: B) -> BufResult<usize, B> {
        self.r.read(buf).await
    }
}

impl AsyncWrite for MockDuplex {
    async fn write<T: IoBuf>(&mut self, buf: T) -> BufResult<usize, T> {
        self.w.write(buf).await
    }

    async fn flush(&mut self) -> io::Result<()> {
        self.w.flush().await
    }

    async fn shutdown(&mut self) -> io::Result<()> {
        self.w.shutdown().await
    }
}

// ------------------------------------------------------------------------------------------------
// model + common judgements

fn v(what: &str, detail: String) -> Outcome {
    Outcome::violation(format!("C12/{what}"), detail)
}

struct Model {
    sh: Sh,
    max: usize,
    /// bytes of the last fill_buf not yet consumed
    shown: usize,
    /// bytes the adapter acknowledged from the caller
    accepted: usize,
    closed: bool,
    labels: Vec<String>,
    progress_events: usize,
}

impl Model {
    fn out(&self) -> usize {
        self.sh.borrow().out
    }

    fn unread(&self) -> usize {
        let i = self.sh.borrow();
        i.delivered - i.out
    }

    /// Bytes handed to the caller must be the next bytes of the inner stream.
    fn handed(&mut self, bytes: &[u8], consume: bool, what: &str) -> Result<(), Outcome> {
        let (out, delivered) = {
            let i = self.sh.borrow();
            (i.out, i.delivered)
        };
        if bytes.len() > delivered - out {
            return Err(v(&format!("{what}/bytes-from-nowhere"), format!("{what} returned {} bytes, only {} delivered bytes are unread", bytes.len(), delivered - out)));
        }
        for (k, b) in bytes.iter().enumerate() {
            if *b != rbyte(out + k) {
                return Err(v(
                    &format!("{what}/wrong-bytes"),
                    format!("{what} returned {:?} at stream offset {out}; expected {:?} (lost, duplicated or reordered bytes)", bytes, (0..bytes.len()).map(|k| rbyte(out + k)).collect::<Vec<_>>()),
                ));
            }
        }
        if consume {
            self.sh.borrow_mut().out += bytes.len();
        }
        Ok(())
    }

    fn eof_claim(&self, what: &str) -> Result<(), Outcome> {
        let i = self.sh.borrow();
        if i.delivered > i.out {
            return Err(v(&format!("{what}/eof-with-unread-data"), format!("{what} reports EOF while {} delivered bytes were never handed out", i.delivered - i.out)));
        }
        if !i.eof_delivered {
            return Err(v(&format!("{what}/false-eof"), format!("{what} reports EOF but the inner stream never returned Ok(0)")));
        }
        Ok(())
    }

    /// A (non-WouldBlock) error from the read side.
    fn read_error(&mut self, k: io::ErrorKind, what: &str) -> Result<(), Outcome> {
        if k == io::ErrorKind::OutOfMemory {
            if self.unread() >= self.max {
                self.labels.push("read-limit-reported".into());
                return Ok(());
            }
            return Err(v(&format!("{what}/spurious-out-of-memory"), format!("{what} reports OutOfMemory with {} unread bytes buffered, limit {}", self.unread(), self.max)));
        }
        let mut i = self.sh.borrow_mut();
        if let Some(p) = i.r.unreported.iter().position(|e| *e == k) {
            i.r.unreported.remove(p);
            self.labels.push("read-error-surfaced".into());
            Ok(())
        } else {
            Err(v(&format!("{what}/spurious-error"), format!("{what} failed with {k:?}, which the inner reader never produced")))
        }
    }

    fn write_error(&mut self, k: io::ErrorKind, what: &str) -> Result<(), Outcome> {
        let mut i = self.sh.borrow_mut();
        if k == io::ErrorKind::WriteZero && i.write_zero_unreported > 0 {
            i.write_zero_unreported -= 1;
            self.labels.push("write-zero-surfaced".into());
            return Ok(());
        }
        if let Some(p) = i.w.unreported.iter().position(|e| *e == k) {
            i.w.unreported.remove(p);
            self.labels.push("write-error-surfaced".into());
            Ok(())
        } else {
            Err(v(&format!("{what}/spurious-error"), format!("{what} failed with {k:?}, which the inner writer never produced")))
        }
    }

    /// After every op: FIFO on the write side and both limits.
    fn invariants(&mut self, after: &str) -> Result<(), Outcome> {
        let i = self.sh.borrow();
        if i.received.len() > self.accepted {
            return Err(v("write/more-received-than-accepted", format!("after {after}: inner writer received {} bytes, the adapter acknowledged {}", i.received.len(), self.accepted)));
        }
        for (k, b) in i.received.iter().enumerate() {
            if *b != wbyte(k) {
                return Err(v(
                    "write/wrong-bytes",
                    format!("after {after}: inner writer received byte #{k} = {b}, expected {} (lost, duplicated or reordered bytes; received {:?})", wbyte(k), i.received),
                ));
            }
        }
        let buffered = self.accepted - i.received.len();
        if buffered > self.max {
            return Err(v("write-buffer-exceeds-max", format!("after {after}: {buffered} bytes buffered for writing, max_buffer_size {}", self.max)));
        }
        let unread = i.delivered - i.out;
        if unread > self.max {
            return Err(v("read-buffer-exceeds-max", format!("after {after}: {unread} unread bytes buffered, max_buffer_size {}", self.max)));
        }
        if i.writes_after_shutdown > 0 {
            return Err(v("write-after-shutdown", format!("after {after}: the inner writer was written to after its shutdown completed")));
        }
        Ok(())
    }

    fn wdata(&self, n: usize) -> Vec<u8> {
        (self.accepted..self.accepted + n).map(wbyte).collect()
    }

    fn flushed_ok(&self, what: &str) -> Result<(), Outcome> {
        let i = self.sh.borrow();
        if i.received.len() != self.accepted {
            return Err(v(
                &format!("{what}/ok-but-bytes-buffered"),
                format!("{what} succeeded, yet only {} of the {} acknowledged bytes reached the inner writer", i.received.len(), self.accepted),
            ));
        }
        Ok(())
    }
}

// ------------------------------------------------------------------------------------------------
// sync flavours

enum SyncObj {
    Whole(SyncStream<MockDuplex>),
    Halves(Option<SyncStreamReadHalf<MockR>>, SyncStreamWriteHalf<MockW>),
    /// the read side was consumed by into_parts
    WriteOnly(SyncStreamWriteHalf<MockW>),
    Gone,
}

/// Drive a servicing future to completion; the harness is the runtime: while the inner stream is
/// `Pending` it lets the harness steps pass until the mock wakes.
fn drive<F: std::future::Future>(sh: &Sh, f: F) -> F::Output {
    let mut f = std::pin::pin!(f);
    let mut cx = Context::from_waker(Waker::noop());
    for _ in 0..10_000 {
        if let Poll::Ready(x) = f.as_mut().poll(&mut cx) {
            return x;
        }
        let mut i = sh.borrow_mut();
        if !i.r.is_pending() && !i.w.is_pending() {
            panic!("servicing future is Pending although the inner stream is not");
        }
        i.r.tick(false);
        i.w.tick(false);
    }
    panic!("servicing future never completed");
}

impl SyncObj {
    fn reader(&mut self) -> Option<(&mut dyn Read, ())> {
        match self {
            SyncObj::Whole(s) => Some((s, ())),
            SyncObj::Halves(Some(r), _) => Some((r, ())),
            _ => None,
        }
    }

    fn fill_buf(&mut self) -> Option<io::Result<Vec<u8>>> {
        match self {
            SyncObj::Whole(s) => Some(s.fill_buf().map(|b| b.to_vec())),
            SyncObj::Halves(Some(r), _) => Some(r.fill_buf().map(|b| b.to_vec())),
            _ => None,
        }
    }

    fn consume(&mut self, k: usize) {
        match self {
            SyncObj::Whole(s) => s.consume(k),
            SyncObj::Halves(Some(r), _) => r.consume(k),
            _ => {}
        }
    }

    fn read_uninit(&mut self, buf: &mut [MaybeUninit<u8>]) -> Option<io::Result<usize>> {
        match self {
            SyncObj::Whole(s) => Some(s.read_buf_uninit(buf)),
            SyncObj::Halves(Some(r), _) => Some(r.read_buf_uninit(buf)),
            _ => None,
        }
    }

    fn is_eof(&self) -> Option<bool> {
        match self {
            SyncObj::Whole(s) => Some(s.is_eof()),
            SyncObj::Halves(Some(r), _) => Some(r.is_eof()),
            _ => None,
        }
    }

    fn writer(&mut self) -> Option<&mut dyn Write> {
        match self {
            SyncObj::Whole(s) => Some(s),
            SyncObj::Halves(_, w) | SyncObj::WriteOnly(w) => Some(w),
            SyncObj::Gone => None,
        }
    }

    fn has_pending_write(&self) -> Option<bool> {
        match self {
            SyncObj::Whole(s) => Some(s.has_pending_write()),
            SyncObj::Halves(_, w) | SyncObj::WriteOnly(w) => Some(w.has_pending_write()),
            SyncObj::Gone => None,
        }
    }

    fn service_read(&mut self, sh: &Sh) -> Option<io::Result<usize>> {
        match self {
            SyncObj::Whole(s) => Some(drive(sh, s.fill_read_buf())),
            SyncObj::Halves(Some(r), _) => Some(drive(sh, r.fill_read_buf())),
            _ => None,
        }
    }

    fn service_write(&mut self, sh: &Sh) -> Option<io::Result<usize>> {
        match self {
            SyncObj::Whole(s) => Some(drive(sh, s.flush_write_buf())),
            SyncObj::Halves(_, w) | SyncObj::WriteOnly(w) => Some(drive(sh, w.flush_write_buf())),
            SyncObj::Gone => None,
        }
    }

    fn into_parts(&mut self) -> Option<Vec<u8>> {
        match std::mem::replace(self, SyncObj::Gone) {
            SyncObj::Whole(s) => {
                let (_inner, rest) = s.into_parts();
                Some(rest)
            }
            SyncObj::Halves(Some(r), w) => {
                let (_inner, rest) = r.into_parts();
                *self = SyncObj::WriteOnly(w);
                Some(rest)
            }
            other => {
                *self = other;
                None
            }
        }
    }
}

fn sync_service_read(m: &mut Model, obj: &mut SyncObj, what: &str) -> Result<Option<usize>, Outcome> {
    let before = m.sh.borrow().delivered;
    let compaction = m.out() > 0 && m.unread() > 0;
    let Some(res) = obj.service_read(&m.sh) else { return Ok(None) };
    match res {
        Ok(k) => {
            let after = m.sh.borrow().delivered;
            if k != after - before {
                return Err(v("fill_read_buf/wrong-count", format!("{what}: fill_read_buf returned {k}, the inner stream delivered {} bytes during the call", after - before)));
            }
            if k == 0 && !m.sh.borrow().eof_delivered {
                return Err(v("fill_read_buf/false-eof", format!("{what}: fill_read_buf returned 0 but the inner stream never returned Ok(0)")));
            }
            if compaction && k > 0 {
                m.labels.push("compaction+refill".into());
                m.progress_events += 1;
            }
            Ok(Some(k))
        }
        Err(e) if e.kind() == io::ErrorKind::WouldBlock && !m.sh.borrow().r.unreported.contains(&io::ErrorKind::WouldBlock) => {
            Err(v("fill_read_buf/would-block", format!("{what}: the servicing call itself answered WouldBlock")))
        }
        Err(e) => {
            m.read_error(e.kind(), "fill_read_buf")?;
            Ok(None)
        }
    }
}

fn sync_service_write(m: &mut Model, obj: &mut SyncObj, what: &str) -> Result<bool, Outcome> {
    let before = m.sh.borrow().received.len();
    let Some(res) = obj.service_write(&m.sh) else { return Ok(false) };
    match res {
        Ok(k) => {
            let after = m.sh.borrow().received.len();
            if k != after - before {
                return Err(v("flush_write_buf/wrong-count", format!("{what}: flush_write_buf returned {k}, the inner writer accepted {} bytes during the call", after - before)));
            }
            m.flushed_ok("flush_write_buf")?;
            Ok(true)
        }
        Err(e) if e.kind() == io::ErrorKind::WouldBlock && !m.sh.borrow().w.unreported.contains(&io::ErrorKind::WouldBlock) => {
            Err(v("flush_write_buf/would-block", format!("{what}: the servicing call itself answered WouldBlock")))
        }
        Err(e) => {
            if before > 0 || m.sh.borrow().received.len() > before {
                m.labels.push("flush-failed-midway".into());
            }
            m.write_error(e.kind(), "flush_write_buf")?;
            Ok(false)
        }
    }
}

fn run_sync(case: &AdapterCase, m: &mut Model) -> Result<usize, Outcome> {
    let base = base_of(case.base);
    let sh = m.sh.clone();
    let mut obj = match case.flavour {
        Flavour::Sync => SyncObj::Whole(SyncStream::with_limits(base, m.max, MockDuplex { r: MockR(sh.clone()), w: MockW(sh.clone()) })),
        _ => {
            let (r, w) = Splittable::split(SyncStream::with_limits(base, m.max, (MockR(sh.clone()), MockW(sh.clone()))));
            SyncObj::Halves(Some(r), w)
        }
    };
    let mut executed = 0;
    for (oi, op) in case.ops.iter().enumerate() {
        let what = format!("op #{oi} {:?}", op.kind);
        match op.kind {
            AdKind::Read(n) | AdKind::ReadUninit(n) => {
                let uninit = matches!(op.kind, AdKind::ReadUninit(_));
                let name = if uninit { "read_buf_uninit" } else { "read" };
                let n = n as usize;
                let mut attempt = 0;
                loop {
                    let mut buf = vec![0u8; n];
                    let res = if uninit {
                        let mut ub: Vec<MaybeUninit<u8>> = vec![MaybeUninit::new(0xEE); n];
                        let Some(r) = obj.read_uninit(&mut ub) else { break };
                        if let Ok(k) = r {
                            for i in 0..k.min(n) {
                                buf[i] = unsafe { ub[i].assume_init() };
                            }
                        }
                        r
                    } else {
                        let Some((r, _)) = obj.reader() else { break };
                        r.read(&mut buf)
                    };
                    m.shown = 0;
                    match res {
                        Ok(0) if n > 0 => {
                            m.eof_claim(name)?;
                            m.labels.push("read:eof".into());
                        }
                        Ok(k) => {
                            if k > n {
                                return Err(v(&format!("{name}/count-too-large"), format!("{what}: returned {k} for a buffer of {n}")));
                            }
                            m.handed(&buf[..k], true, name)?;
                            m.labels.push(name.into());
                        }
                        Err(e) if e.kind() == io::ErrorKind::WouldBlock => {
                            if attempt > 0 {
                                return Err(v(&format!("{name}/no-progress-after-service"), format!("{what}: fill_read_buf succeeded, the retry still answers WouldBlock")));
                            }
                            m.labels.push("read:would-block".into());
                            match sync_service_read(m, &mut obj, &what)? {
                                Some(_) => {
                                    attempt += 1;
                                    continue;
                                }
                                None => {}
                            }
                        }
                        Err(e) => return Err(v(&format!("{name}/unexpected-error"), format!("{what}: sync read failed with {e:?}"))),
                    }
                    break;
                }
            }
            AdKind::FillBuf => {
                let mut attempt = 0;
                loop {
                    let Some(res) = obj.fill_buf() else { break };
                    match res {
                        Ok(s) if s.is_empty() => {
                            m.eof_claim("fill_buf")?;
                            m.shown = 0;
                        }
                        Ok(s) => {
                            m.handed(&s, false, "fill_buf")?;
                            m.shown = s.len();
                            m.labels.push("fill_buf".into());
                        }
                        Err(e) if e.kind() == io::ErrorKind::WouldBlock => {
                            if attempt > 0 {
                                return Err(v("fill_buf/no-progress-after-service", format!("{what}: fill_read_buf succeeded, the retry still answers WouldBlock")));
                            }
                            if sync_service_read(m, &mut obj, &what)?.is_some() {
                                attempt += 1;
                                continue;
                            }
                        }
                        Err(e) => return Err(v("fill_buf/unexpected-error", format!("{what}: fill_buf failed with {e:?}"))),
                    }
                    break;
                }
            }
            AdKind::Consume(k) => {
                if m.shown == 0 {
                    continue;
                }
                let k = mono_range(k, 0, m.shown);
                obj.consume(k);
                m.shown -= k;
                sh.borrow_mut().out += k;
                if k > 0 && m.unread() > 0 {
                    m.labels.push("consume:partial".into());
                }
            }
            AdKind::Write(n) => {
                let d = m.wdata(n as usize);
                let mut attempt = 0;
                loop {
                    let Some(w) = obj.writer() else { break };
                    match w.write(&d) {
                        Ok(k) => {
                            if k > d.len() || (k == 0 && !d.is_empty()) {
                                return Err(v("write/bad-count", format!("{what}: write of {} bytes returned {k}", d.len())));
                            }
                            m.accepted += k;
                            if k < d.len() {
                                m.labels.push("write:partial(limit)".into());
                                m.progress_events += 1;
                            } else {
                                m.labels.push("write".into());
                            }
                        }
                        Err(e) if e.kind() == io::ErrorKind::WouldBlock => {
                            if attempt > 0 {
                                if d.is_empty() {
                                    break;
                                }
                                return Err(v("write/no-progress-after-service", format!("{what}: flush_write_buf completed, the retry still answers WouldBlock")));
                            }
                            m.labels.push("write:would-block".into());
                            if sync_service_write(m, &mut obj, &what)? {
                                attempt += 1;
                                continue;
                            }
                        }
                        Err(e) => return Err(v("write/unexpected-error", format!("{what}: sync write failed with {e:?}"))),
                    }
                    break;
                }
            }
            AdKind::Flush | AdKind::Close => {
                let Some(w) = obj.writer() else { continue };
                if let Err(e) = w.flush() {
                    return Err(v("flush/unexpected-error", format!("{what}: sync flush failed with {e:?}")));
                }
            }
            AdKind::ServiceRead => {
                sync_service_read(m, &mut obj, &what)?;
            }
            AdKind::ServiceWrite => {
                sync_service_write(m, &mut obj, &what)?;
            }
            AdKind::IntoParts => {
                let (out, delivered) = (m.out(), sh.borrow().delivered);
                if let Some(rest) = obj.into_parts() {
                    let want: Vec<u8> = (out..delivered).map(rbyte).collect();
                    if rest != want {
                        return Err(v("into_parts/wrong-bytes", format!("{what}: into_parts returned {:?}, the unread bytes are {:?}", rest, want)));
                    }
                    sh.borrow_mut().out = delivered;
                    m.shown = 0;
                    m.labels.push("into_parts".into());
                }
            }
        }
        executed += 1;
        if let Some(e) = obj.is_eof() {
            if e != sh.borrow().eof_delivered {
                return Err(v("is_eof/wrong", format!("after {what}: is_eof() = {e}, inner stream returned Ok(0): {}", sh.borrow().eof_delivered)));
            }
        }
        if let Some(p) = obj.has_pending_write() {
            let want = m.accepted > sh.borrow().received.len();
            if p != want {
                return Err(v("has_pending_write/wrong", format!("after {what}: has_pending_write() = {p}, but {} acknowledged bytes are unsent", m.accepted - sh.borrow().received.len())));
            }
        }
        m.invariants(&what)?;
    }
    // ---- final drain: the inner stream now accepts / delivers without faults
    {
        let mut i = sh.borrow_mut();
        let keep = i.w.ip.min(i.w.sched.len());
        i.w.sched.truncate(keep);
        i.w.armed = None;
    }
    if obj.writer().is_some() {
        for round in 0..3 {
            if sync_service_write(m, &mut obj, "final flush")? {
                break;
            }
            if round == 2 {
                return Err(v("final-flush-failed", "flush_write_buf against an all-accepting inner writer keeps failing".into()));
            }
        }
        m.invariants("final flush")?;
    }
    Ok(executed)
}

// ------------------------------------------------------------------------------------------------
// poll flavours

enum PollObj {
    Whole(Pin<Box<AsyncStream<(MockR, MockW)>>>),
    Halves(Pin<Box<AsyncReadStream<MockR>>>, Pin<Box<AsyncWriteStream<MockW>>>),
}

#[derive(Debug, Clone, Copy, PartialEq, Eq)]
enum Entry {
    Read,
    ReadUninit,
    FillBuf,
    Write,
    Flush,
    Close,
}

impl Entry {
    fn is_read(self) -> bool {
        matches!(self, Entry::Read | Entry::ReadUninit | Entry::FillBuf)
    }
}

#[derive(Debug, Clone)]
struct Parked {
    entry: Entry,
    /// size argument of the parked call
    n: usize,
    /// data of a parked write
    data: Vec<u8>,
    wakes_at_park: usize,
}

enum PollOut {
    Bytes(io::Result<Vec<u8>>),
    Count(io::Result<usize>),
    Unit(io::Result<()>),
}

impl PollObj {
    fn poll(&mut self, entry: Entry, n: usize, data: &[u8], cx: &mut Context<'_>) -> Poll<PollOut> {
        match entry {
            Entry::Read => {
                let mut buf = vec![0u8; n];
                let p = match self {
                    PollObj::Whole(s) => s.as_mut().poll_read(cx, &mut buf),
                    PollObj::Halves(r, _) => r.as_mut().poll_read(cx, &mut buf),
                };
                p.map(|r| {
                    PollOut::Bytes(r.map(|k| {
                        assert!(k <= n, "HARNESS-ORACLE poll_read returned more than the buffer holds");
                        buf.truncate(k);
                        buf
                    }))
                })
            }
            Entry::ReadUninit => {
                let mut ub: Vec<MaybeUninit<u8>> = vec![MaybeUninit::new(0xEE); n];
                let p = match self {
                    PollObj::Whole(s) => s.as_mut().poll_read_uninit(cx, &mut ub),
                    PollObj::Halves(r, _) => r.as_mut().poll_read_uninit(cx, &mut ub),
                };
                p.map(|r| {
                    PollOut::Bytes(r.map(|k| {
                        assert!(k <= n, "HARNESS-ORACLE poll_read_uninit returned more than the buffer holds");
                        ub[..k].iter().map(|b| unsafe { b.assume_init() }).collect()
                    }))
                })
            }
            Entry::FillBuf => {
                let p = match self {
                    PollObj::Whole(s) => s.as_mut().poll_fill_buf(cx).map(|r| r.map(|b| b.to_vec())),
                    PollObj::Halves(r, _) => r.as_mut().poll_fill_buf(cx).map(|r| r.map(|b| b.to_vec())),
                };
                p.map(PollOut::Bytes)
            }
            Entry::Write => {
                let p = match self {
                    PollObj::Whole(s) => s.as_mut().poll_write(cx, data),
                    PollObj::Halves(_, w) => w.as_mut().poll_write(cx, data),
                };
                p.map(PollOut::Count)
            }
            Entry::Flush => {
                let p = match self {
                    PollObj::Whole(s) => s.as_mut().poll_flush(cx),
                    PollObj::Halves(_, w) => w.as_mut().poll_flush(cx),
                };
                p.map(PollOut::Unit)
            }
            Entry::Close => {
                let p = match self {
                    PollObj::Whole(s) => s.as_mut().poll_close(cx),
                    PollObj::Halves(_, w) => w.as_mut().poll_close(cx),
                };
                p.map(PollOut::Unit)
            }
        }
    }

    fn consume(&mut self, k: usize) {
        match self {
            PollObj::Whole(s) => s.as_mut().consume(k),
            PollObj::Halves(r, _) => r.as_mut().consume(k),
        }
    }
}

struct PollRun {
    tasks: [Task; 3],
    parked: [Option<Parked>; 3],
    /// which task owns the waker slot of each entry point (the most recent one to park there)
    owner: [Option<usize>; 6],
}

fn eix(e: Entry) -> usize {
    match e {
        Entry::Read => 0,
        Entry::ReadUninit => 1,
        Entry::FillBuf => 2,
        Entry::Write => 3,
        Entry::Flush => 4,
        Entry::Close => 5,
    }
}

impl PollRun {
    /// Poll `entry` from task `t` once and judge the outcome.  Returns true when it was Ready.
    fn poll_once(&mut self, m: &mut Model, obj: &mut PollObj, t: usize, entry: Entry, n: usize, data: Vec<u8>, what: &str) -> Result<bool, Outcome> {
        let waker = self.tasks[t].waker.clone();
        let mut cx = Context::from_waker(&waker);
        let before_unread = m.unread();
        let before_buffered = m.accepted - m.sh.borrow().received.len();
        // every poll function stores the caller's waker in its own slot first: a task that parked
        // there earlier is superseded (only the most recent waker per poll function is owed a wake-up)
        if let Some(prev) = self.owner[eix(entry)] {
            if prev != t && self.parked[prev].as_ref().is_some_and(|p| p.entry == entry) {
                self.parked[prev] = None;
                m.labels.push("waker-slot-taken-over".into());
            }
        }
        let out = obj.poll(entry, n, &data, &mut cx);
        let name = match entry {
            Entry::Read => "poll_read",
            Entry::ReadUninit => "poll_read_uninit",
            Entry::FillBuf => "poll_fill_buf",
            Entry::Write => "poll_write",
            Entry::Flush => "poll_flush",
            Entry::Close => "poll_close",
        };
        match out {
            Poll::Pending => {
                let i = m.sh.borrow();
                let inner_pending = if entry.is_read() { i.r.is_pending() } else { i.w.is_pending() };
                drop(i);
                if !inner_pending {
                    return Err(v(&format!("{name}/pending-but-inner-ready"), format!("{what}: returned Pending although the inner stream is not pending: nobody will ever wake this task")));
                }
                self.owner[eix(entry)] = Some(t);
                self.parked[t] = Some(Parked { entry, n, data, wakes_at_park: self.tasks[t].wakes() });
                m.labels.push(format!("{name}:pending"));
                if (entry.is_read() && before_unread > 0) || (!entry.is_read() && before_buffered > 0) {
                    m.labels.push("pending-with-buffered-data".into());
                    m.progress_events += 1;
                }
                Ok(false)
            }
            Poll::Ready(r) => {
                self.parked[t] = None;
                if self.owner[eix(entry)] == Some(t) {
                    self.owner[eix(entry)] = None;
                }
                match (entry, r) {
                    (Entry::Read | Entry::ReadUninit, PollOut::Bytes(Ok(b))) => {
                        m.shown = 0;
                        if b.is_empty() && n > 0 {
                            m.eof_claim(name)?;
                            m.labels.push("read:eof".into());
                        } else {
                            m.handed(&b, true, name)?;
                            m.labels.push(name.into());
                        }
                    }
                    (Entry::FillBuf, PollOut::Bytes(Ok(b))) => {
                        if b.is_empty() {
                            m.eof_claim(name)?;
                            m.shown = 0;
                        } else {
                            m.handed(&b, false, name)?;
                            m.shown = b.len();
                            m.labels.push(name.into());
                        }
                    }
                    (_, PollOut::Bytes(Err(e))) => m.read_error(e.kind(), name)?,
                    (Entry::Write, PollOut::Count(Ok(k))) => {
                        if k > data.len() || (k == 0 && !data.is_empty()) {
                            return Err(v("poll_write/bad-count", format!("{what}: poll_write of {} bytes returned {k}", data.len())));
                        }
                        // the data of a parked write was chosen when it parked; other tasks may have
                        // written since, so it is only valid if it still continues the stream
                        m.accepted += k;
                        m.labels.push(if k < data.len() { "poll_write:partial".into() } else { "poll_write".into() });
                    }
                    (Entry::Flush, PollOut::Unit(Ok(()))) => {
                        m.flushed_ok(name)?;
                        m.labels.push(name.into());
                    }
                    (Entry::Close, PollOut::Unit(Ok(()))) => {
                        m.flushed_ok(name)?;
                        let i = m.sh.borrow();
                        if i.shutdowns != 1 {
                            return Err(v("poll_close/shutdown-count", format!("{what}: poll_close succeeded, the inner writer saw {} shutdown calls", i.shutdowns)));
                        }
                        drop(i);
                        m.closed = true;
                        m.labels.push(name.into());
                    }
                    (_, PollOut::Count(Err(e))) | (_, PollOut::Unit(Err(e))) => m.write_error(e.kind(), name)?,
                    _ => unreachable!(),
                }
                Ok(true)
            }
        }
    }

    /// One harness step for both directions; checks the wake-up rule when a mock fires.
    fn tick(&mut self, m: &mut Model, force: bool) -> Result<bool, Outcome> {
        let mut fired_any = false;
        for read_half in [true, false] {
            let fired = {
                let mut i = m.sh.borrow_mut();
                if read_half {
                    i.r.tick(force)
                } else {
                    i.w.tick(force)
                }
            };
            if !fired {
                continue;
            }
            fired_any = true;
            m.labels.push("inner-wake".into());
            let mut woken = 0;
            for t in 0..3 {
                if let Some(p) = &self.parked[t] {
                    if p.entry.is_read() == read_half && self.owner[eix(p.entry)] == Some(t) {
                        if self.tasks[t].wakes() <= p.wakes_at_park {
                            return Err(v(
                                &format!("lost-wakeup/{:?}", p.entry),
                                format!("the inner {} became ready, but task {t} parked in {:?} was not woken", if read_half { "reader" } else { "writer" }, p.entry),
                            ));
                        }
                        woken += 1;
                    }
                }
            }
            if woken >= 2 {
                m.labels.push("wake:multiple-tasks".into());
            }
        }
        Ok(fired_any)
    }
}

/// Is a flush future of the adapter suspended inside the inner writer's flush/shutdown?
fn flush_suspended(sh: &Sh) -> bool {
    let i = sh.borrow();
    i.w.armed.is_some() && i.w_in_flush
}

fn run_poll(case: &AdapterCase, m: &mut Model) -> Result<usize, Outcome> {
    let base = base_of(case.base);
    let sh = m.sh.clone();
    let whole = AsyncStream::with_limits(base, m.max, (MockR(sh.clone()), MockW(sh.clone())));
    let mut obj = match case.flavour {
        Flavour::Poll => PollObj::Whole(Box::pin(whole)),
        _ => {
            let (r, w) = whole.split();
            PollObj::Halves(Box::pin(r), Box::pin(w))
        }
    };
    let mut run = PollRun { tasks: [Task::new(), Task::new(), Task::new()], parked: [None, None, None], owner: [None; 6] };
    let mut executed = 0;
    let mut close_started = false;
    for (oi, op) in case.ops.iter().enumerate() {
        let t = op.task as usize % 3;
        let what = format!("op #{oi} {:?} by task {t}", op.kind);
        let wanted: Option<(Entry, usize)> = match op.kind {
            AdKind::Read(n) => Some((Entry::Read, n as usize)),
            AdKind::ReadUninit(n) => Some((Entry::ReadUninit, n as usize)),
            AdKind::FillBuf | AdKind::ServiceRead => Some((Entry::FillBuf, 0)),
            // once a close has been initiated the caller may only drive the close to completion
            AdKind::Write(n) => Some((if close_started { Entry::Close } else { Entry::Write }, n as usize)),
            AdKind::Flush | AdKind::ServiceWrite => Some((if close_started { Entry::Close } else { Entry::Flush }, 0)),
            AdKind::Close => {
                close_started = true;
                Some((Entry::Close, 0))
            }
            AdKind::Consume(_) | AdKind::IntoParts => None,
        };
        match wanted {
            None => {
                if let AdKind::Consume(k) = op.kind {
                    if m.shown == 0 {
                        continue;
                    }
                    let k = mono_range(k, 0, m.shown);
                    obj.consume(k);
                    m.shown -= k;
                    sh.borrow_mut().out += k;
                    if k > 0 && m.unread() > 0 {
                        m.labels.push("consume:partial".into());
                    }
                } else {
                    continue;
                }
            }
            Some((mut entry, n)) => {
                // known defect shape (a write accepted while the flush future is suspended in the
                // inner flush): kept out unless the case opts in; the task flushes instead
                if entry == Entry::Write && !case.stale_flush && flush_suspended(&sh) {
                    m.labels.push("known-shape-avoided:write-under-flush".into());
                    entry = Entry::Flush;
                }
                // a parked task re-polls its call when the program picks the same entry point
                // (a spurious poll unless it was woken), otherwise it abandons it for the new one
                let (entry, n, data) = match run.parked[t].clone() {
                    Some(p) if p.entry == entry => {
                        m.labels.push(if run.tasks[t].wakes() > p.wakes_at_park { "repoll-after-wake".into() } else { "spurious-repoll".into() });
                        // a parked write offers what continues the stream *now*
                        let data = if p.entry == Entry::Write { m.wdata(p.n) } else { p.data };
                        (p.entry, p.n, data)
                    }
                    other => {
                        if other.is_some() {
                            m.labels.push("abandoned-pending-call".into());
                            run.parked[t] = None;
                        }
                        let data = if entry == Entry::Write { m.wdata(n) } else { vec![] };
                        (entry, n, data)
                    }
                };
                let compaction = entry.is_read() && m.out() > 0 && m.unread() > 0;
                let before = sh.borrow().delivered;
                run.poll_once(m, &mut obj, t, entry, n, data, &what)?;
                if compaction && sh.borrow().delivered > before {
                    m.labels.push("compaction+refill".into());
                    m.progress_events += 1;
                }
            }
        }
        executed += 1;
        m.invariants(&what)?;
        run.tick(m, false)?;
    }

    // ---- quiescence: every parked task must finish once the inner stream stops misbehaving
    {
        let mut i = sh.borrow_mut();
        let (rip, wip) = (i.r.ip, i.w.ip);
        let keep_r = if i.r.is_pending() || i.r.armed.is_some() { rip + 1 } else { rip };
        let keep_w = if i.w.is_pending() || i.w.armed.is_some() { wip + 1 } else { wip };
        let rl = i.r.sched.len();
        i.r.sched.truncate(keep_r.min(rl));
        let wl = i.w.sched.len();
        i.w.sched.truncate(keep_w.min(wl));
    }
    for round in 0..64 {
        run.tick(m, true)?;
        let mut any = false;
        for t in 0..3 {
            if let Some(mut p) = run.parked[t].clone() {
                if p.entry == Entry::Write && !case.stale_flush && flush_suspended(&sh) {
                    p.entry = Entry::Flush;
                }
                // once a close was started every writer task only drives the close
                if close_started && matches!(p.entry, Entry::Write | Entry::Flush) {
                    p.entry = Entry::Close;
                }
                // orphaned tasks (their waker slot was taken over) are not owed a wake-up; they
                // re-poll like everybody else here
                any = true;
                let data = if p.entry == Entry::Write { m.wdata(p.n) } else { p.data.clone() };
                run.poll_once(m, &mut obj, t, p.entry, p.n, data, &format!("quiescence round {round}, task {t} {:?}", p.entry))?;
                m.invariants("quiescence")?;
            }
        }
        if !any {
            break;
        }
        if round == 63 {
            return Err(v("poll/stuck", "a parked task never completes although the inner stream is ready and every wake-up was delivered".into()));
        }
    }
    // ---- final flush (unless a close was started): everything acknowledged must arrive
    if close_started && !m.closed {
        for round in 0..64 {
            run.tick(m, true)?;
            if run.poll_once(m, &mut obj, 0, Entry::Close, 0, vec![], "final poll_close")? && m.closed {
                break;
            }
            if round == 63 {
                return Err(v("poll/final-close-stuck", "poll_close never completes against an all-accepting inner writer".into()));
            }
        }
        run.parked[0] = None;
        m.invariants("final close")?;
    }
    if !close_started {
        for round in 0..64 {
            run.tick(m, true)?;
            if run.poll_once(m, &mut obj, 0, Entry::Flush, 0, vec![], "final poll_flush")? {
                if sh.borrow().received.len() == m.accepted {
                    break;
                }
            }
            if round == 63 {
                return Err(v("poll/final-flush-stuck", "poll_flush never completes against an all-accepting inner writer".into()));
            }
        }
        run.parked[0] = None;
        m.invariants("final flush")?;
    }
    Ok(executed)
}

// ------------------------------------------------------------------------------------------------

pub fn run_adapter(case: &AdapterCase) -> Outcome {
    let base = base_of(case.base);
    let max = match case.max {
        MaxSpec::Base => base,
        MaxSpec::Twice => 2 * base,
        MaxSpec::Unlimited => UNLIMITED,
    };
    let sh: Sh = Rc::new(RefCell::new(Inner {
        r: Half::new(case.rsched.clone()),
        w: Half::new(case.wsched.clone()),
        delivered: 0,
        eof_delivered: false,
        out: 0,
        received: vec![],
        write_zero_unreported: 0,
        flushes: 0,
        shutdowns: 0,
        writes_after_shutdown: 0,
        max,
        polite: case.polite,
        budget: 50_000,
        read_calls: 0,
        partial_deliveries: 0,
        partial_with_buffered: 0,
        w_in_flush: false,
    }));
    let mut m = Model { sh: sh.clone(), max, shown: 0, accepted: 0, closed: false, labels: vec![], progress_events: 0 };
    m.labels.push(format!("flavour:{:?}", case.flavour));
    m.labels.push(format!("base:{base}"));
    m.labels.push(format!("max:{:?}", case.max));
    if !case.polite && case.max != MaxSpec::Unlimited {
        m.labels.push("impolite-reader".into());
    }
    let res = match case.flavour {
        Flavour::Sync | Flavour::SyncHalves => run_sync(case, &mut m),
        Flavour::Poll | Flavour::PollHalves => run_poll(case, &mut m),
    };
    let executed = match res {
        Ok(n) => n,
        Err(o) => return o,
    };
    let i = sh.borrow();
    if i.r.pendings + i.w.pendings > 0 {
        m.labels.push("inner-pending".into());
    }
    if i.partial_deliveries > 0 && i.delivered - i.out > 0 {
        m.labels.push("partial-delivery".into());
    }
    // N: a Pending or partial transfer while data is buffered, or a compaction (consumed prefix +
    // refill)
    if i.partial_with_buffered > 0 {
        m.labels.push("partial-transfer-with-buffered-data".into());
    }
    let nontrivial = executed >= 2 && (m.progress_events > 0 || i.partial_with_buffered > 0);
    let mut labels = std::mem::take(&mut m.labels);
    labels.sort();
    labels.dedup();
    Outcome::pass_owned(nontrivial, labels)
}

// ------------------------------------------------------------------------------------------------
// generators

pub fn step_strategy(read: bool) -> impl Strategy<Value = InnerStep> + Clone {
    prop_oneof![
        8 => prop_oneof![3 => 1u16..=4, 2 => 1u16..=16, 1 => 1u16..=100].prop_map(InnerStep::Xfer),
        3 => (0u8..=4).prop_map(|wake_after| InnerStep::Pending { wake_after }),
        1 => errkind_strategy().prop_map(InnerStep::Fail),
        1 => Just(if read { InnerStep::Xfer(2) } else { InnerStep::Eof }),
    ]
}

pub fn op_strategy(poll: bool) -> SBoxedStrategy<AdOp> {
    let n = prop_oneof![1 => Just(0u8), 2 => Just(1u8), 5 => 1u8..=12, 2 => 1u8..=150];
    let common = prop_oneof![
        5 => n.clone().prop_map(AdKind::Read),
        3 => Just(AdKind::FillBuf),
        4 => any::<u16>().prop_map(AdKind::Consume),
        1 => Just(AdKind::Consume(u16::MAX)),
        2 => n.clone().prop_map(AdKind::ReadUninit),
        7 => n.prop_map(AdKind::Write),
        3 => Just(AdKind::Flush),
    ];
    let kind = if poll {
        prop_oneof![25 => common, 1 => Just(AdKind::Close)].sboxed()
    } else {
        prop_oneof![25 => common, 8 => Just(AdKind::ServiceRead), 4 => Just(AdKind::ServiceWrite), 1 => Just(AdKind::IntoParts)].sboxed()
    };
    (kind, 0u8..3).prop_map(|(kind, task)| AdOp { kind, task }).sboxed()
}

pub fn case_strategy() -> impl Strategy<Value = AdapterCase> + Clone {
    let flavour = prop_oneof![3 => Just(Flavour::Sync), 1 => Just(Flavour::SyncHalves), 4 => Just(Flavour::Poll), 2 => Just(Flavour::PollHalves)];
    flavour.prop_flat_map(|flavour| {
        let poll = matches!(flavour, Flavour::Poll | Flavour::PollHalves);
        (
            0u8..4,
            prop_oneof![2 => Just(MaxSpec::Base), 2 => Just(MaxSpec::Twice), 3 => Just(MaxSpec::Unlimited)],
            (vec(step_strategy(true), 0..=14), prop_oneof![2 => Just(false), 1 => Just(true)]).prop_map(|(mut v, eof)| {
                if eof {
                    v.push(InnerStep::Eof);
                }
                v
            }),
            vec(step_strategy(false), 0..=14),
            vec(op_strategy(poll), 1..=24),
            prop_oneof![9 => Just(true), 1 => Just(false)],
            prop_oneof![9 => Just(false), 1 => Just(true)],
        )
            .prop_map(move |(base, max, rsched, wsched, ops, polite, stale_flush)| AdapterCase { base, max, flavour, rsched, wsched, ops, polite, stale_flush })
    })
}
