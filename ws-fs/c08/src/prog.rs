//! Case type of C08: a program over one temp directory, open files and anonymous pipes.
use serde::{Deserialize, Serialize};

use crate::bufs::{BufSpec, VSpec};

/// relative paths of the little name space every program works in
pub const PATHS: &[&str] = &["a", "b", "c", "d", "d/x", "d/y", "e", "e/f", "e/f/g", "s", "t", "d/s"];
/// symlink targets (relative, never leaving the case directory)
pub const TARGETS: &[&str] = &["a", "b", "d", "x", "d/x", "nonexistent", "s", "e/f"];
/// offsets / sizes at the edge of the offset type
pub const EDGES: &[u64] = &[i64::MAX as u64, 1 << 63, u64::MAX - 1, u64::MAX];

#[derive(Debug, Clone, Copy, Serialize, Deserialize, PartialEq)]
pub enum Pos {
    At(u16),
    /// 65_000 + x: far beyond anything the small writes produce, crossing several pages
    Far(u16),
    /// index into `EDGES`
    Edge(u8),
}

impl Pos {
    pub fn value(self) -> u64 {
        match self {
            Pos::At(x) => x as u64,
            Pos::Far(x) => 65_000 + x as u64,
            Pos::Edge(i) => EDGES[i as usize % EDGES.len()],
        }
    }
}

#[derive(Debug, Clone, Copy, Serialize, Deserialize, PartialEq)]
pub enum Via {
    Options,
    /// `File::open(path)`
    FileOpen,
    /// `File::create(path)`
    FileCreate,
}

#[derive(Debug, Clone, Copy, Serialize, Deserialize, PartialEq)]
pub enum Custom {
    None,
    Append,
    NoFollow,
    Directory,
    /// access-mode bits inside the custom flag word: the OS-facing API (std) ignores them, the access mode
    /// is chosen by read()/write() alone
    AccWrOnly,
    AccRdWr,
    AccRdWrAppend,
}

impl Custom {
    pub fn flags(self) -> i32 {
        match self {
            Custom::None => 0,
            Custom::Append => libc::O_APPEND,
            Custom::NoFollow => libc::O_NOFOLLOW,
            Custom::Directory => libc::O_DIRECTORY,
            Custom::AccWrOnly => libc::O_WRONLY,
            Custom::AccRdWr => libc::O_RDWR,
            Custom::AccRdWrAppend => libc::O_RDWR | libc::O_APPEND,
        }
    }
}

#[derive(Debug, Clone, Serialize, Deserialize, PartialEq)]
pub struct Opts {
    pub via: Via,
    pub read: bool,
    pub write: bool,
    pub create: bool,
    pub truncate: bool,
    pub create_new: bool,
    pub custom: Custom,
    pub mode: Option<u16>,
}

#[derive(Debug, Clone, Serialize, Deserialize, PartialEq)]
pub enum Step {
    Open { path: u8, opts: Opts },
    Close { h: u16 },
    ReadAt { h: u16, buf: BufSpec, pos: Pos },
    WriteAt { h: u16, buf: BufSpec, pos: Pos },
    ReadVAt { h: u16, bufs: VSpec, pos: Pos },
    WriteVAt { h: u16, bufs: VSpec, pos: Pos },
    SetLen { h: u16, size: Pos },
    Sync { h: u16, data: bool },
    Meta { h: u16 },
    SetPerm { h: u16, mode: u16 },
    PathMeta { path: u8, follow: bool },
    PathSetPerm { path: u8, mode: u16 },
    CreateDir { path: u8 },
    CreateDirAll { path: u8 },
    RemoveFile { path: u8 },
    RemoveDir { path: u8 },
    Rename { from: u8, to: u8 },
    HardLink { from: u8, to: u8 },
    Symlink { target: u8, link: u8 },
    FsRead { path: u8 },
    FsWrite { path: u8, buf: BufSpec },
    PipeNew,
    PipeWrite { p: u16, buf: BufSpec },
    PipeWriteV { p: u16, bufs: VSpec },
    PipeRead { p: u16, buf: BufSpec },
    PipeReadV { p: u16, bufs: VSpec },
    PipeCloseTx { p: u16 },
    PipeCloseRx { p: u16 },
}

impl Step {
    pub fn name(&self) -> &'static str {
        match self {
            Step::Open { .. } => "open",
            Step::Close { .. } => "close",
            Step::ReadAt { .. } => "read_at",
            Step::WriteAt { .. } => "write_at",
            Step::ReadVAt { .. } => "read_vectored_at",
            Step::WriteVAt { .. } => "write_vectored_at",
            Step::SetLen { .. } => "set_len",
            Step::Sync { .. } => "sync",
            Step::Meta { .. } => "file_metadata",
            Step::SetPerm { .. } => "file_set_permissions",
            Step::PathMeta { .. } => "metadata",
            Step::PathSetPerm { .. } => "set_permissions",
            Step::CreateDir { .. } => "create_dir",
            Step::CreateDirAll { .. } => "create_dir_all",
            Step::RemoveFile { .. } => "remove_file",
            Step::RemoveDir { .. } => "remove_dir",
            Step::Rename { .. } => "rename",
            Step::HardLink { .. } => "hard_link",
            Step::Symlink { .. } => "symlink",
            Step::FsRead { .. } => "fs_read",
            Step::FsWrite { .. } => "fs_write",
            Step::PipeNew => "pipe_new",
            Step::PipeWrite { .. } => "pipe_write",
            Step::PipeWriteV { .. } => "pipe_write_vectored",
            Step::PipeRead { .. } => "pipe_read",
            Step::PipeReadV { .. } => "pipe_read_vectored",
            Step::PipeCloseTx { .. } => "pipe_close_tx",
            Step::PipeCloseRx { .. } => "pipe_close_rx",
        }
    }
}

#[derive(Debug, Clone, Serialize, Deserialize, PartialEq)]
pub struct Prog {
    /// small submission queue (4 entries) instead of the default 1024
    pub small_queue: bool,
    /// regression cases of known findings set this: the shapes excluded from the campaign while a
    /// finding is listed as `known` are then executed as written
    #[serde(default)]
    pub keep_known: bool,
    /// regression cases only: run the polling driver alone (to reproduce a finding that the io_uring
    /// run of the same program would report first)
    #[serde(default)]
    pub poll_only: bool,
    pub steps: Vec<Step>,
}

/// Which known findings (status `known` in known_findings.json) are excluded by construction.
#[derive(Debug, Clone, Copy, Default)]
pub struct Known {
    /// vectored reads only fill the initialised part of the members
    pub readv_spare: bool,
    /// offset u64::MAX means "current file position" on io_uring
    pub off_max: bool,
}

impl Prog {
    /// The program as executed: shapes of known findings replaced by their nearest harmless
    /// neighbour (same for all three executions).  Returns the number of replaced shapes.
    pub fn effective(&self, known: Known) -> (Prog, usize) {
        let mut p = self.clone();
        let mut n = 0;
        if self.keep_known {
            return (p, 0);
        }
        for s in p.steps.iter_mut() {
            match s {
                Step::ReadVAt { pos, .. } => {
                    // file reads do not change any state: the spare-capacity shape stays in the program,
                    // the known mismatch on io_uring is tolerated at that step (see `run_case`) and the
                    // polling driver is still judged in full
                    if known.off_max && pos.value() == u64::MAX {
                        *pos = Pos::Edge(2);
                        n += 1;
                    }
                }
                Step::PipeReadV { bufs, .. } => {
                    if known.readv_spare {
                        n += fill_members(bufs);
                    }
                }
                Step::ReadAt { pos, .. } | Step::WriteAt { pos, .. } | Step::WriteVAt { pos, .. } => {
                    if known.off_max && pos.value() == u64::MAX {
                        *pos = Pos::Edge(2);
                        n += 1;
                    }
                }
                _ => {}
            }
        }
        (p, n)
    }
}

fn fill_members(v: &mut VSpec) -> usize {
    let mut n = 0;
    for m in v.members.iter_mut() {
        if m.1 > 0 {
            m.0 = m.0.saturating_add(m.1);
            m.1 = 0;
            n = 1;
        }
    }
    n
}

pub const MAX_FILES: usize = 4;
pub const MAX_PIPES: usize = 2;
/// a pipe never holds more than this many unread bytes / unread write calls, so no write can block
pub const PIPE_MAX_BYTES: usize = 4096;
pub const PIPE_MAX_WRITES: usize = 8;

// ------------------------------------------------------------------------------------------------
// observations

#[derive(Debug, Clone, PartialEq)]
pub struct Er {
    pub kind: String,
    pub errno: Option<i32>,
}

pub type Res = Result<u64, Er>;

pub fn conv_err(e: &std::io::Error) -> Er {
    Er { kind: format!("{:?}", e.kind()), errno: e.raw_os_error() }
}

pub trait ToCount {
    fn count(self) -> u64;
}
impl ToCount for usize {
    fn count(self) -> u64 {
        self as u64
    }
}
impl ToCount for () {
    fn count(self) -> u64 {
        0
    }
}

pub fn conv<T: ToCount>(r: std::io::Result<T>) -> Res {
    match r {
        Ok(n) => Ok(n.count()),
        Err(e) => Err(conv_err(&e)),
    }
}

pub fn conv_unit(r: std::io::Result<()>) -> Res {
    r.map(|_| 0).map_err(|e| conv_err(&e))
}

/// Results agree when both succeed with the same count, or both fail with the same raw errno
/// (the error kind when one side has no errno).  Error text is never compared.
pub fn res_eq(a: &Res, b: &Res) -> bool {
    match (a, b) {
        (Ok(x), Ok(y)) => x == y,
        (Err(x), Err(y)) => match (x.errno, y.errno) {
            (Some(p), Some(q)) => p == q,
            _ => x.kind == y.kind,
        },
        _ => false,
    }
}

#[derive(Debug, Clone, PartialEq)]
pub struct MetaObs {
    pub ftype: String,
    /// 0 for directories (their size is a file-system detail)
    pub len: u64,
    pub mode: u32,
    pub nlink: u64,
}

#[derive(Debug, Clone, PartialEq)]
pub enum Obs {
    /// the step was not applicable in the current state (no live handle, pipe would block, ...)
    Skip(&'static str),
    /// the step did not finish within the watchdog
    Hung,
    Op { res: Res, bufs: Vec<crate::bufs::BufObs>, meta: Option<MetaObs>, data: Option<Vec<u8>> },
    /// reference only, vectored file reads: additionally what the OS answers when the iovecs cover only
    /// the initialised part of every member (the shape of a known finding)
    OpAlt { main: Box<Obs>, alt_res: Res, alt_bufs: Vec<crate::bufs::BufObs> },
}

impl Obs {
    pub fn main(&self) -> &Obs {
        match self {
            Obs::OpAlt { main, .. } => main,
            o => o,
        }
    }

    pub fn res(res: Res) -> Obs {
        Obs::Op { res, bufs: vec![], meta: None, data: None }
    }
}

pub fn ftype_name(ft: &std::fs::FileType) -> &'static str {
    use std::os::unix::fs::FileTypeExt;
    if ft.is_dir() {
        "dir"
    } else if ft.is_file() {
        "file"
    } else if ft.is_symlink() {
        "symlink"
    } else if ft.is_fifo() {
        "fifo"
    } else {
        "other"
    }
}

/// pipe bookkeeping shared by all three executors (only used to avoid steps that would block)
#[derive(Debug, Default, Clone)]
pub struct PipeBook {
    pub bytes: usize,
    pub writes: usize,
}

impl PipeBook {
    pub fn wrote(&mut self, n: usize) {
        if n > 0 {
            self.bytes += n;
            self.writes += 1;
        }
    }

    pub fn read(&mut self, n: usize) {
        self.bytes = self.bytes.saturating_sub(n);
        if self.bytes == 0 {
            self.writes = 0;
        }
    }

    pub fn can_write(&self, n: usize) -> bool {
        self.bytes + n <= PIPE_MAX_BYTES && self.writes < PIPE_MAX_WRITES
    }
}
