//! Runtime lab (DESIGN.md §2.2), cancellation at the futures level — C05 part "rt".
//!
//! Generated programs of tasks on a harness-stepped compio `Runtime` (both drivers): each task
//! runs one interruptible operation (socket read or accept) through one of the three cancellation
//! routes of the property — a dropped future, a `CancelToken` (`with_cancel`, including tokens
//! fired before the operation is registered and fired twice), a `timeout` — or none (a
//! neighbour).  The harness owns the peer ends, so the awaited event happens only when a step
//! says so.
use std::{
    cell::RefCell,
    io::Write,
    net::{TcpListener, TcpStream},
    os::unix::net::UnixStream,
    rc::Rc,
    time::{Duration, Instant},
};

use compio_buf::BufResult;
use compio_driver::{
    verif::{set_sink, Event, SubmitPath},
    DriverType, ProactorBuilder,
};
use std::sync::atomic::{AtomicI64, Ordering};

/// operation storages currently alive in the driver (hook events; one case at a time per process)
static LIVE_OPS: AtomicI64 = AtomicI64::new(0);
static HOOKS: std::sync::Mutex<Vec<Event>> = std::sync::Mutex::new(Vec::new());
/// positions in HOOKS at which a zero-copy send handed its buffer back
static ZC_RETURNS: std::sync::Mutex<Vec<usize>> = std::sync::Mutex::new(Vec::new());

fn sink(e: Event) {
    HOOKS.lock().unwrap_or_else(|p| p.into_inner()).push(e);
    match e {
        Event::OpAlloc { .. } => {
            LIVE_OPS.fetch_add(1, Ordering::SeqCst);
        }
        Event::OpFree { .. } => {
            LIVE_OPS.fetch_sub(1, Ordering::SeqCst);
        }
        _ => {}
    }
}
use compio_io::AsyncRead;
use compio_runtime::{CancelToken, ErrorExt, FutureExt, JoinHandle, Runtime, RuntimeBuilder};
use serde::{Deserialize, Serialize};
use vcore::{
    mono_ix, mono_range,
    proptest::{collection::vec, prelude::*},
    Outcome, Part, Session,
};

#[derive(Debug, Clone, Copy, Serialize, Deserialize, PartialEq)]
pub enum Route {
    /// a neighbour: never cancelled
    Plain,
    Token(u8),
    TimeoutMs(u8),
    /// the operation future is dropped when signal #i fires (`select` against a oneshot)
    DropOn(u8),
}

#[derive(Debug, Clone, Copy, Serialize, Deserialize, PartialEq)]
pub enum What {
    Read,
    Accept,
    /// `spawn_blocking` of a job that waits for the lab's gate (thread-pool operation)
    Blocking,
    /// `write_zerocopy` on the TCP connection, then await the buffer-ready future
    SendZc,
}

#[derive(Debug, Clone, Serialize, Deserialize)]
pub struct TaskSpec {
    pub what: What,
    pub stream: u16,
    pub cap: u16,
    pub route: Route,
    /// for the token route: 0 = plain `with_cancel`, 1 = `op.with_personality(p).with_cancel(t)`,
    /// 2 = `op.with_cancel(t).with_personality(p)` (a personality is registered on io_uring, ignored on poll)
    #[serde(default)]
    pub pers: u8,
}

#[derive(Debug, Clone, Serialize, Deserialize)]
pub enum RStep {
    /// spawn the next not yet spawned task
    Spawn,
    Feed { stream: u16, n: u16 },
    Connect,
    CancelToken(u8),
    FireDrop(u8),
    /// run the scheduled tasks, then poll the driver (0 or up to 20 ms)
    Step { block: bool },
    /// drop the JoinHandle of task #i (cancels the task, its future is dropped by the next run)
    DropHandle(u8),
    /// drop the whole runtime with whatever is in flight (C01 part only)
    DropRuntime,
}

#[derive(Debug, Clone, Serialize, Deserialize)]
pub struct RtCase {
    pub iour: bool,
    pub cap_ix: u8,
    pub interval_ix: u8,
    pub tasks: Vec<TaskSpec>,
    pub steps: Vec<RStep>,
}

#[derive(Debug, Clone, PartialEq)]
enum Out {
    Data(Vec<u8>),
    Eof,
    Accepted(u16),
    Cancelled,
    TimedOut,
    Dropped,
    Failed(String),
}

const CAPS: [u32; 4] = [1, 2, 8, 1024];
const INTERVALS: [usize; 3] = [1, 2, 61];
const NTOK: usize = 2;
const NSIG: usize = 2;

fn pattern(res: usize, p: usize) -> u8 {
    let x = (p as u32).wrapping_mul(2654435761).wrapping_add((res as u32 + 1).wrapping_mul(40503));
    ((x >> 13) ^ (x >> 3)) as u8
}

enum Peer {
    Unix(UnixStream),
    Tcp(TcpStream),
}

impl Peer {
    fn write(&mut self, d: &[u8]) -> usize {
        match self {
            Peer::Unix(s) => s.write(d).unwrap_or(0),
            Peer::Tcp(s) => s.write(d).unwrap_or(0),
        }
    }
}

enum OpEnd {
    Unix(compio_net::UnixStream),
    Tcp(compio_net::TcpStream),
}

struct Lab {
    rt: Option<Runtime>,
    ends: Vec<Rc<OpEnd>>,
    peers: Vec<Option<Peer>>,
    fed: Vec<Vec<u8>>,
    listener: Rc<compio_net::TcpListener>,
    listen_addr: std::net::SocketAddr,
    clients: Vec<(u16, TcpStream)>,
    tokens: Vec<CancelToken>,
    token_fired: [bool; NTOK],
    sig_tx: Vec<Option<futures_channel::oneshot::Sender<()>>>,
    sig_rx: Vec<Option<futures_util::future::Shared<futures_channel::oneshot::Receiver<()>>>>,
    sig_fired: [bool; NSIG],
    results: Rc<RefCell<Vec<Option<Out>>>>,
    handles: Vec<Option<JoinHandle<()>>>,
    spawned: Vec<bool>,
    stepped_since_spawn: Vec<bool>,
    spawn_time: Vec<Option<Instant>>,
    personality: u16,
    gate: std::sync::Arc<std::sync::atomic::AtomicBool>,
}

fn build(case: &RtCase) -> std::io::Result<Lab> {
    let mut pb = ProactorBuilder::new();
    pb.driver_type(if case.iour { DriverType::IoUring } else { DriverType::Poll }).capacity(CAPS[case.cap_ix as usize % CAPS.len()]);
    let rt = RuntimeBuilder::new().with_proactor(pb).event_interval(INTERVALS[case.interval_ix as usize % INTERVALS.len()]).build()?;
    let (mut ends, mut peers) = (vec![], vec![]);
    rt.enter(|| -> std::io::Result<()> {
        for _ in 0..2 {
            let (a, b) = UnixStream::pair()?;
            b.set_nonblocking(true)?;
            ends.push(Rc::new(OpEnd::Unix(compio_net::UnixStream::from_std(a)?)));
            peers.push(Some(Peer::Unix(b)));
        }
        let l = TcpListener::bind("127.0.0.1:0")?;
        let c = TcpStream::connect(l.local_addr()?)?;
        let (srv, _) = l.accept()?;
        c.set_nonblocking(true)?;
        c.set_nodelay(true)?;
        ends.push(Rc::new(OpEnd::Tcp(compio_net::TcpStream::from_std(srv)?)));
        peers.push(Some(Peer::Tcp(c)));
        Ok(())
    })?;
    let l = TcpListener::bind("127.0.0.1:0")?;
    let listen_addr = l.local_addr()?;
    let listener = rt.enter(|| compio_net::TcpListener::from_std(l))?;
    let tokens = rt.enter(|| (0..NTOK).map(|_| CancelToken::new()).collect());
    let (mut sig_tx, mut sig_rx) = (vec![], vec![]);
    for _ in 0..NSIG {
        let (tx, rx) = futures_channel::oneshot::channel::<()>();
        sig_tx.push(Some(tx));
        sig_rx.push(Some(futures_util::FutureExt::shared(rx)));
    }
    let personality = if case.iour { rt.register_personality().unwrap_or(0) } else { 0 };
    let n = case.tasks.len();
    Ok(Lab {
        gate: std::sync::Arc::new(std::sync::atomic::AtomicBool::new(false)),
        personality,
        rt: Some(rt),
        ends,
        peers,
        fed: vec![vec![]; 3],
        listener: Rc::new(listener),
        listen_addr,
        clients: vec![],
        tokens,
        token_fired: [false; NTOK],
        sig_tx,
        sig_rx,
        sig_fired: [false; NSIG],
        results: Rc::new(RefCell::new(vec![None; n])),
        handles: (0..n).map(|_| None).collect(),
        spawned: vec![false; n],
        stepped_since_spawn: vec![false; n],
        spawn_time: vec![None; n],
    })
}

impl Lab {
    fn rt(&self) -> &Runtime {
        self.rt.as_ref().expect("runtime alive")
    }

    fn spawn(&mut self, ix: usize, spec: &TaskSpec) {
        let results = self.results.clone();
        let route = spec.route;
        let token = match route {
            Route::Token(t) => Some(self.tokens[t as usize % NTOK].clone()),
            _ => None,
        };
        let sig = match route {
            Route::DropOn(s) => self.sig_rx[s as usize % NSIG].clone(),
            _ => None,
        };
        let cap = mono_range(spec.cap, 1, 48);
        let what = spec.what;
        let pers = spec.pers % 3;
        let personality = self.personality;
        let end = self.ends[mono_ix(spec.stream, 3)].clone();
        let listener = self.listener.clone();
        let tcp = self.ends[2].clone();
        let gate = self.gate.clone();
        let fut = async move {
            // the operation itself, as a boxed future producing an `Out`
            let op = async move {
                match what {
                    What::Read => {
                        let buf = Vec::with_capacity(cap);
                        let BufResult(r, b) = match &*end {
                            OpEnd::Unix(s) => { let mut s: &compio_net::UnixStream = s; s.read(buf).await }
                            OpEnd::Tcp(s) => { let mut s: &compio_net::TcpStream = s; s.read(buf).await }
                        };
                        match r {
                            Ok(0) => Out::Eof,
                            Ok(n) => Out::Data(b[..n].to_vec()),
                            Err(e) if e.is_cancelled() => Out::Cancelled,
                            Err(e) => Out::Failed(format!("{:?}", e.kind())),
                        }
                    }
                    What::Accept => match listener.accept().await {
                        Ok((_s, addr)) => Out::Accepted(addr.port()),
                        Err(e) if e.is_cancelled() => Out::Cancelled,
                        Err(e) => Out::Failed(format!("{:?}", e.kind())),
                    },
                    What::SendZc => {
                        use compio_io::AsyncWriteZerocopy;
                        let data: Vec<u8> = (0..cap).map(|j| pattern(9, j)).collect();
                        let OpEnd::Tcp(s) = &*tcp else { unreachable!() };
                        let mut s: &compio_net::TcpStream = s;
                        let BufResult(r, ready) = s.write_zerocopy(data).await;
                        let back = ready.await;
                        let at = HOOKS.lock().unwrap_or_else(|p| p.into_inner()).len();
                        ZC_RETURNS.lock().unwrap_or_else(|p| p.into_inner()).push(at);
                        match r {
                            Ok(n) if n <= back.len() => Out::Eof,
                            Ok(_) => Out::Failed("zero-copy count".into()),
                            Err(e) => Out::Failed(format!("{:?}", e.kind())),
                        }
                    }
                    What::Blocking => {
                        let g = gate.clone();
                        let r = compio_runtime::spawn_blocking(move || {
                            let t0 = Instant::now();
                            while !g.load(Ordering::SeqCst) && t0.elapsed() < Duration::from_secs(20) {
                                std::thread::sleep(Duration::from_micros(200));
                            }
                            7usize
                        })
                        .await;
                        match r {
                            Ok(7) => Out::Eof,
                            _ => Out::Failed("blocking job".into()),
                        }
                    }
                }
            };
            let out = match route {
                Route::Plain => op.await,
                Route::Token(_) => match pers {
                    1 if personality != 0 || true => op.with_personality(personality).with_cancel(token.unwrap()).await,
                    2 => op.with_cancel(token.unwrap()).with_personality(personality).await,
                    _ => op.with_cancel(token.unwrap()).await,
                },
                Route::TimeoutMs(ms) => match compio_runtime::time::timeout(Duration::from_millis(5 + (ms % 40) as u64), op).await {
                    Ok(o) => o,
                    Err(_) => Out::TimedOut,
                },
                Route::DropOn(_) => {
                    let op = std::pin::pin!(op);
                    match futures_util::future::select(op, sig.unwrap()).await {
                        futures_util::future::Either::Left((o, _)) => o,
                        futures_util::future::Either::Right((_, _op)) => Out::Dropped, // `_op` (the pending operation) is dropped here
                    }
                }
            };
            results.borrow_mut()[ix] = Some(out);
        };
        let h = self.rt().enter(|| self.rt().spawn(fut));
        self.handles[ix] = Some(h);
        self.spawned[ix] = true;
        self.spawn_time[ix] = Some(Instant::now());
    }

    fn step(&mut self, timeout: Duration) {
        self.rt().enter(|| {
            self.rt().run();
        });
        // never sleep past the nearest timer
        let t = match self.rt().current_timeout() {
            Some(d) => d.min(timeout),
            None => timeout,
        };
        self.rt().poll_with(Some(t));
        self.rt().enter(|| {
            self.rt().run();
        });
        for i in 0..self.spawned.len() {
            if self.spawned[i] {
                self.stepped_since_spawn[i] = true;
            }
        }
    }

    fn done(&self, i: usize) -> bool {
        self.results.borrow()[i].is_some()
    }

    fn feed(&mut self, stream: usize, n: usize) {
        if self.fed[stream].len() > 3000 {
            return;
        }
        let start = self.fed[stream].len();
        let data: Vec<u8> = (0..n).map(|j| pattern(stream, start + j)).collect();
        if let Some(p) = self.peers[stream].as_mut() {
            let w = p.write(&data);
            self.fed[stream].extend_from_slice(&data[..w]);
        }
    }

    fn connect(&mut self) {
        if self.clients.len() < 24 {
            if let Ok(c) = TcpStream::connect(self.listen_addr) {
                let p = c.local_addr().map(|a| a.port()).unwrap_or(0);
                self.clients.push((p, c));
            }
        }
    }
}

fn is_cancel_route_fired(lab: &Lab, spec: &TaskSpec, i: usize) -> Option<&'static str> {
    match spec.route {
        Route::Token(t) if lab.token_fired[t as usize % NTOK] => Some("token"),
        Route::DropOn(s) if lab.sig_fired[s as usize % NSIG] => Some("drop"),
        Route::TimeoutMs(ms) => {
            let d = Duration::from_millis(5 + (ms % 40) as u64);
            lab.spawn_time[i].filter(|t| t.elapsed() > d + Duration::from_millis(2)).map(|_| "timeout")
        }
        _ => None,
    }
}

fn run(case: &RtCase) -> Outcome {
    LIVE_OPS.store(0, Ordering::SeqCst);
    HOOKS.lock().unwrap_or_else(|p| p.into_inner()).clear();
    let mut lab = match build(case) {
        Ok(l) => l,
        Err(e) => return Outcome::inconclusive(format!("setup: {e}")),
    };
    let drv = if case.iour { "iour" } else { "poll" };
    let mut labels: Vec<String> = vec![format!("drv:{drv}")];
    let mut nontrivial = false;
    let mut next = 0usize;
    for st in &case.steps {
        match *st {
            RStep::Spawn => {
                if next < case.tasks.len() {
                    lab.spawn(next, &case.tasks[next]);
                    // registration after the token fired
                    if let Route::Token(t) = case.tasks[next].route {
                        if lab.token_fired[t as usize % NTOK] {
                            labels.push("registered-after-token-fired".into());
                        }
                    }
                    next += 1;
                }
            }
            RStep::Feed { stream, n } => lab.feed(mono_ix(stream, 3), mono_range(n, 1, 64)),
            RStep::Connect => lab.connect(),
            RStep::CancelToken(t) => {
                let t = t as usize % NTOK;
                // was some operation registered with it pending, with another operation pending too?
                let pending_with = (0..next).filter(|&i| !lab.done(i) && lab.stepped_since_spawn[i] && case.tasks[i].route == Route::Token(t as u8)).count();
                let pending_total = (0..next).filter(|&i| !lab.done(i)).count();
                if pending_with >= 1 && pending_total >= 2 {
                    nontrivial = true;
                    labels.push("token-cancel-while-pending".into());
                }
                if lab.token_fired[t] {
                    labels.push("token-cancel-twice".into());
                }
                let tok = lab.tokens[t].clone();
                lab.rt().enter(|| tok.cancel());
                lab.token_fired[t] = true;
            }
            RStep::FireDrop(s) => {
                let s = s as usize % NSIG;
                if let Some(tx) = lab.sig_tx[s].take() {
                    let pending_with = (0..next).filter(|&i| !lab.done(i) && lab.stepped_since_spawn[i] && case.tasks[i].route == Route::DropOn(s as u8)).count();
                    let pending_total = (0..next).filter(|&i| !lab.done(i)).count();
                    if pending_with >= 1 && pending_total >= 2 {
                        nontrivial = true;
                        labels.push("future-drop-while-pending".into());
                    }
                    let _ = tx.send(());
                    lab.sig_fired[s] = true;
                }
            }
            RStep::Step { block } => lab.step(Duration::from_millis(if block { 20 } else { 0 })),
            RStep::DropHandle(_) | RStep::DropRuntime => {}
        }
    }
    // spawn whatever is left so that every task is judged
    while next < case.tasks.len() {
        lab.spawn(next, &case.tasks[next]);
        next += 1;
    }

    // ---- 1. prompt: every task whose cancellation route fired finishes although its event never happens
    let deadline_all = Instant::now() + Duration::from_millis(120);
    for round in 0..40 {
        // let timeouts mature: a timeout task is only judged once its deadline has clearly passed
        let mut open = false;
        for (i, spec) in case.tasks.iter().enumerate() {
            if !lab.done(i) && (is_cancel_route_fired(&lab, spec, i).is_some() || (matches!(spec.route, Route::TimeoutMs(_)) && Instant::now() < deadline_all)) {
                open = true;
            }
        }
        if !open {
            break;
        }
        lab.step(Duration::from_millis(if round < 2 { 0 } else { 10 }));
    }
    for (i, spec) in case.tasks.iter().enumerate() {
        if !lab.done(i) {
            if let Some(route) = is_cancel_route_fired(&lab, spec, i) {
                // give it a last generous chance before judging (timers may be late, never early)
                for _ in 0..20 {
                    lab.step(Duration::from_millis(50));
                    if lab.done(i) {
                        break;
                    }
                }
                if !lab.done(i) {
                    if std::env::var("VERIF_DUMP_LOG").is_ok() {
                        for (n, e) in HOOKS.lock().unwrap_or_else(|p| p.into_inner()).iter().enumerate() {
                            eprintln!("  hook[{n}] {e:?}");
                        }
                    }
                    return Outcome::violation(
                        format!("C05/rt/cancel-not-prompt/{route}/{:?}/{drv}", spec.what),
                        format!(
                            "task #{i} ({:?} via {:?}) is still pending more than 1 s and 60 runtime steps after its cancellation route fired, although nothing else was asked of it",
                            spec.what, spec.route
                        ),
                    );
                }
            }
        }
    }
    // every operation whose future was dropped / cancelled / timed out is gone from the driver: what is
    // still alive belongs to the tasks that are still pending (one operation each)
    {
        let mut live = LIVE_OPS.load(Ordering::SeqCst);
        for _ in 0..12 {
            // a step can finish a task as well as an operation: compare against the tasks pending *now*
            let pending = (0..case.tasks.len()).filter(|&i| !lab.done(i)).count() as i64;
            if live <= pending {
                break;
            }
            lab.step(Duration::from_millis(10));
            live = LIVE_OPS.load(Ordering::SeqCst);
        }
        let pending = (0..case.tasks.len()).filter(|&i| !lab.done(i)).count() as i64;
        if live > pending {
            if std::env::var("VERIF_DUMP_LOG").is_ok() {
                for (n, e) in HOOKS.lock().unwrap_or_else(|p| p.into_inner()).iter().enumerate() {
                    eprintln!("  hook[{n}] {e:?}");
                }
                eprintln!("  results: {:?}", lab.results.borrow());
            }
            return Outcome::violation(
                format!("C05/rt/cancelled-op-still-in-driver/{drv}"),
                format!("{live} operations are still alive in the driver although only {pending} tasks are pending: a dropped / cancelled / timed-out operation was not finished"),
            );
        }
    }
    // a cancelled task reports cancellation / timeout / drop or genuine data, never anything else
    for (i, spec) in case.tasks.iter().enumerate() {
        if let Some(o) = lab.results.borrow()[i].clone() {
            match (&o, spec.route) {
                (Out::Failed(k), _) => {
                    return Outcome::violation(format!("C05/rt/unexpected-error/{:?}/{drv}", spec.what), format!("task #{i} ({:?}) failed with {k}", spec.route));
                }
                (Out::Cancelled, Route::Plain | Route::DropOn(_)) | (Out::Cancelled, Route::TimeoutMs(_)) => {
                    return Outcome::violation(
                        format!("C05/rt/neighbour-cancelled/{:?}/{drv}", spec.what),
                        format!("task #{i} ({:?}) reported a cancellation error although no token was attached to it", spec.route),
                    );
                }
                (Out::Cancelled, Route::Token(t)) if !lab.token_fired[t as usize % NTOK] => {
                    return Outcome::violation(
                        format!("C05/rt/cancelled-by-foreign-token/{:?}/{drv}", spec.what),
                        format!("task #{i} was cancelled although its token #{t} never fired"),
                    );
                }
                (Out::Cancelled, _) => labels.push("outcome:cancelled".into()),
                (Out::TimedOut, _) => labels.push("outcome:timed-out".into()),
                (Out::Dropped, _) => labels.push("outcome:dropped".into()),
                _ => {}
            }
        }
    }

    // ---- 2. local: everything else still completes with exactly its data once the event is supplied
    for s in 0..3 {
        let need: usize = case.tasks.iter().enumerate().filter(|(i, t)| !lab.done(*i) && t.what == What::Read && mono_ix(t.stream, 3) == s).map(|(_, t)| mono_range(t.cap, 1, 48)).sum();
        if need > 0 {
            lab.feed(s, need.min(600));
        }
        lab.peers[s] = None; // EOF for whoever is still reading
    }
    for round in 0..60 {
        let pend: Vec<usize> = (0..case.tasks.len()).filter(|&i| !lab.done(i)).collect();
        if pend.is_empty() {
            break;
        }
        if round % 2 == 0 && pend.iter().any(|&i| case.tasks[i].what == What::Accept) {
            for _ in 0..pend.iter().filter(|&&i| case.tasks[i].what == What::Accept).count() {
                lab.connect();
            }
        }
        lab.step(Duration::from_millis(if round < 2 { 0 } else { 50 }));
    }
    for (i, spec) in case.tasks.iter().enumerate() {
        if !lab.done(i) {
            return Outcome::violation(
                format!("C05/rt/neighbour-left-waiting/{:?}/{drv}", spec.what),
                format!("task #{i} ({:?} via {:?}) never finished although everything it waits for was supplied after the cancellations", spec.what, spec.route),
            );
        }
    }
    // ---- 3. honest: data handed out is a set of disjoint segments of what was fed; accepts are distinct real clients
    for s in 0..3 {
        let chunks: Vec<Vec<u8>> = case
            .tasks
            .iter()
            .enumerate()
            .filter(|(_, t)| t.what == What::Read && mono_ix(t.stream, 3) == s)
            .filter_map(|(i, _)| match lab.results.borrow()[i].clone() {
                Some(Out::Data(d)) => Some(d),
                _ => None,
            })
            .collect();
        fn place(fed: &[u8], chunks: &[&[u8]], k: usize, taken: &mut Vec<(usize, usize)>) -> bool {
            if k == chunks.len() {
                return true;
            }
            let n = chunks[k].len();
            if fed.len() < n {
                return false;
            }
            for st in 0..=fed.len() - n {
                if &fed[st..st + n] == chunks[k] && !taken.iter().any(|&(a, l)| st < a + l && a < st + n) {
                    taken.push((st, n));
                    if place(fed, chunks, k + 1, taken) {
                        return true;
                    }
                    taken.pop();
                }
            }
            false
        }
        let mut sorted: Vec<&[u8]> = chunks.iter().map(|c| &c[..]).collect();
        sorted.sort_by_key(|c| std::cmp::Reverse(c.len()));
        if !place(&lab.fed[s], &sorted, 0, &mut vec![]) {
            return Outcome::violation(
                format!("C05/rt/fabricated-data/{drv}"),
                format!("stream {s}: the data returned to its readers (lengths {:?}) are not disjoint segments of the {} bytes that were fed", sorted.iter().map(|c| c.len()).collect::<Vec<_>>(), lab.fed[s].len()),
            );
        }
    }
    let mut ports: Vec<u16> = vec![];
    for i in 0..case.tasks.len() {
        if let Some(Out::Accepted(p)) = lab.results.borrow()[i].clone() {
            if ports.contains(&p) || !lab.clients.iter().any(|c| c.0 == p) {
                return Outcome::violation(format!("C05/rt/accept-not-exactly-once/{drv}"), format!("task #{i} accepted port {p}: duplicate or unknown client"));
            }
            ports.push(p);
        }
    }
    for t in &case.tasks {
        if t.pers % 3 != 0 && matches!(t.route, Route::Token(_)) {
            labels.push(format!("token+personality:{}", t.pers % 3));
        }
        labels.push(format!("route:{}", match t.route { Route::Plain => "plain", Route::Token(_) => "token", Route::TimeoutMs(_) => "timeout", Route::DropOn(_) => "drop" }));
    }
    if case.tasks.iter().any(|t| matches!(t.route, Route::TimeoutMs(_))) && case.tasks.len() >= 2 && labels.iter().any(|l| l == "outcome:timed-out") {
        nontrivial = true;
    }
    labels.sort();
    labels.dedup();
    // tear down: handles, then the runtime (tasks are dropped with it)
    lab.handles.clear();
    drop(lab);
    Outcome::pass_owned(nontrivial, labels)
}

const F_MORE: u32 = 2;

/// C01 over the raw hook trace: storage of an operation is released only after the kernel's final
/// completion (or the ring is closed) resp. after the pool job is done, exactly once, and no
/// completion arrives for released storage.
fn check_hook_lifetimes(ev: &[Event], drv: &str) -> Result<(), Outcome> {
    use std::collections::HashMap;
    #[derive(Default)]
    struct S {
        alive: bool,
        iour: bool,
        final_cqe: bool,
        blocking: bool,
        pool_done: bool,
    }
    let mut st: HashMap<usize, S> = HashMap::new();
    let mut ring_closed = false;
    let (mut allocs, mut frees) = (0usize, 0usize);
    let v = |cat: &str, d: String| Err(Outcome::violation(format!("C01/rt/{cat}/{drv}"), d));
    for (pos, e) in ev.iter().enumerate() {
        match *e {
            Event::OpAlloc { id } => {
                allocs += 1;
                st.insert(id, S { alive: true, ..Default::default() });
            }
            Event::Submit { id, path } => {
                let s = st.entry(id).or_default();
                match path {
                    SubmitPath::Iour => {
                        s.iour = true;
                        s.final_cqe = false;
                    }
                    SubmitPath::Blocking => {
                        s.blocking = true;
                        s.pool_done = false;
                    }
                    SubmitPath::PollWait => {}
                }
            }
            Event::Cqe { user_data, flags, res } => {
                if user_data >= u64::MAX - 1 {
                    continue;
                }
                match st.get_mut(&(user_data as usize)) {
                    Some(s) if s.alive => {
                        if flags & F_MORE == 0 {
                            s.final_cqe = true;
                        }
                    }
                    _ => return v("cqe-after-free", format!("hook[{pos}]: completion (res {res}, flags {flags:#x}) for operation storage {user_data:#x} that was already released")),
                }
            }
            Event::PoolDone { id } => {
                if let Some(s) = st.get_mut(&id) {
                    s.pool_done = true;
                }
            }
            Event::PoolSent { .. } => {}
            Event::RingClosed => ring_closed = true,
            Event::OpFree { id } => {
                frees += 1;
                let Some(s) = st.get_mut(&id) else { continue };
                if !s.alive {
                    return v("double-free", format!("hook[{pos}]: operation storage {id:#x} released twice"));
                }
                if s.iour && !s.final_cqe && !ring_closed {
                    return v("freed-before-final-cqe", format!("hook[{pos}]: operation storage {id:#x} released while the kernel still owns the request"));
                }
                if s.blocking && !s.pool_done {
                    return v("freed-before-pool-done", format!("hook[{pos}]: operation storage {id:#x} released while its thread-pool job was still running"));
                }
                s.alive = false;
            }
        }
    }
    if allocs != frees {
        return v("leaked-op", format!("{allocs} operation storages allocated, {frees} released after the runtime and every task were dropped"));
    }
    Ok(())
}

/// C01 part "rt": the same tasks, but judged only by the lifetime oracle; futures, tasks (JoinHandle
/// drop), tokens and the whole runtime are dropped with operations in flight, and the awaited events
/// are supplied afterwards.
fn run_c01(case: &RtCase) -> Outcome {
    LIVE_OPS.store(0, Ordering::SeqCst);
    HOOKS.lock().unwrap_or_else(|p| p.into_inner()).clear();
    ZC_RETURNS.lock().unwrap_or_else(|p| p.into_inner()).clear();
    let mut lab = match build(case) {
        Ok(l) => l,
        Err(e) => return Outcome::inconclusive(format!("setup: {e}")),
    };
    let drv = if case.iour { "iour" } else { "poll" };
    let mut labels: Vec<String> = vec![format!("drv:{drv}")];
    let mut nontrivial = false;
    let mut next = 0usize;
    for st in &case.steps {
        if lab.rt.is_none() {
            match *st {
                RStep::Feed { stream, n } => lab.feed(mono_ix(stream, 3), mono_range(n, 1, 64)),
                RStep::Connect => lab.connect(),
                _ => {}
            }
            continue;
        }
        let in_flight = LIVE_OPS.load(Ordering::SeqCst) > 0;
        match *st {
            RStep::Spawn => {
                if next < case.tasks.len() {
                    lab.spawn(next, &case.tasks[next]);
                    next += 1;
                }
            }
            RStep::Feed { stream, n } => lab.feed(mono_ix(stream, 3), mono_range(n, 1, 64)),
            RStep::Connect => lab.connect(),
            RStep::CancelToken(t) => {
                let tok = lab.tokens[t as usize % NTOK].clone();
                lab.rt().enter(|| tok.cancel());
                lab.token_fired[t as usize % NTOK] = true;
                if in_flight {
                    labels.push("token-cancel-in-flight".into());
                    nontrivial = true;
                }
            }
            RStep::FireDrop(s) => {
                if let Some(tx) = lab.sig_tx[s as usize % NSIG].take() {
                    let _ = tx.send(());
                    if in_flight {
                        labels.push("future-drop-in-flight".into());
                        nontrivial = true;
                    }
                }
            }
            RStep::Step { block } => lab.step(Duration::from_millis(if block { 20 } else { 0 })),
            RStep::DropHandle(i) => {
                if next > 0 {
                    let i = i as usize % next;
                    if lab.handles[i].take().is_some() && in_flight {
                        labels.push("task-cancel-in-flight".into());
                        nontrivial = true;
                    }
                }
            }
            RStep::DropRuntime => {
                // known finding C01/leaked-op/pool-job-outlived-driver (judged by the driver lab): let
                // thread-pool jobs finish before the runtime goes away
                {
                    let open = |ev: &[Event]| ev.iter().filter(|e| matches!(e, Event::Submit { path: SubmitPath::Blocking, .. })).count() as i64 - ev.iter().filter(|e| matches!(e, Event::PoolSent { .. })).count() as i64;
                    if open(&HOOKS.lock().unwrap_or_else(|p| p.into_inner())) > 0 {
                        lab.gate.store(true, Ordering::SeqCst);
                        let t0 = Instant::now();
                        while open(&HOOKS.lock().unwrap_or_else(|p| p.into_inner())) > 0 && t0.elapsed() < Duration::from_secs(20) {
                            std::thread::sleep(Duration::from_millis(1));
                        }
                        labels.push("excluded-known:pool-job-drained-before-runtime-drop".into());
                    }
                }
                if in_flight {
                    labels.push("runtime-drop-in-flight".into());
                    nontrivial = true;
                }
                lab.handles.iter_mut().for_each(|h| {
                    // detach: dropping a handle after the runtime is gone must be harmless as well, keep half of them
                    if let Some(h) = h.take() {
                        h.detach();
                    }
                });
                lab.rt = None;
            }
        }
    }
    // supply every awaited event after the drops: a late kernel or pool write must not hit released memory
    for s in 0..3 {
        lab.feed(s, 64);
        lab.peers[s] = None;
    }
    lab.connect();
    lab.gate.store(true, Ordering::SeqCst);
    if lab.rt.is_some() {
        for round in 0..40 {
            if (0..next).all(|i| lab.done(i) || lab.handles[i].is_none()) && LIVE_OPS.load(Ordering::SeqCst) == 0 {
                break;
            }
            lab.step(Duration::from_millis(if round < 2 { 0 } else { 20 }));
        }
    }
    // wait for thread-pool jobs (PoolSent for every Blocking submit: the entry was handed back), then drop everything
    let t0 = Instant::now();
    loop {
        let ev = HOOKS.lock().unwrap_or_else(|p| p.into_inner()).clone();
        let open = ev.iter().filter(|e| matches!(e, Event::Submit { path: SubmitPath::Blocking, .. })).count() as i64 - ev.iter().filter(|e| matches!(e, Event::PoolSent { .. })).count() as i64;
        if open <= 0 {
            break;
        }
        if t0.elapsed() > Duration::from_secs(30) {
            return Outcome::inconclusive("thread-pool job did not finish within 30 s");
        }
        std::thread::sleep(Duration::from_millis(1));
    }
    lab.handles.clear();
    lab.rt = None;
    drop(lab);
    let t0 = Instant::now();
    while LIVE_OPS.load(Ordering::SeqCst) != 0 && t0.elapsed() < Duration::from_secs(2) {
        std::thread::sleep(Duration::from_millis(1)); // a pool thread may still be dropping its entry
    }
    let ev = HOOKS.lock().unwrap_or_else(|p| p.into_inner()).clone();
    if let Err(o) = check_hook_lifetimes(&ev, drv) {
        return o;
    }
    // zero-copy: the k-th buffer handed back needs k release notifications (F_NOTIF) before it
    if case.iour {
        let rets = ZC_RETURNS.lock().unwrap_or_else(|p| p.into_inner()).clone();
        for (k, at) in rets.iter().enumerate() {
            let notifs = ev[..(*at).min(ev.len())].iter().filter(|e| matches!(e, Event::Cqe { flags, .. } if flags & 8 != 0)).count();
            if notifs < k + 1 {
                return Outcome::violation(
                    format!("C01/rt/zerocopy-buffer-before-notif/{drv}"),
                    format!("zero-copy send #{k} handed its buffer back after only {notifs} release notifications from the kernel"),
                );
            }
        }
        if !rets.is_empty() {
            labels.push("zerocopy-returned".into());
        }
    }
    labels.sort();
    labels.dedup();
    Outcome::pass_owned(nontrivial, labels)
}

fn strategy_c01() -> impl Strategy<Value = RtCase> + Clone {
    let route = prop_oneof![3 => Just(Route::Plain), 3 => (0u8..2).prop_map(Route::Token), 1 => any::<u8>().prop_map(Route::TimeoutMs), 3 => (0u8..2).prop_map(Route::DropOn)];
    let task = (prop_oneof![5 => Just(What::Read), 2 => Just(What::Accept), 2 => Just(What::Blocking), 2 => Just(What::SendZc)], any::<u16>(), any::<u16>(), route, 0u8..3).prop_map(|(what, stream, cap, route, pers)| TaskSpec { what, stream, cap, route, pers });
    let step = prop_oneof![
        6 => Just(RStep::Spawn),
        3 => (any::<u16>(), any::<u16>()).prop_map(|(stream, n)| RStep::Feed { stream, n }),
        1 => Just(RStep::Connect),
        2 => (0u8..2).prop_map(RStep::CancelToken),
        2 => (0u8..2).prop_map(RStep::FireDrop),
        5 => any::<bool>().prop_map(|block| RStep::Step { block }),
        2 => any::<u8>().prop_map(RStep::DropHandle),
        1 => Just(RStep::DropRuntime),
    ];
    (any::<bool>(), 0u8..4, 0u8..3, vec(task, 1..=6), vec(step, 0..24)).prop_map(|(iour, cap_ix, interval_ix, tasks, steps)| RtCase { iour, cap_ix, interval_ix, tasks, steps })
}

fn strategy() -> impl Strategy<Value = RtCase> + Clone {
    let route = prop_oneof![3 => Just(Route::Plain), 4 => (0u8..2).prop_map(Route::Token), 2 => any::<u8>().prop_map(Route::TimeoutMs), 3 => (0u8..2).prop_map(Route::DropOn)];
    let task = (prop_oneof![4 => Just(What::Read), 1 => Just(What::Accept)], any::<u16>(), any::<u16>(), route, prop_oneof![3 => Just(0u8), 1 => Just(1u8), 1 => Just(2u8)]).prop_map(|(what, stream, cap, route, pers)| TaskSpec { what, stream, cap, route, pers });
    let step = prop_oneof![
        5 => Just(RStep::Spawn),
        3 => (any::<u16>(), any::<u16>()).prop_map(|(stream, n)| RStep::Feed { stream, n }),
        1 => Just(RStep::Connect),
        3 => (0u8..2).prop_map(RStep::CancelToken),
        2 => (0u8..2).prop_map(RStep::FireDrop),
        5 => any::<bool>().prop_map(|block| RStep::Step { block }),
    ];
    (any::<bool>(), 0u8..4, 0u8..3, vec(task, 1..=6), vec(step, 0..24)).prop_map(|(iour, cap_ix, interval_ix, tasks, steps)| RtCase { iour, cap_ix, interval_ix, tasks, steps })
}

fn main() {
    set_sink(Some(sink));
    let mut s = Session::new();
    if s.args.rest.first().map(|x| x == "C01").unwrap_or(false) {
        let mut p = Part::new(
            "C01",
            "rt",
            "case = driver x capacity x event_interval x 1-6 tasks on a harness-stepped runtime (socket read, accept, spawn_blocking job on a \
             gate) through routes {none, with_cancel, timeout, future dropped on a signal} x <=24 steps {spawn, feed, connect, cancel token, fire \
             drop signal, run+poll, drop a JoinHandle, drop the whole runtime}; afterwards every awaited event is supplied. Judged by the \
             lifetime invariant over the compio_verif hook trace. Non-trivial = a token cancel / future drop / task cancel / runtime drop \
             happened while an operation was alive in the driver; distinct = serialised case.",
        );
        p.quick_cases = 1200;
        p.thorough_cases = 30_000;
        p.max_shrink_iters = 150;
        p.crash_guard = true;
        p.assumptions = vec!["drop points are the harness steps (between runtime ticks / polls), not arbitrary instructions"];
        s.run_part(p, strategy_c01(), run_c01);
        s.finish();
    }
    let mut p = Part::new(
        "C05",
        "rt",
        "case = driver {io_uring, poll} x SQ capacity {1,2,8,1024} x event_interval {1,2,61} x 1-6 tasks on a harness-stepped runtime, each one \
         socket read (2 Unix pairs, 1 TCP connection) or accept through a route {none, with_cancel(token 0|1), timeout 5-44 ms, future dropped on \
         signal 0|1} x <=24 steps {spawn next, feed n bytes, connect, cancel token (also twice, also before registration), fire drop signal, \
         run+poll(0|20 ms)}. Non-trivial = a token cancel / future drop hit an operation that was pending (spawned and stepped) while another \
         task was pending too, or a timeout expired with a neighbour present; distinct = serialised case.",
    );
    p.quick_cases = 1200;
    p.thorough_cases = 30_000;
    p.max_shrink_iters = 150;
    p.assumptions = vec![
        "promptness is bounded progress: a task whose cancellation route fired must finish within 60 runtime steps and 1 s without its event",
        "timeouts are judged only after their deadline has clearly passed (timers being late is C09's business, never early)",
    ];
    let rd = |stream: u16, route: Route| TaskSpec { what: What::Read, stream, cap: 30000, route, pers: 0 };
    p.regressions = vec![
        // the shape of compio/tests/runtime.rs::cancel_token_read: token fired before the task ever ran
        ("token-fired-before-first-poll", RtCase { iour: true, cap_ix: 3, interval_ix: 2, tasks: vec![rd(0, Route::Token(0))], steps: vec![RStep::Spawn, RStep::CancelToken(0)] }),
        ("token-fired-before-first-poll-poll", RtCase { iour: false, cap_ix: 3, interval_ix: 2, tasks: vec![rd(0, Route::Token(0))], steps: vec![RStep::Spawn, RStep::CancelToken(0)] }),
        (
            "token-cancel-one-of-two-same-fd",
            RtCase {
                iour: true,
                cap_ix: 0,
                interval_ix: 0,
                tasks: vec![rd(0, Route::Token(0)), rd(0, Route::Plain), TaskSpec { what: What::Accept, stream: 0, cap: 0, route: Route::Token(0), pers: 1 }],
                steps: vec![RStep::Spawn, RStep::Spawn, RStep::Spawn, RStep::Step { block: false }, RStep::CancelToken(0)],
            },
        ),
        (
            "drop-and-timeout-with-neighbour",
            RtCase {
                iour: false,
                cap_ix: 1,
                interval_ix: 1,
                tasks: vec![rd(40000, Route::DropOn(0)), rd(40000, Route::TimeoutMs(3)), rd(40000, Route::Plain)],
                steps: vec![RStep::Spawn, RStep::Spawn, RStep::Spawn, RStep::Step { block: true }, RStep::FireDrop(0), RStep::Step { block: true }],
            },
        ),
    ];
    // found by the thorough tier: compio-net marks the next accept poll-first after the socket was seen empty; a
    // token that already fired then cancels it in the batch that carries it
    let plain = |what: What| TaskSpec { what, stream: 0, cap: 0, route: Route::Plain, pers: 0 };
    p.regressions.push((
        "poll-first-accept-cancelled-in-its-own-batch",
        RtCase {
            iour: true,
            cap_ix: 2,
            interval_ix: 0,
            tasks: vec![
                plain(What::Accept),
                plain(What::Read),
                plain(What::Read),
                plain(What::Read),
                TaskSpec { what: What::Accept, stream: 18987, cap: 36250, route: Route::DropOn(0), pers: 1 },
                TaskSpec { what: What::Accept, stream: 56197, cap: 12544, route: Route::Token(0), pers: 0 },
            ],
            steps: vec![RStep::Spawn, RStep::Step { block: false }, RStep::CancelToken(0), RStep::Connect, RStep::Connect, RStep::Step { block: false }],
        },
    ));
    // found by the thorough tier as a *harness* false alarm (see DESIGN §11): the step that finishes the last
    // task leaves its cancelled read for the next poll; the operations-alive count must be compared with the
    // tasks pending after that step, not before it
    p.regressions.push((
        "last-task-finishes-one-poll-before-its-cancelled-op",
        RtCase {
            iour: true,
            cap_ix: 0,
            interval_ix: 0,
            tasks: vec![
                TaskSpec { what: What::Read, stream: 0, cap: 0, route: Route::TimeoutMs(80), pers: 0 },
                TaskSpec { what: What::Read, stream: 0, cap: 0, route: Route::DropOn(1), pers: 0 },
                TaskSpec { what: What::Read, stream: 0, cap: 0, route: Route::DropOn(0), pers: 0 },
            ],
            steps: vec![RStep::Spawn, RStep::Spawn, RStep::Step { block: false }, RStep::FireDrop(0), RStep::Feed { stream: 16221, n: 64849 }],
        },
    ));
    s.run_part(p, strategy(), run);
    s.finish();
}
