//! C03 part (a) — a wake-up from any thread is never lost; schedules owned by shuttle
//! (DESIGN.md §3 C03 (a)).
//!
//! What is real: `compio_executor::Executor` (unmodified, compiled with `--cfg loom` against the
//! shuttle-backed `loom` stand-in, so every atomic of `Remote::schedule`, `drain_sync`, `tick`, the
//! task state word is a scheduling point) and `AwakeFlag` (extracted textually from
//! compio-driver by `build.rs`, compiled against shuttle's `AtomicU8`).
//!
//! What is a model (stated in the evidence): the runtime-thread loop — a re-statement of
//! `Runtime::block_on_at` (poll main, `run`, `poll_with(0)` / `poll()`) and of
//! `RuntimeCompat::drive` (poll main, `run`, `flush`, wait on the driver's descriptor, `clear`,
//! `poll_with(0)`) — and the driver underneath it, which keeps the order of `iour::Driver::poll` /
//! `poll::Driver::poll` (`reset` before waiting, `set` after waiting, `set` again after processing
//! entries), `flush` (`reset`), `Notify::wake_by_ref` (`if !awake.wake() { write eventfd }`), the
//! `NEED_PUSH_NOTIFIER` arming of the multishot poll on the notifier eventfd, with the kernel side
//! (eventfd counter, CQE posted per eventfd wake-up while armed, registered ring eventfd / epoll
//! level) kept under one shuttle mutex + condition variable.
//!
//! Case = configuration + per-thread waker programs; K schedules (random + PCT) per case.
//! Oracle: every message announced before a `wake` is seen by a later poll of the task, i.e. the
//! loop terminates; a runtime thread that stays blocked while a wake is outstanding is a shuttle
//! deadlock ⇒ violation; a waker that spins for ever on a full queue is a step-bound hit ⇒
//! violation; once every `wake()` has returned, all woken tasks are polled within
//! ⌈tasks / max_interval⌉ + 1 further ticks.

use std::{
    future::Future,
    pin::Pin,
    sync::{
        atomic::{AtomicU32, AtomicU64, AtomicUsize, Ordering},
        Arc, Mutex as StdMutex,
    },
    task::{Context, Poll, Waker},
};

use compio_executor::{Executor, ExecutorConfig, JoinHandle};
use sched_common::{explore, mix, Budget, FailKind, Verdict};
use serde::{Deserialize, Serialize};
use vcore::{
    mono_ix,
    proptest::{collection::vec, prelude::*},
    Outcome, Part, Session, Tier,
};

const SIG_UNARMED: &str = "C03/lost-wake/external-loop-notifier-unarmed";
const SIG_FULL_QUEUE: &str = "C03/lost-wake/full-queue-notified-before-push";
const SIG_SPIN: &str = "C03/livelock/full-queue-waker-spins-while-runtime-sleeps";

// ------------------------------------------------------------------------------------------------
// model driver around the real AwakeFlag

mod model {
    use std::{
        sync::{
            atomic::{AtomicU32, Ordering as O},
            Arc,
        },
        task::{Wake, Waker},
    };

    use serde::{Deserialize, Serialize};
    #[allow(unused_imports)]
    use shuttle::sync::atomic::{AtomicU8, Ordering};

    // the real flag: `const IDLE/NOTIFIED/AWAKE`, `struct AwakeFlag(AtomicU8)`, `new/set/reset/wake`
    include!(concat!(env!("OUT_DIR"), "/awake_flag.rs"));

    #[derive(Debug, Clone, Copy, Serialize, Deserialize, PartialEq, Eq)]
    pub enum Kind {
        /// io_uring driver: notifier eventfd watched by a multishot PollAdd that `poll()` arms
        Iour,
        /// polling driver: `Poller::notify`, always armed
        Poll,
    }

    #[derive(Debug, Default)]
    struct Kernel {
        /// notifier eventfd counter (iour) / poller notification pending (poll)
        efd: u64,
        /// multishot PollAdd on the notifier eventfd is armed (iour only)
        armed: bool,
        /// NOTIFY completions sitting in the completion queue
        cqes: u32,
        /// the last posted NOTIFY completion carried no F_MORE: the driver must re-arm
        nomore: bool,
        posted: u32,
        /// eventfd registered with the ring (compat's external loop waits on it)
        ring_efd: bool,
    }

    /// observable from outside the execution (std atomics, never a scheduling point)
    #[derive(Debug, Default)]
    pub struct Probe {
        pub efd: AtomicU32,
        pub armed: AtomicU32,
        pub cqes: AtomicU32,
        pub syscalls: AtomicU32,
        /// 0 running, 1 blocked in the driver's own wait, 2 blocked in the external wait
        pub blocked: AtomicU32,
        /// harness: waker threads that have finished / exist.  When all have finished nothing can
        /// ever write the eventfd again, so a runtime thread that is (or is about to be) blocked is
        /// blocked for ever: the waits below return `Wait::Stranded` instead of letting shuttle
        /// report the deadlock, which lets the harness classify the lost wake-up.
        pub wakers_done: AtomicU32,
        pub wakers_total: AtomicU32,
        /// calls of the runtime waker per shuttle thread id
        pub notifies: std::sync::Mutex<std::collections::HashMap<usize, u32>>,
    }

    impl Probe {
        pub fn notifies_of_current_thread(&self) -> u32 {
            let me = usize::from(shuttle::thread::current().id());
            *self.notifies.lock().unwrap().get(&me).unwrap_or(&0)
        }

        fn stranded(&self) -> bool {
            self.wakers_done.load(O::SeqCst) >= self.wakers_total.load(O::SeqCst)
        }
    }

    #[derive(Debug, Clone, Copy, PartialEq, Eq)]
    pub enum Wait {
        Returned,
        /// would block for ever: every waker thread has finished and nothing is pending
        Stranded,
    }

    pub struct Notify {
        awake: AwakeFlag,
        k: shuttle::sync::Mutex<Kernel>,
        cv: shuttle::sync::Condvar,
        kind: Kind,
        /// every n-th NOTIFY completion ends the multishot (0 = never)
        ends_after: u32,
        pub probe: Arc<Probe>,
    }

    impl Notify {
        fn publish(&self, k: &Kernel) {
            self.probe.efd.store(k.efd as u32, O::Relaxed);
            self.probe.armed.store(k.armed as u32, O::Relaxed);
            self.probe.cqes.store(k.cqes, O::Relaxed);
        }

        fn post_cqe(&self, k: &mut Kernel) {
            k.cqes += 1;
            k.posted += 1;
            k.ring_efd = true;
            if self.ends_after != 0 && k.posted % self.ends_after == 0 {
                k.armed = false;
                k.nomore = true;
            }
        }

        /// `rustix::io::write(&self.fd, 1)` / `self.poll.notify()`
        fn write_eventfd(&self) {
            let mut k = self.k.lock().unwrap();
            self.probe.syscalls.fetch_add(1, O::Relaxed);
            k.efd += 1;
            if self.kind == Kind::Iour && k.armed {
                self.post_cqe(&mut k);
            }
            self.publish(&k);
            drop(k);
            self.cv.notify_all();
        }
    }

    impl Wake for Notify {
        fn wake(self: Arc<Self>) {
            self.wake_by_ref();
        }

        // iour/notify.rs and poll/mod.rs: `if !self.awake.wake() { write / notify }`
        fn wake_by_ref(self: &Arc<Self>) {
            {
                let me = usize::from(shuttle::thread::current().id());
                *self.probe.notifies.lock().unwrap().entry(me).or_default() += 1;
            }
            if !self.awake.wake() {
                self.write_eventfd();
            }
        }
    }

    impl Notify {
        /// harness: a waker thread has finished; let a blocked runtime thread re-check `stranded`
        pub fn waker_thread_finished(&self) {
            let k = self.k.lock().unwrap();
            self.probe.wakers_done.fetch_add(1, O::SeqCst);
            drop(k);
            self.cv.notify_all();
        }
    }

    /// Owned by the runtime thread.
    pub struct Driver {
        n: Arc<Notify>,
        /// `DriverFlags::NEED_PUSH_NOTIFIER`
        need_push: bool,
    }

    impl Driver {
        pub fn new(kind: Kind, ends_after: u32, probe: Arc<Probe>) -> Self {
            let n = Arc::new(Notify { awake: AwakeFlag::new(), k: shuttle::sync::Mutex::new(Kernel::default()), cv: shuttle::sync::Condvar::new(), kind, ends_after, probe });
            Driver { n, need_push: kind == Kind::Iour }
        }

        pub fn waker(&self) -> Waker {
            Waker::from(self.n.clone())
        }

        pub fn notify(&self) -> Arc<Notify> {
            self.n.clone()
        }

        /// `Driver::poll(timeout)`; `zero` = `Some(Duration::ZERO)`, otherwise `None` (no timers here).
        pub fn poll(&mut self, zero: bool) -> Wait {
            let n = self.n.clone();
            match n.kind {
                Kind::Iour => {
                    let need_wait = !n.awake.reset();
                    if self.need_push {
                        // push_raw(PollAdd(notifier).multi(true)); submitted by the submit below
                        let mut k = n.k.lock().unwrap();
                        k.armed = true;
                        if k.efd > 0 {
                            n.post_cqe(&mut k);
                        }
                        n.publish(&k);
                        drop(k);
                        self.need_push = false;
                    }
                    // submit_auto(timeout, need_wait): want_sqe = need_wait as usize
                    if need_wait && !zero {
                        let mut k = n.k.lock().unwrap();
                        n.probe.blocked.store(1, O::Relaxed);
                        while k.cqes == 0 {
                            if n.probe.stranded() {
                                return Wait::Stranded;
                            }
                            k = n.cv.wait(k).unwrap();
                        }
                        n.probe.blocked.store(0, O::Relaxed);
                    }
                    n.awake.set();
                    self.poll_entries();
                    n.awake.set();
                }
                Kind::Poll => {
                    let need_wait = !n.awake.reset();
                    // `if !need_wait { timeout = Some(ZERO) }`, then `poller.wait(events, timeout)`
                    {
                        let mut k = n.k.lock().unwrap();
                        if need_wait && !zero {
                            n.probe.blocked.store(1, O::Relaxed);
                            while k.efd == 0 {
                                if n.probe.stranded() {
                                    return Wait::Stranded;
                                }
                                k = n.cv.wait(k).unwrap();
                            }
                            n.probe.blocked.store(0, O::Relaxed);
                        }
                        // the poller consumes its own notification inside wait()
                        k.efd = 0;
                        n.publish(&k);
                    }
                    n.awake.set();
                    // with_events(..) ends with set_awake()
                    n.awake.set();
                }
            }
            Wait::Returned
        }

        /// the NOTIFY arm of `iour::Driver::poll_entries`
        fn poll_entries(&mut self) {
            let n = &self.n;
            let mut k = n.k.lock().unwrap();
            if k.cqes > 0 {
                k.cqes = 0;
                if k.nomore {
                    k.nomore = false;
                    self.need_push = true;
                }
                // notifier.clear(): read the eventfd
                k.efd = 0;
                n.publish(&k);
            }
        }

        /// `Driver::flush()`: arm the notifier if needed (io_uring, since fix 774453e: `arm_notifier()`
        /// runs in `flush()` as well as in `poll()`), (submit,) reset the flag, report "already notified"
        pub fn flush(&mut self) -> bool {
            if self.n.kind == Kind::Iour && self.need_push {
                let n = self.n.clone();
                let mut k = n.k.lock().unwrap();
                k.armed = true;
                if k.efd > 0 {
                    n.post_cqe(&mut k);
                }
                n.publish(&k);
                drop(k);
                self.need_push = false;
            }
            self.n.awake.reset()
        }

        /// compat `Adapter::wait(timeout)` on the driver's descriptor followed by `clear()`
        pub fn external_wait(&mut self, zero: bool) -> Wait {
            let n = &self.n;
            let mut k = n.k.lock().unwrap();
            match n.kind {
                Kind::Iour => {
                    if !zero {
                        n.probe.blocked.store(2, O::Relaxed);
                        while !k.ring_efd {
                            if n.probe.stranded() {
                                return Wait::Stranded;
                            }
                            k = n.cv.wait(k).unwrap();
                        }
                        n.probe.blocked.store(0, O::Relaxed);
                    }
                    // UnixAdapter::clear(): read the registered eventfd
                    k.ring_efd = false;
                }
                Kind::Poll => {
                    // the epoll descriptor is readable while the poller's notification is pending
                    if !zero {
                        n.probe.blocked.store(2, O::Relaxed);
                        while k.efd == 0 {
                            if n.probe.stranded() {
                                return Wait::Stranded;
                            }
                            k = n.cv.wait(k).unwrap();
                        }
                        n.probe.blocked.store(0, O::Relaxed);
                    }
                }
            }
            Wait::Returned
        }
    }
}

use model::{Driver, Kind, Probe, Wait};

// ------------------------------------------------------------------------------------------------
// case

#[derive(Debug, Clone, Copy, Serialize, Deserialize, PartialEq, Eq)]
pub enum Shape {
    /// `Runtime::block_on`
    BlockOn,
    /// `RuntimeCompat::drive` (external event loop waits on the driver's descriptor)
    External,
}

#[derive(Debug, Clone, Copy, Serialize, Deserialize, PartialEq)]
pub enum WOp {
    /// `waker.wake()` on the w-th waker this thread holds
    Wake { w: u16 },
    WakeByRef { w: u16 },
    Clone { w: u16 },
    Drop { w: u16 },
    /// wake the main future through the runtime's own waker (`Runtime::waker`)
    WakeMain,
    Yield,
}

#[derive(Debug, Clone, Serialize, Deserialize)]
pub struct ThreadProg {
    /// tasks whose wakers this thread starts with (raw draws mapped into 0..tasks)
    pub init: Vec<u16>,
    pub ops: Vec<WOp>,
}

#[derive(Debug, Clone, Serialize, Deserialize)]
pub struct WakeCase {
    pub sched_seed: u64,
    pub schedules: u16,
    pub sync_queue_size: usize,
    pub max_interval: u32,
    pub tasks: u8,
    pub kind: Kind,
    pub shape: Shape,
    /// one complete `poll(0)` happened before the wakers start (flag AWAKE, notifier armed)
    pub warm: bool,
    /// every n-th NOTIFY completion ends the multishot poll (0 = never)
    pub multishot_ends_after: u8,
    pub threads: Vec<ThreadProg>,
}

fn wop() -> impl Strategy<Value = WOp> + Clone {
    (0u8..12, any::<u16>()).prop_map(|(k, w)| match k {
        0..=3 => WOp::Wake { w },
        4..=6 => WOp::WakeByRef { w },
        7 => WOp::Clone { w },
        8 => WOp::Drop { w },
        9..=10 => WOp::WakeMain,
        _ => WOp::Yield,
    })
}

fn case_strategy(tier: Tier, unarmed_known: bool) -> impl Strategy<Value = WakeCase> + Clone {
    let schedules: u16 = if tier == Tier::Thorough { 200 } else { 40 };
    let cfg = (any::<u64>(), 0usize..4, 0usize..3, 1u8..=4, any::<bool>(), 0u8..3, any::<bool>(), 0u8..4);
    let threads = vec((vec(any::<u16>(), 1..=4), vec(wop(), 1..=6)).prop_map(|(init, ops)| ThreadProg { init, ops }), 1..=4);
    (cfg, threads).prop_map(move |((sched_seed, q, mi, tasks, iour, shape, warm, ends), threads)| {
        let kind = if iour { Kind::Iour } else { Kind::Poll };
        let shape = if shape == 2 { Shape::External } else { Shape::BlockOn };
        let (mut warm, mut ends) = (warm, ends);
        if unarmed_known && kind == Kind::Iour && shape == Shape::External {
            // known finding: the external loop waits while the notifier poll is not armed — excluded by construction
            warm = true;
            ends = 0;
        }
        WakeCase {
            sched_seed,
            schedules,
            sync_queue_size: [1, 2, 3, 64][q],
            max_interval: [1, 2, 61][mi],
            tasks,
            kind,
            shape,
            warm,
            multishot_ends_after: ends,
            threads,
        }
    })
}

// ------------------------------------------------------------------------------------------------
// static plan of a case: what each thread does with which task's waker

#[derive(Debug, Clone, Copy)]
enum ROp {
    Wake(usize),
    WakeByRef(usize),
    Clone(usize),
    Drop(usize),
    WakeMain,
    Yield,
}

struct Plan {
    tasks: usize,
    init: Vec<Vec<usize>>,
    ops: Vec<Vec<ROp>>,
    expected: Vec<u64>,
    main_expected: u64,
}

fn plan(case: &WakeCase) -> Plan {
    let tasks = case.tasks.max(1) as usize;
    let mut expected = vec![0u64; tasks];
    let mut main_expected = 0;
    let mut init = vec![];
    let mut ops = vec![];
    for t in &case.threads {
        let mut table: Vec<usize> = t.init.iter().map(|r| mono_ix(*r, tasks)).collect();
        init.push(table.clone());
        let mut r = vec![];
        for op in &t.ops {
            match *op {
                WOp::WakeMain => {
                    main_expected += 1;
                    r.push(ROp::WakeMain)
                }
                WOp::Yield => r.push(ROp::Yield),
                _ if table.is_empty() => {}
                WOp::Wake { w } => {
                    let i = mono_ix(w, table.len());
                    expected[table.remove(i)] += 1;
                    r.push(ROp::Wake(i));
                }
                WOp::WakeByRef { w } => {
                    let i = mono_ix(w, table.len());
                    expected[table[i]] += 1;
                    r.push(ROp::WakeByRef(i));
                }
                WOp::Clone { w } => {
                    let i = mono_ix(w, table.len());
                    table.push(table[i]);
                    r.push(ROp::Clone(i));
                }
                WOp::Drop { w } => {
                    let i = mono_ix(w, table.len());
                    table.remove(i);
                    r.push(ROp::Drop(i));
                }
            }
        }
        ops.push(r);
    }
    Plan { tasks, init, ops, expected, main_expected }
}

// ------------------------------------------------------------------------------------------------
// instrumented futures

/// std atomics only: reading them is never a scheduling point, so the instrumentation does not
/// change the set of interleavings of the code under test.
struct Stats {
    sent: Vec<AtomicU64>,
    seen: Vec<AtomicU64>,
    polls: Vec<AtomicU64>,
    /// remote wake() calls on this task that invoked the runtime's waker at least once
    notified_wakes: Vec<AtomicU64>,
    expected: Vec<u64>,
    slots: Vec<StdMutex<Option<Waker>>>,
    main_sent: AtomicU64,
    main_seen: AtomicU64,
    main_expected: u64,
    wakers_done: AtomicUsize,
    /// 0 elsewhere, 1 inside `tick`, 2 inside the driver poll / external wait
    rt_phase: AtomicU32,
    overlap_tick: AtomicU64,
    overlap_wait: AtomicU64,
    remote_wakes: AtomicU64,
}

struct Pump {
    i: usize,
    st: Arc<Stats>,
}

impl Future for Pump {
    type Output = ();

    fn poll(self: Pin<&mut Self>, cx: &mut Context<'_>) -> Poll<()> {
        let st = &self.st;
        st.polls[self.i].fetch_add(1, Ordering::SeqCst);
        let s = st.sent[self.i].load(Ordering::SeqCst);
        st.seen[self.i].store(s, Ordering::SeqCst);
        {
            // the waker is published even when the task is about to finish, so that other threads can
            // hold (clone / drop) wakers of a completed task
            let mut slot = st.slots[self.i].lock().unwrap();
            if !slot.as_ref().is_some_and(|w| w.will_wake(cx.waker())) {
                *slot = Some(cx.waker().clone());
            }
        }
        if s >= st.expected[self.i] { Poll::Ready(()) } else { Poll::Pending }
    }
}

struct Main {
    handles: Vec<Option<JoinHandle<()>>>,
    st: Arc<Stats>,
}

impl Future for Main {
    type Output = ();

    fn poll(mut self: Pin<&mut Self>, cx: &mut Context<'_>) -> Poll<()> {
        let s = self.st.main_sent.load(Ordering::SeqCst);
        self.st.main_seen.store(s, Ordering::SeqCst);
        let mut open = 0;
        for h in self.handles.iter_mut() {
            if let Some(jh) = h {
                match Pin::new(jh).poll(cx) {
                    Poll::Ready(_) => *h = None,
                    Poll::Pending => open += 1,
                }
            }
        }
        if open == 0 && s >= self.st.main_expected { Poll::Ready(()) } else { Poll::Pending }
    }
}

// ------------------------------------------------------------------------------------------------
// one execution

fn execution(case: &WakeCase, verdict: &Arc<Verdict>, probe: &Arc<Probe>, cov: &Arc<Coverage>) {
    let p = plan(case);
    let st = Arc::new(Stats {
        sent: (0..p.tasks).map(|_| AtomicU64::new(0)).collect(),
        seen: (0..p.tasks).map(|_| AtomicU64::new(0)).collect(),
        polls: (0..p.tasks).map(|_| AtomicU64::new(0)).collect(),
        notified_wakes: (0..p.tasks).map(|_| AtomicU64::new(0)).collect(),
        expected: p.expected.clone(),
        slots: (0..p.tasks).map(|_| StdMutex::new(None)).collect(),
        main_sent: AtomicU64::new(0),
        main_seen: AtomicU64::new(0),
        main_expected: p.main_expected,
        wakers_done: AtomicUsize::new(0),
        rt_phase: AtomicU32::new(0),
        overlap_tick: AtomicU64::new(0),
        overlap_wait: AtomicU64::new(0),
        remote_wakes: AtomicU64::new(0),
    });
    let n_threads = p.ops.len();
    for a in [&probe.efd, &probe.armed, &probe.cqes, &probe.syscalls, &probe.blocked, &probe.wakers_done] {
        a.store(0, Ordering::Relaxed);
    }
    probe.wakers_total.store(n_threads as u32, Ordering::SeqCst);
    probe.notifies.lock().unwrap().clear();
    let mut drv = Driver::new(case.kind, case.multishot_ends_after as u32, probe.clone());
    let exe = Executor::with_config(ExecutorConfig { sync_queue_size: case.sync_queue_size, local_queue_size: 8, max_interval: case.max_interval, waker: Some(drv.waker()) });
    let handles: Vec<Option<JoinHandle<()>>> = (0..p.tasks).map(|i| Some(exe.spawn(Pump { i, st: st.clone() }))).collect();
    let mut main = Box::pin(Main { handles, st: st.clone() });

    // every task is polled once and parks with its waker in its slot
    for _ in 0..p.tasks.div_ceil(case.max_interval as usize) {
        exe.tick();
    }
    if case.warm {
        drv.poll(true);
    }
    let mut threads = vec![];
    for (init, ops) in p.init.iter().zip(p.ops.iter()) {
        let mut table: Vec<(usize, Waker)> = init.iter().map(|t| (*t, st.slots[*t].lock().unwrap().clone().expect("every task was polled once"))).collect();
        let ops = ops.clone();
        let st = st.clone();
        let main_waker = drv.waker();
        let notify = drv.notify();
        let probe = probe.clone();
        threads.push(shuttle::thread::spawn(move || {
            for op in ops {
                let phase = st.rt_phase.load(Ordering::SeqCst);
                let note = |st: &Stats| {
                    st.remote_wakes.fetch_add(1, Ordering::SeqCst);
                    match phase {
                        1 => st.overlap_tick.fetch_add(1, Ordering::SeqCst),
                        2 => st.overlap_wait.fetch_add(1, Ordering::SeqCst),
                        _ => 0,
                    };
                };
                // did this wake() call invoke the runtime's waker at least once?
                let n0 = probe.notifies_of_current_thread();
                match op {
                    ROp::Wake(i) => {
                        let (t, w) = table.remove(i);
                        st.sent[t].fetch_add(1, Ordering::SeqCst);
                        note(&st);
                        w.wake();
                        if probe.notifies_of_current_thread() > n0 {
                            st.notified_wakes[t].fetch_add(1, Ordering::SeqCst);
                        }
                    }
                    ROp::WakeByRef(i) => {
                        let t = table[i].0;
                        st.sent[t].fetch_add(1, Ordering::SeqCst);
                        note(&st);
                        table[i].1.wake_by_ref();
                        if probe.notifies_of_current_thread() > n0 {
                            st.notified_wakes[t].fetch_add(1, Ordering::SeqCst);
                        }
                    }
                    ROp::Clone(i) => {
                        let c = (table[i].0, table[i].1.clone());
                        table.push(c);
                    }
                    ROp::Drop(i) => drop(table.remove(i)),
                    ROp::WakeMain => {
                        st.main_sent.fetch_add(1, Ordering::SeqCst);
                        note(&st);
                        main_waker.wake_by_ref();
                    }
                    ROp::Yield => shuttle::thread::yield_now(),
                }
            }
            drop(table);
            drop(main_waker);
            st.wakers_done.fetch_add(1, Ordering::SeqCst);
            notify.waker_thread_finished();
        }));
    }
    let waker = drv.waker();
    let mut cx = Context::from_waker(&waker);
    let bound = p.tasks.div_ceil(case.max_interval as usize) as u32 + 1;
    let mut ticks_after_all_returned = 0u32;
    let mut iterations = 0u32;
    loop {
        iterations += 1;
        let all_returned = st.wakers_done.load(Ordering::SeqCst) == n_threads;
        if main.as_mut().poll(&mut cx).is_ready() {
            exe.tick();
            break;
        }
        st.rt_phase.store(1, Ordering::SeqCst);
        let mut remaining = exe.tick();
        st.rt_phase.store(0, Ordering::SeqCst);
        if all_returned {
            ticks_after_all_returned += 1;
            if ticks_after_all_returned > bound + 3 {
                let lag: Vec<String> = (0..p.tasks).filter(|i| st.seen[*i].load(Ordering::SeqCst) < st.sent[*i].load(Ordering::SeqCst)).map(|i| format!("task{i}")).collect();
                verdict.note(
                    "C03/wake-not-delivered-within-bound",
                    format!("{ticks_after_all_returned} ticks after every wake() had returned the loop is still running; tasks with unseen messages: {lag:?}"),
                );
                break;
            }
        }
        if iterations > 10_000 {
            verdict.note("C03/runtime-loop-spins", "10000 loop iterations without completing".into());
            break;
        }
        st.rt_phase.store(2, Ordering::SeqCst);
        let w = match case.shape {
            Shape::BlockOn => drv.poll(remaining),
            Shape::External => {
                remaining |= drv.flush();
                match drv.external_wait(remaining) {
                    Wait::Returned => drv.poll(true),
                    Wait::Stranded => Wait::Stranded,
                }
            }
        };
        st.rt_phase.store(0, Ordering::SeqCst);
        if w == Wait::Stranded {
            // Every wake() call has returned, nothing is pending in the (model) kernel, and the runtime
            // thread is about to sleep for ever although the main future is not finished: a wake-up was
            // lost.  Classify it with one rescue tick (semantically redundant if nothing was lost).
            let lag: Vec<usize> = (0..p.tasks).filter(|i| st.seen[*i].load(Ordering::SeqCst) < p.expected[*i]).collect();
            let main_lag = st.main_seen.load(Ordering::SeqCst) < p.main_expected;
            let kernel = format!("notifier eventfd={} armed={} queued NOTIFY completions={}", probe.efd.load(Ordering::Relaxed), probe.armed.load(Ordering::Relaxed), probe.cqes.load(Ordering::Relaxed));
            let unarmed = case.kind == Kind::Iour && case.shape == Shape::External && probe.armed.load(Ordering::Relaxed) == 0 && probe.efd.load(Ordering::Relaxed) > 0;
            let before: u64 = st.polls.iter().map(|x| x.load(Ordering::SeqCst)).sum();
            exe.tick();
            let after: u64 = st.polls.iter().map(|x| x.load(Ordering::SeqCst)).sum();
            let progressed = after > before;
            let woken_tasks = p.expected.iter().filter(|e| **e > 0).count();
            let can_fill = woken_tasks > case.sync_queue_size;
            let all_notified = lag.iter().all(|i| st.notified_wakes[*i].load(Ordering::SeqCst) > 0);
            let sig = if unarmed {
                SIG_UNARMED
            } else if lag.is_empty() && main_lag {
                "C03/lost-wake/main-waker"
            } else if lag.is_empty() {
                "C03/lost-wake/join-wake"
            } else if progressed && all_notified && can_fill {
                SIG_FULL_QUEUE
            } else if progressed {
                "C03/lost-wake/queued-but-runtime-not-notified"
            } else {
                "C03/lost-wake/not-queued"
            };
            verdict.note(
                sig,
                format!(
                    "all wake() calls returned, yet the runtime thread would block for ever in {}: tasks with unseen messages {lag:?}, main lagging {main_lag}; a rescue tick {} them; model kernel before the rescue: {kernel}; remote wakes that invoked the runtime waker per lagging task: {:?}",
                    if case.shape == Shape::External { "the external wait / poll" } else { "the driver's wait" },
                    if progressed { "polled" } else { "did not poll" },
                    lag.iter().map(|i| st.notified_wakes[*i].load(Ordering::SeqCst)).collect::<Vec<_>>(),
                ),
            );
            break;
        }
    }
    for t in threads {
        t.join().unwrap();
    }
    cov.remote_wakes.fetch_add(st.remote_wakes.load(Ordering::SeqCst), Ordering::Relaxed);
    cov.overlap_tick.fetch_add(st.overlap_tick.load(Ordering::SeqCst), Ordering::Relaxed);
    cov.overlap_wait.fetch_add(st.overlap_wait.load(Ordering::SeqCst), Ordering::Relaxed);
    cov.syscalls.fetch_add(probe.syscalls.load(Ordering::Relaxed) as u64, Ordering::Relaxed);
    drop(main);
    drop(exe);
    if verdict.is_set() {
        panic!("oracle verdict recorded");
    }
}

#[derive(Default)]
struct Coverage {
    remote_wakes: AtomicU64,
    overlap_tick: AtomicU64,
    overlap_wait: AtomicU64,
    syscalls: AtomicU64,
}

// ------------------------------------------------------------------------------------------------
// interpreter

fn run_case(case: &WakeCase) -> Outcome {
    if case.threads.is_empty() || case.tasks == 0 || case.sync_queue_size == 0 || case.max_interval == 0 {
        return Outcome::inconclusive("malformed case");
    }
    let verdict = Verdict::new();
    let probe = Arc::new(Probe::default());
    let cov = Arc::new(Coverage::default());
    let budget = Budget { random: case.schedules as usize, pct: (case.schedules / 2) as usize, pct_depth: 3, max_steps: 40_000 };
    let (c, v, pr, cv) = (Arc::new(case.clone()), verdict.clone(), probe.clone(), cov.clone());
    let ex = explore(mix(case.sched_seed), budget, move || execution(&c, &v, &pr, &cv));
    let p = plan(case);
    let wakes: u64 = p.expected.iter().sum::<u64>() + p.main_expected;
    if let Some(f) = ex.failure {
        if let Some((sig, detail)) = verdict.take() {
            return Outcome::violation(sig, format!("{detail}; {}", f.describe()));
        }
        let state = format!(
            "model kernel at the end: notifier eventfd={} armed={} queued NOTIFY completions={} runtime blocked in {}",
            probe.efd.load(Ordering::Relaxed),
            probe.armed.load(Ordering::Relaxed),
            probe.cqes.load(Ordering::Relaxed),
            ["nothing", "the driver's wait", "the external wait"][probe.blocked.load(Ordering::Relaxed).min(2) as usize]
        );
        return match f.kind {
            FailKind::Deadlock => {
                let unarmed = case.kind == Kind::Iour && probe.armed.load(Ordering::Relaxed) == 0 && probe.efd.load(Ordering::Relaxed) > 0;
                let sig = if unarmed && case.shape == Shape::External {
                    SIG_UNARMED
                } else if probe.blocked.load(Ordering::Relaxed) != 0 {
                    "C03/lost-wake/runtime-blocked-with-wake-outstanding"
                } else {
                    "C03/deadlock/other"
                };
                Outcome::violation(sig, format!("the runtime thread never finished; {state}; {}", f.describe()))
            }
            FailKind::StepBound => {
                let woken_tasks = p.expected.iter().filter(|e| **e > 0).count();
                let sig = if probe.blocked.load(Ordering::Relaxed) != 0 && woken_tasks > case.sync_queue_size { SIG_SPIN } else { "C03/livelock/step-bound" };
                Outcome::violation(sig, format!("a thread never stopped spinning; {state}; {}", f.describe().chars().take(600).collect::<String>()))
            }
            FailKind::Panic => Outcome::violation(format!("panic@{}:{}", f.file.rsplit_once(':').map(|x| x.0).unwrap_or(&f.file), sched_common::strip_digits(&f.message)), f.describe()),
        };
    }
    let overlapped = cov.overlap_tick.load(Ordering::Relaxed) + cov.overlap_wait.load(Ordering::Relaxed) > 0;
    let mut labels = vec![
        format!("queue:{}", case.sync_queue_size),
        format!("max_interval:{}", case.max_interval),
        format!("driver:{:?}", case.kind),
        format!("loop:{:?}{}", case.shape, if case.warm { "" } else { "-cold" }),
        format!("threads:{}", case.threads.len()),
        format!("tasks:{}", p.tasks),
    ];
    if cov.overlap_tick.load(Ordering::Relaxed) > 0 {
        labels.push("wake-overlapped-tick".into());
    }
    if cov.overlap_wait.load(Ordering::Relaxed) > 0 {
        labels.push("wake-overlapped-driver-wait".into());
    }
    if cov.syscalls.load(Ordering::Relaxed) > 0 {
        labels.push("eventfd-written".into());
    }
    if case.multishot_ends_after != 0 && case.kind == Kind::Iour {
        labels.push("multishot-ends".into());
    }
    if wakes as usize > case.sync_queue_size && p.tasks > case.sync_queue_size {
        labels.push("queue-can-fill".into());
    }
    SCHEDULES.fetch_add(ex.schedules, Ordering::Relaxed);
    Outcome::pass_owned(wakes > 0 && overlapped, labels)
}

static SCHEDULES: AtomicU64 = AtomicU64::new(0);

fn tp(init: &[u16], ops: &[WOp]) -> ThreadProg {
    ThreadProg { init: init.to_vec(), ops: ops.to_vec() }
}

fn main() {
    let mut s = Session::new();
    sched_common::init();
    let unarmed_known = s.known_signatures("C03").contains(SIG_UNARMED);
    let mut p = Part::new(
        "C03",
        "executor-and-flag-under-shuttle",
        "case = sync queue size {1,2,3,64} x max_interval {1,2,61} x 1-4 parked tasks x driver model {io_uring, polling} x loop shape \
         {block_on, external loop (compat drive), each cold or after one complete poll} x multishot notifier poll ending after every n-th \
         completion (n in 0..3, 0 = never) x 1-4 waker threads, each starting with 1-4 wakers and running 1-6 ops of wake / wake_by_ref / \
         clone / drop / wake the main future / yield; x 40 random + 20 PCT(depth 3) shuttle schedules per case (thorough 200 + 100), seeds \
         stored in the case. Real: compio-executor (cfg loom on shuttle) and the AwakeFlag text of compio-driver; modelled: the runtime loop \
         and the driver/kernel below the flag. Non-trivial = a case with at least one remote wake in which, in at least one explored \
         schedule, a wake() call started while the runtime thread was inside tick or inside the driver poll / wait; distinct = distinct \
         serialised case.",
    );
    p.quick_cases = 2400;
    p.thorough_cases = 10_000;
    p.threads = 8;
    p.max_shrink_iters = 300;
    p.assumptions = vec![
        "shuttle explores sequentially consistent interleavings only; reorderings permitted by the Acquire/Release/Relaxed orderings of the executor and of AwakeFlag are out of reach",
        "the runtime loop (block_on / compat drive) and the driver + kernel below AwakeFlag are a model restated from compio-runtime, compio-compat and compio-driver; mutations of those real loops are only reached by the real-thread step",
        "crossbeam's ArrayQueue and the slotmap are not instrumented: push/pop are atomic steps",
        "schedules are sampled (random + PCT), not enumerated",
    ];
    let per_case: u64 = if s.tier() == Tier::Thorough { 300 } else { 60 };
    let w = |w| WOp::Wake { w };
    p.regressions = vec![
        // the #948 scenario: two wakers of one parked task, default queue
        ("two-wakers-one-task", WakeCase { sched_seed: 11, schedules: 400, sync_queue_size: 64, max_interval: 61, tasks: 1, kind: Kind::Iour, shape: Shape::BlockOn, warm: true, multishot_ends_after: 0, threads: vec![tp(&[0], &[w(0)]), tp(&[0], &[w(0)])] }),
        // queue of one, three tasks woken from three threads: wakers must wait, not drop
        ("queue-of-one-three-tasks", WakeCase { sched_seed: 12, schedules: 400, sync_queue_size: 1, max_interval: 1, tasks: 3, kind: Kind::Poll, shape: Shape::BlockOn, warm: false, multishot_ends_after: 0, threads: vec![tp(&[0], &[w(0)]), tp(&[30000], &[w(0)]), tp(&[60000], &[w(0)])] }),
        // main future woken directly through the runtime waker while the loop is about to block
        ("wake-main-cold", WakeCase { sched_seed: 13, schedules: 400, sync_queue_size: 2, max_interval: 2, tasks: 1, kind: Kind::Iour, shape: Shape::BlockOn, warm: false, multishot_ends_after: 1, threads: vec![tp(&[0], &[WOp::WakeMain, w(0)])] }),
        // external loop, warmed up
        ("external-warm", WakeCase { sched_seed: 14, schedules: 400, sync_queue_size: 3, max_interval: 61, tasks: 2, kind: Kind::Iour, shape: Shape::External, warm: true, multishot_ends_after: 0, threads: vec![tp(&[0, 40000], &[w(0), WOp::WakeMain, w(0)])] }),
        ("external-poll-cold", WakeCase { sched_seed: 15, schedules: 400, sync_queue_size: 3, max_interval: 61, tasks: 2, kind: Kind::Poll, shape: Shape::External, warm: false, multishot_ends_after: 0, threads: vec![tp(&[0, 40000], &[w(0), WOp::WakeMain, w(0)])] }),
        // known finding: queue of one, two tasks woken from two threads — the second waker notifies before its push
        ("full-queue-early-notification", WakeCase { sched_seed: 17, schedules: 3000, sync_queue_size: 1, max_interval: 1, tasks: 2, kind: Kind::Poll, shape: Shape::BlockOn, warm: false, multishot_ends_after: 0, threads: vec![tp(&[0], &[w(0)]), tp(&[0, 32768], &[w(32768)])] }),
        // known finding: external loop on io_uring before the notifier poll was ever armed
        ("external-iour-cold", WakeCase { sched_seed: 16, schedules: 2000, sync_queue_size: 64, max_interval: 61, tasks: 1, kind: Kind::Iour, shape: Shape::External, warm: false, multishot_ends_after: 0, threads: vec![tp(&[0], &[w(0)])] }),
    ];
    let mut excluded = vec![];
    if unarmed_known {
        excluded.push("external loop on the io_uring model while the notifier poll is not armed (cold start, or multishot ended) - known finding, regression case only");
    }
    p.extra = vcore::serde_json::json!({ "schedules_per_case": per_case, "excluded_by_construction": excluded });
    let tier = s.tier();
    s.run_part(p, case_strategy(tier, unarmed_known), run_case);
    sched_common::report_schedules(&mut s, "C03", "executor-and-flag-under-shuttle", SCHEDULES.load(Ordering::Relaxed), "cases that hit a listed known finding stop at their first failing schedule and are not counted");
    s.finish();
}
