#!/usr/bin/env python3
"""Regenerate /verif/MANIFEST.json from the per-property table below (only properties whose
checks/<ID>.json exists AND that are listed in CLAIMED are claimed)."""
import json, os, subprocess

V = "/verif"
PBT = "property-based testing (proptest via vcore): "
META = {
 "C01": dict(engine="vcore+drvlab", technique=PBT + "generated submit/feed/poll/cancel/drop programs on the raw Proactor of both drivers; history invariant over the compio_verif hook trace (op alloc/submit/raw CQE/pool done/ring closed/free), tracked buffers with quarantine canaries, tracked descriptors; generated buffer-pool teardown cases with armed buffer-select receives and data injected at the first buffer hand-back (part pool)",
  text="Seeded random exploration of API-step interleavings of submit / OS completion / key drop / token cancel / handle drop / driver drop for recv, pipe read, accept, multishot accept, poll-once, gated thread-pool jobs, read-at and zero-copy send, on io_uring and polling, SQ capacities 1..1024. The oracle is an invariant over the complete event history of each case; no exhaustiveness.",
  note="Drop points are API-step boundaries (driver lab) resp. harness steps between runtime ticks (runtime lab: future, task, token and runtime drops, zero-copy notification order), not arbitrary instructions; kernel trusted; user-space memory errors that do not reach the hook trace need the ASan step (thorough); a pool job outliving its driver leaks by design (listed known finding, shape drained before a drop)."),
 "C02": dict(engine="vcore+drvlab", technique=PBT + "generated mixes of concurrently pending operations with harness-chosen readiness order; validity-predicate oracle over position-coded streams (partition of a prefix), own-buffer round trip, accept-exactly-once, bounded-progress liveness, counting wakers; thread-pool jobs finishing while the driver sleeps in a poll with a readiness event (JobRace) judged by a no-sleep-on-deliverable-completion rule",
  text="Seeded random programs with up to 14 concurrently pending operations over shared and distinct descriptors, capacities down to 1, both drivers; every final outcome is compared with what the harness fed (data, count, EOF, error) and every operation whose awaited event was supplied must complete within a poll bound.",
  note="Kernel-internal completion order between reads pending on one descriptor is not controlled (hence the partition predicate); liveness = 60 polls of <=100 ms (300 for pool jobs); managed-buffer and multishot-read kinds are covered by C07."),
 "C03": dict(engine="vcore+shuttle", technique="property-based testing of schedules: proptest-generated wake programs x shuttle random/PCT schedules of the real executor and the real AwakeFlag text (c03a); generated real-thread wake programs on both drivers and the compat external loop judged by the rescue rule (c03b)",
  text="Sampled sequentially consistent interleavings of N waking threads with the runtime thread's tick / drain / wait sequence for queue sizes 1,2,3,64 on the production executor code (cfg loom over a shuttle shim), plus real-thread runs of the real runtime on io_uring, polling and the tokio-driven external loop.",
  note="Shuttle explores SC interleavings only: reorderings allowed only by the chosen Acquire/Release orderings are out of reach. In c03a the runtime loop and the driver below the AwakeFlag are a restated model (the flag text itself is extracted from the working tree at build time); mutations of the real loops are only reached by c03b, whose schedules belong to the OS."),
 "C04": dict(engine="vcore+shuttle", technique="model-based property testing: generated single-thread executor programs in lock-step with a reference model (c04a); generated cross-thread handle/waker/teardown programs x shuttle schedules (c04b); ASan build of c04a in the thorough tier",
  text="4x10^5 generated spawn/tick/wake/cancel/detach/drop/panic programs per quick run against a reference model with instrumented futures, and sampled SC interleavings of cross-thread JoinHandle and waker use against exactly-once counters.",
  note="Three cross-thread defects remain listed as known findings (teardown use-after-free x2, remote handle drop never taking effect) and their shapes are excluded from the generator by construction; weak-memory reorderings and UnsafeCell races are out of reach of shuttle."),
 "C05": dict(engine="vcore+drvlab", technique=PBT + "generated cancel-vs-readiness-vs-completion programs at the raw Proactor (key drop, cancel token, double cancel, cancel after completion) and at the runtime level (with_cancel incl. personality nesting and pre-fired tokens, timeout, dropped future) with neighbours on the same descriptor; busy rounds (a neighbour descriptor ready in every round) before idle ones; promptness judged by a poll/step bound without supplying the event, honesty by the data oracle, the hook count of operations still alive in the driver",
  text="Seeded random exploration of subsets of pending interruptible operations cancelled by key drop or token at generated moments on both drivers and all capacities; cancelled operations must finish within 12 polls although their event never happens, with a cancellation error or genuine data, neighbours must complete with exactly their data.",
  note="Thread-pool operations are excluded as documented; timeouts are judged only after their deadline has clearly passed."),
 "C06": dict(engine="vcore+shuttle", technique="property-based testing: generated clone/drop/op/close programs with a /proc/self/fd oracle on both drivers (c06a) and proptest cases x shuttle schedules of the unmodified fd.rs release protocol (c06b)",
  text="Same-thread descriptor lifecycle programs judged by descriptor-table snapshots (nothing leaked, nothing closed twice or in use, close resolves exactly when the last holder lets go) and sampled SC interleavings of take() against concurrent drops.",
  note="c06b runs fd.rs over shuttle stand-ins for Arc / waker slot (shim crate synchrony); SC only."),
 "C07": dict(engine="vcore", technique=PBT + "generated managed / multishot read programs with hold times, cancellations and early stream drops on the io_uring buffer ring and the fallback pool; exclusivity (disjoint address ranges via a tracking allocator, stable content snapshots), position-coded data and conservation oracles",
  text="3 000 generated programs per quick run on pipes, TCP, Unix, UDP and files with harness-controlled feeding, held buffers, cancellations, early stream drops and driver-only poll steps, pool sizes 1-16 x buffer lengths 16-256, both pools; at the end exactly N buffers are obtainable and the (N+1)-th request fails with an error.",
  note="One pending operation per resource; data lost with a cancelled operation is tolerated; buffers outliving the runtime are accounted through the tracking allocator."),
 "C08": dict(engine="vcore", technique=PBT + "three-way differential testing: the same generated file/pipe/directory program on the io_uring runtime, the polling runtime (thread-pool fallback) and a synchronous std::fs/libc reference",
  text="2 000 generated programs per quick run (<= 25 steps: open options, positional/sequential single/vectored I/O with generated buffer shapes, offsets beyond EOF, truncate, sync, metadata, permissions, pipes, directory utilities) compared step by step and by final directory state.",
  note="Timestamps, inode numbers and error text are excluded; two kernel check-order differences (errno of a doubly invalid call, zero-length read of a directory) are not judged; offset u64::MAX on io_uring is a listed known finding."),
 "C09": dict(engine="vcore", technique=PBT + "generated timer sets and creation/drop/stall orders on a harness-stepped runtime; exact never-early oracle on the monotonic clock, current_timeout bounds, no-residue and interval alignment invariants",
  text="800 generated cases per quick run on both drivers with event_interval 1/2/61, foreign-thread completions and wake-ups; completion before the deadline, a sleep longer than the nearest deadline, a stranded or residual timer and a misaligned interval tick are violations.",
  note="Lateness is never judged (labelled only); two verdicts that depend on wall-clock margins are reported only if reproduced 3 of 3 times, otherwise inconclusive."),
 "C10": dict(engine="vcore", technique=PBT + "generated view compositions and fill sequences against an address-based shadow-memory oracle and a reference model of the slicing geometry",
  text="Seeded random exploration of root buffer kinds x view chains (depth 0-4) x fill sequences, and of vectored containers x views x fills; every reported pointer/length is judged against a shadow copy of the physically pre-initialised root allocation.",
  note="Parameters are drawn inside the documented preconditions; reserve() is not exercised on pinned views; sizes <= 64 bytes; pool buffers come from the fallback pool (pop is unsupported on the io_uring ring); shrinking set_len is outside the property."),
 "C11": dict(engine="vcore", technique=PBT + "generated payloads x transfer scripts (short reads/writes, Interrupted, errors, EOF) over recording mocks against a trace-based reference written from the rustdoc; libFuzzer target c11_helpers over the same interpreter (thorough)",
  text="~5x10^5 generated helper / buffered / in-memory cases per quick run (2x10^7 + 10^6 libFuzzer executions thorough).",
  note="Always-ready mocks, no cancellation points; window contents after an error are not compared."),
 "C12": dict(engine="vcore", technique=PBT + "generated op programs over SyncStream / AsyncStream and their halves against a two-FIFO model with a scheduled recording inner stream and counting wakers; libFuzzer target c12_adapters (thorough)",
  text="6x10^4 generated programs per quick run (3x10^6 + 10^6 libFuzzer executions thorough); FIFO, limit, retry-after-failed-flush and per-entry-point wake-up rules are checked after every op.",
  note="Single-threaded harness-owned schedules; when the sync side answers WouldBlock is not specified by the property and always accepted as 'service me'."),
 "C13": dict(engine="vcore", technique=PBT + "round trip through the real Framed sink and stream under generated fragmentation and partial writes; hostile byte streams judged against an independent reference parser with a step bound; cmsg builder/iterator round trip with a canary; libFuzzer target c13_frames (thorough)",
  text="4x10^5 generated cases per quick run over every framer/codec and control-message lists; 8x10^6 + 4x10^5 libFuzzer executions thorough.",
  note="Hostile bytes are not fed to the unsafe AncillaryIter::new / RecvMsgMultiResult::new, whose contract requires kernel-valid input."),
 "C14": dict(engine="vcore", technique=PBT + "generated sender/receiver scripts over TCP, Unix stream, UDP and Unix datagram sockets and accept programs on both drivers; position-coded payload equality, datagram truncation and source-address oracles, accept-exactly-once; request/response uploads under back-pressure with the reply read armed on the same descriptor, stalls judged by state (part duplex)",
  text="~10 600 generated cases per quick run: sender/receiver scripts on one connection (every send/recv flavour incl. vectored, zero-copy, managed, multishot, split halves, 0-300 KiB), datagram lists with per-datagram flavours and capacities incl. ancillary data, accept programs mixing accept() and incoming().",
  note="Kernel loopback trusted (<= 16 outstanding datagrams); multishot streams are only dropped when nothing is outstanding; MSG_CTRUNC is a label, not a verdict."),
 "C15": dict(engine="vcore", technique=PBT + "generated transport schedules (per-call byte limits, pending-then-wake, flush-gated visibility) of an in-memory duplex under both TLS back-ends, and a throttling proxy under WebSocket; stream equality, exact dead-lock detection and step bound",
  text="1 200 generated in-memory TLS conversations (native-tls and rustls x client/server roles) and 400 WebSocket conversations over throttled socketpairs (plain and TLS, both drivers) per quick run; handshake, byte/message equality, clean close, no dead-lock (exact: both sides pending, no waker fired, nothing scheduled) and no spin.",
  note="Fixed test certificates under fixtures/tls; the rustls handshake-flush defect of futures-rustls is a listed known finding and its shape is avoided by construction; OS-owned interleavings of the WS half and third-party protocol internals are not enumerated."),
 "C16": dict(engine="vcore", technique=PBT + "generated QUIC transport configurations, stream/datagram programs, reader pacing and close points over loopback endpoints; per-stream byte equality, datagram subset/integrity, every pending future resolved after close (rescue rule); generated groups of blocked open_*_wait callers released by one stream-limit grant (part openers)",
  text="~100 generated loopback scenarios per quick run (window and stream-limit configurations, concurrent uni/bidi streams with generated write/read chunkings and pacing, datagrams, close before/during/after by either side via connection or endpoint) with every future polled by the harness; after close every pending future of nine kinds must have been woken.",
  note="Schedules belong to the OS; most protocol logic is quinn-proto (trusted), the check targets compio-quic's waker bookkeeping."),
 "C17": dict(engine="vcore", technique=PBT + "generated dispatch programs on real threads (direct dispatch from 1-6 threads and 1-3 runtimes sharing a pool); exact per-job execution counters, running-jobs gauge, hand-back identity, panic delivery",
  text="~650 generated programs per quick run with limits 1-8, idle timeouts 1-50 ms, bursts above the limit and idle gaps.",
  note="Real OS threads: cases are seeded, schedules belong to the OS, replay repeats the saved case 30x; hangs are exact only where /proc shows no worker alive, otherwise inconclusive."),
 "C18": dict(engine="vcore", technique=PBT + "generated dispatcher programs on real threads; exact start counters per closure, per-worker overlap gauges, tagged results, Canceled-not-hang after join, thread-exit and panic propagation checks; generated subsets of workers killed by an executor panic while the others are busy (part worker-death)",
  text="~900 generated programs per quick run (workers 1-4, concurrent/sequential, 1-6 dispatching threads x 1-40 tasks, yield/sleep/pipe/panic bodies, three join points).",
  note="Schedules belong to the OS; hangs are watchdog-inconclusive; a join deadlock with thread_pool_limit(1) and pool-using workers is documented in notes/C18.md and kept out of the generator."),
 "C19": dict(engine="vcore", technique=PBT + "generated actor programs on a real cluster (spawn, send, call, stop, handler failure, supervisor respawn, process-group traffic from 1-4 threads); per-actor logs, overlap gauge, lifecycle order, registry and routing models, hand-polled call futures",
  text="~750 generated programs per quick run over 1-3 workers and mailbox capacities 1-8.",
  note="Cross-thread acceptance order is not observable, FIFO is checked per sender; schedules belong to the OS."),
 "C20": dict(engine="vcore", technique=PBT + "generated parent/child scenarios with the harness binary as helper child (echo / produce / exit code / signal) on both drivers; position-coded stdio equality, exact exit status, exit-marker ordering",
  text="520 generated scenarios per quick run (payloads 0-256 KiB around the pipe capacity, all chunkings, wait before/after draining, wait_with_output).",
  note="On the polling driver parent writes are capped at 4096 bytes while the blocking-pipe deadlock is a listed known finding; the nightly pidfd path is not compiled."),
}
CLAIMED = [l.strip() for l in open(os.path.join(V, "tools", "claimed.txt")) if l.strip() and not l.startswith("#")]
ids = [json.loads(l)["id"] for l in open(os.path.join(V, "properties.jsonl")) if l.strip()]
commits = subprocess.run(["git", "-C", "/repo", "log", "--format=%h %s"], capture_output=True, text=True).stdout.splitlines()
hooks = [c.split()[0] for c in commits if "verif hooks" in c]
checks = []
for i in ids:
    if i in CLAIMED and os.path.exists(os.path.join(V, "checks", i + ".json")):
        m = META[i]
        checks.append({
            "property_id": i,
            "quick_cmd": f"./check {i} --tier quick",
            "thorough_cmd": f"./check {i} --tier thorough",
            "evidence_file": f"evidence/{i}.json",
            "replay_cmd_template": f"./check {i} --replay {{path}}",
            "engine": m["engine"],
            "technique": m["technique"],
            "level_claimed": {"category": "exploration", "text": m["text"], "design_ref": f"DESIGN.md §3 {i}; notes/{i}*.md"},
            "level_note": m["note"],
        })
na = [{"property_id": i, "reason": "check not finished yet in this session (planned: DESIGN.md §3/§8); no claim is made until its check exists and is silent on the unchanged tree"}
      for i in ids if i not in [c["property_id"] for c in checks]]
man = {
 "version": 1,
 "setup_cmd": "./check --setup",
 "hooks": {
  "guard": "--cfg compio_verif",
  "enable": "every harness workspace under /verif sets [build] rustflags = [\"--cfg\", \"compio_verif\"] in its .cargo/config.toml and depends on the crates under /repo by path, so each check rebuilds /repo's working tree with the guard on (the shuttle workspace adds --cfg loom)",
  "baseline_off_cmd": "cd /repo && cargo nextest run --workspace --no-fail-fast --test-threads 8 --offline",
  "source_commits": hooks,
  "add_only": True,
 },
 "engines": [
  {"name": "vcore", "path": "vcore/", "serves_properties": [c["property_id"] for c in checks], "kind_free_text": "proptest-driven engine: seeded generation by construction, interpreter + explicit oracle, distinct non-trivial counting with label histograms, shrinking to a JSON replay file, known-findings handling, evidence parts merged by ./check"},
  {"name": "drvlab", "path": "ws-driver/drvlab/", "serves_properties": ["C01", "C02", "C05"], "kind_free_text": "driver laboratory: one interpreter of generated step programs over a raw Proactor (both drivers), with the result, cancellation and lifetime oracles"},
  {"name": "shuttle", "path": "ws-sched/", "serves_properties": ["C03", "C04", "C06"], "kind_free_text": "randomised schedule exploration (shuttle random + PCT) of the unmodified executor / fd.rs / AwakeFlag through shim crates named loom and synchrony"},
  {"name": "libfuzzer", "path": "ws-io-fuzz/, ws-frame-fuzz/", "serves_properties": ["C11", "C12", "C13"], "kind_free_text": "cargo-fuzz targets decoding bytes into the same case types and calling the same interpreters (thorough tier)"},
 ],
 "checks": checks,
 "not_applicable": na,
 "notes": "Findings of the checks are in known_findings.json (status fixed: repaired by a 'fix:' commit in /repo; status known: reported with a KNOWN-FINDING line). DESIGN.md describes the approach; notes/<ID>.md the per-property details, sensitivity tables and limits.",
}
json.dump(man, open(os.path.join(V, "MANIFEST.json"), "w"), indent=1)
print("claimed:", [c["property_id"] for c in checks])
