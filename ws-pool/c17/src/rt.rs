//! C17 part `runtimes`: 1–3 compio runtimes on their own threads share one `AsyncifyPool`.
use std::{
    sync::{atomic::Ordering, mpsc, Arc},
    time::{Duration, Instant},
};

use compio_buf::{BufResult, IntoInner};
use compio_driver::{op::Asyncify, AsyncifyPool, DriverType, ProactorBuilder};
use compio_runtime::{JoinError, Runtime};
use serde::{Deserialize, Serialize};
use vcore::{
    proptest::{collection::vec, prelude::*},
    Outcome, Part, Session,
};

use crate::{job_body, payload_string, wait_no_workers, Shared, StartLine, Token, PANIC_MARK};

const RT: &str = "c17rt";

#[derive(Debug, Clone, Serialize, Deserialize)]
pub struct RJob {
    pub dur_us: u16,
    pub panic: bool,
    /// `Runtime::spawn_blocking` instead of a raw `Asyncify` op
    pub spawn_blocking: bool,
}

#[derive(Debug, Clone, Serialize, Deserialize)]
pub struct Round {
    pub jobs: Vec<RJob>,
    pub gap_ms: u8,
}

#[derive(Debug, Clone, Serialize, Deserialize)]
pub struct RtSpec {
    pub iour: bool,
    pub rounds: Vec<Round>,
}

#[derive(Debug, Clone, Serialize, Deserialize)]
pub struct RtCase {
    pub limit: u8,
    pub idle_ms: u8,
    pub rts: Vec<RtSpec>,
}

fn expected_value(id: usize) -> u64 {
    (id as u64).wrapping_mul(0x2545_F491_4F6C_DD1D) ^ 0x17
}

enum Got {
    Value(u64, std::io::Result<usize>),
    Panic(String),
    Cancelled,
}

/// runs on a runtime thread; returns violations as (signature, detail)
fn drive(rt: &Runtime, sh: &Arc<Shared>, spec: &RtSpec, first_id: usize) -> Option<(String, String)> {
    let mut id0 = first_id;
    for round in &spec.rounds {
        let bad = rt.block_on(async {
            let mut hs = vec![];
            for (k, j) in round.jobs.iter().enumerate() {
                let id = id0 + k;
                let token = Token::new(sh, id);
                let (dur, pan) = (j.dur_us as u32, j.panic);
                if j.spawn_blocking {
                    let h = compio_runtime::spawn_blocking(move || {
                        let token = token;
                        job_body(&token.sh, id, dur, pan);
                        expected_value(id)
                    });
                    hs.push((id, compio_runtime::spawn(async move {
                        match h.await {
                            Ok(v) => Got::Value(v, Ok(0)),
                            Err(JoinError::Panicked(p)) => Got::Panic(payload_string(&*p)),
                            Err(JoinError::Cancelled) => Got::Cancelled,
                        }
                    })));
                } else {
                    let op = Asyncify::new(move || {
                        let token = token;
                        job_body(&token.sh, id, dur, pan);
                        BufResult(Ok(7), expected_value(id))
                    });
                    let inner = compio_runtime::spawn(async move {
                        let BufResult(r, op) = compio_runtime::submit(op).await;
                        (r, op.into_inner())
                    });
                    hs.push((id, compio_runtime::spawn(async move {
                        match inner.await {
                            Ok((r, v)) => Got::Value(v, r),
                            Err(JoinError::Panicked(p)) => Got::Panic(payload_string(&*p)),
                            Err(JoinError::Cancelled) => Got::Cancelled,
                        }
                    })));
                }
            }
            for ((id, h), j) in hs.into_iter().zip(round.jobs.iter()) {
                let got = match h.await {
                    Ok(g) => g,
                    Err(_) => Got::Cancelled,
                };
                match (j.panic, got) {
                    (false, Got::Value(v, r)) => {
                        let r_ok = if j.spawn_blocking { true } else { matches!(r, Ok(7)) };
                        if v != expected_value(id) || !r_ok {
                            return Some(("C17/rt/result-mismatch".to_string(), format!("job {id}: submitter got value {v:#x} / {r:?}, expected {:#x}", expected_value(id))));
                        }
                    }
                    (true, Got::Panic(p)) => {
                        if !(p.contains(PANIC_MARK) && p.ends_with(&format!(" {id}"))) {
                            return Some(("C17/rt/foreign-panic".to_string(), format!("job {id}: submitter saw panic payload {p:?}")));
                        }
                    }
                    (true, Got::Value(v, r)) => {
                        return Some(("C17/rt/panic-swallowed".to_string(), format!("job {id} panicked on the pool thread but its submitter received a value ({v:#x}, {r:?})")));
                    }
                    (false, Got::Panic(p)) => {
                        return Some(("C17/rt/unexpected-panic".to_string(), format!("job {id} does not panic but its submitter saw {p:?}")));
                    }
                    (_, Got::Cancelled) => {
                        return Some(("C17/rt/job-cancelled".to_string(), format!("job {id}: the submitter's task was cancelled")));
                    }
                }
            }
            if round.gap_ms > 0 {
                compio_runtime::time::sleep(Duration::from_millis(round.gap_ms as u64)).await;
            }
            None
        });
        if bad.is_some() {
            return bad;
        }
        id0 += round.jobs.len();
    }
    None
}

pub fn run_rt(case: &RtCase) -> Outcome {
    let limit = case.limit.clamp(1, 8) as usize;
    let idle = Duration::from_millis(case.idle_ms.clamp(1, 50) as u64);
    if !wait_no_workers(RT, 0, Duration::from_secs(10)) {
        return Outcome::inconclusive("pool workers of an earlier case still alive");
    }
    let n = case.rts.len();
    let njobs: usize = case.rts.iter().flat_map(|r| r.rounds.iter()).map(|r| r.jobs.len()).sum();
    let (sh, drop_rx) = Shared::new(njobs);
    let pool = AsyncifyPool::new(limit, idle);
    let line = Arc::new(StartLine::new());
    let (tx, rx) = mpsc::channel::<(usize, Result<Option<(String, String)>, String>)>();
    let mut first = 0;
    let mut hs = vec![];
    for (i, spec) in case.rts.iter().enumerate() {
        let (sh, pool, line, tx, spec) = (sh.clone(), pool.clone(), line.clone(), tx.clone(), spec.clone());
        let first_id = first;
        first += spec.rounds.iter().map(|r| r.jobs.len()).sum::<usize>();
        hs.push(
            std::thread::Builder::new()
                .name(RT.into())
                .spawn(move || {
                    let mut pb = ProactorBuilder::new();
                    pb.driver_type(if spec.iour { DriverType::IoUring } else { DriverType::Poll }).capacity(64).reuse_thread_pool(pool);
                    let rt = match Runtime::builder().with_proactor(pb).build() {
                        Ok(rt) => rt,
                        Err(e) => {
                            line.wait(n, 1);
                            let _ = tx.send((i, Err(format!("runtime build: {e}"))));
                            return;
                        }
                    };
                    line.wait(n, 1);
                    let r = drive(&rt, &sh, &spec, first_id);
                    drop(rt);
                    let _ = tx.send((i, Ok(r)));
                })
                .expect("spawn runtime thread"),
        );
    }
    drop(tx);
    let mut bad = None;
    let mut reported = 0;
    let start = Instant::now();
    let mut progress = (0u32, Instant::now());
    let mut samples = 0;
    let mut stranded = false;
    while reported < n {
        match rx.recv_timeout(Duration::from_millis(100)) {
            Ok((_, Ok(None))) => reported += 1,
            Ok((_, Ok(Some(v)))) => {
                reported += 1;
                bad = bad.or(Some(v));
            }
            Ok((_, Err(e))) => return Outcome::inconclusive(e),
            Err(mpsc::RecvTimeoutError::Disconnected) => return Outcome::inconclusive("a runtime thread died"),
            Err(mpsc::RecvTimeoutError::Timeout) => {
                if start.elapsed() > Duration::from_secs(60) {
                    return Outcome::inconclusive("a runtime thread did not finish within the watchdog");
                }
                // same diagnosis and rescue as in the `direct` part: nothing has run for 3 s, the
                // runtime threads are the only tasks of their name (no pool worker exists)
                // exact: the drivers never hand a closure back to the harness, so a closure that was
                // destroyed without having run is an accepted job that the pool dropped
                if let Some(id) = (0..njobs).find(|i| sh.jobs[*i].dropped.load(Ordering::SeqCst) > 0 && sh.jobs[*i].exec.load(Ordering::SeqCst) == 0) {
                    return Outcome::violation("C17/rt/accepted-job-dropped", format!("job {id}: its closure was destroyed without running while its submitter is still waiting"));
                }
                let execs: u32 = sh.jobs.iter().map(|j| j.exec.load(Ordering::SeqCst)).sum();
                if execs != progress.0 {
                    progress = (execs, Instant::now());
                    samples = 0;
                } else if !stranded && progress.1.elapsed() > Duration::from_secs(3) {
                    if crate::tasks_named(RT) <= n - reported {
                        samples += 1;
                    } else {
                        samples = 0;
                    }
                    if samples >= 3 {
                        stranded = true;
                        let pool = pool.clone();
                        let _ = std::thread::Builder::new().name("c17resc".into()).spawn(move || {
                            let _ = pool.dispatch(|| {});
                        });
                    }
                }
            }
        }
    }
    drop(pool);
    for h in hs {
        let _ = h.join();
    }
    if let Some((sig, detail)) = bad {
        return Outcome::violation(sig, detail);
    }
    if stranded {
        return Outcome::violation(
            "C17/dispatch-blocked/no-worker-alive",
            format!("limit {limit}, idle timeout {} ms: no job ran for 3 s while no pool worker thread existed and a runtime was blocked in its driver's push_blocking; a no-op dispatched from another thread released it", idle.as_millis()),
        );
    }
    while drop_rx.try_recv().is_ok() {}
    for id in 0..njobs {
        let exec = sh.jobs[id].exec.load(Ordering::SeqCst);
        let dropped = sh.jobs[id].dropped.load(Ordering::SeqCst);
        if exec != 1 {
            return Outcome::violation(if exec == 0 { "C17/rt/job-never-ran" } else { "C17/rt/job-ran-twice" }, format!("job {id} executed {exec} times although its submitter got an answer"));
        }
        if dropped != 1 {
            return Outcome::violation(if dropped == 0 { "C17/rt/closure-leaked" } else { "C17/rt/closure-dropped-twice" }, format!("job {id}: closure destroyed {dropped} times"));
        }
    }
    let _ = wait_no_workers(RT, 0, idle * 40 + Duration::from_secs(5));
    let class = if n == 1 { "single-dispatch" } else { "concurrent-dispatch" };
    let max = sh.max_running.load(Ordering::SeqCst) as usize;
    let burst = case.rts.iter().flat_map(|r| r.rounds.iter()).map(|r| r.jobs.len()).max().unwrap_or(0);
    let total_burst: usize = case.rts.iter().map(|r| r.rounds.first().map(|r| r.jobs.len()).unwrap_or(0)).sum();
    let idle_gap = case.rts.iter().any(|r| r.rounds.len() >= 2 && r.rounds[..r.rounds.len() - 1].iter().any(|x| x.gap_ms as u128 >= 2 * idle.as_millis()));
    let mut labels = vec![class.to_string()];
    if max == limit {
        labels.push("gauge==limit".into());
    }
    if idle_gap {
        labels.push("gap>=2*idle".into());
    }
    if case.rts.iter().any(|r| r.iour) {
        labels.push("io_uring".into());
    }
    if case.rts.iter().any(|r| !r.iour) {
        labels.push("polling".into());
    }
    if case.rts.iter().flat_map(|r| r.rounds.iter()).flat_map(|r| r.jobs.iter()).any(|j| j.panic) {
        labels.push("panic".into());
    }
    if sh.workers.lock().unwrap().values().any(|c| *c >= 2) {
        labels.push("worker-reused".into());
    }
    if max > limit {
        return Outcome::violation(
            format!("C17/limit-exceeded/{class}"),
            format!("limit {limit}: {max} pool jobs were running at the same moment ({n} runtime(s) sharing the pool)"),
        );
    }
    Outcome::pass_owned(burst > limit || total_burst > limit || idle_gap, labels)
}

fn job_strategy() -> impl Strategy<Value = RJob> + Clone {
    (prop_oneof![3 => Just(0u16), 3 => 0u16..600, 3 => 600u16..6000, 1 => 6000u16..20000], prop_oneof![9 => Just(false), 1 => Just(true)], any::<bool>())
        .prop_map(|(dur_us, panic, spawn_blocking)| RJob { dur_us, panic, spawn_blocking })
}

fn spec_strategy() -> impl Strategy<Value = RtSpec> + Clone {
    (any::<bool>(), vec((vec(job_strategy(), 1..=10), prop_oneof![2 => Just(0u8), 2 => 0u8..=110]).prop_map(|(jobs, gap_ms)| Round { jobs, gap_ms }), 1..=3))
        .prop_map(|(iour, rounds)| RtSpec { iour, rounds })
}

pub fn case_strategy() -> impl Strategy<Value = RtCase> + Clone {
    (prop_oneof![3 => Just(1u8), 3 => Just(2u8), 2 => 3u8..=4, 1 => 5u8..=8], 5u8..=50, vec(spec_strategy(), 1..=3)).prop_map(|(limit, idle_ms, rts)| RtCase { limit, idle_ms, rts })
}

pub fn run(s: &mut Session) -> bool {
    let mut p = Part::new(
        "C17",
        "runtimes",
        "case = one AsyncifyPool(limit 1-8, idle 5-50 ms) shared via ProactorBuilder::reuse_thread_pool by 1-3 runtimes (each its own thread, io_uring or polling \
         driver) x 1-3 rounds of 1-10 blocking jobs (raw Asyncify op or spawn_blocking; duration 0-20 ms; 10 % panic) submitted at once and then awaited, \
         with a 0-110 ms sleep between rounds. Classes: single-dispatch (1 runtime) / concurrent-dispatch (>=2). Non-trivial = a round (or the first rounds of \
         all runtimes together) has more jobs than the limit, or a gap >= 2x idle timeout is followed by another round; distinct = distinct serialised case.",
    );
    // a process abort (double panic in a Drop, poisoned lock) while a case runs is a verdict about that case
    p.crash_guard = true;
    p.quick_cases = 240;
    p.thorough_cases = 6000;
    p.replay_repeats = 30;
    p.max_shrink_iters = 16;
    p.assumptions = vec!["the drivers' push_blocking retry loop is exercised as is (the harness cannot see DispatchError there)"];
    let j = |dur_us, panic, spawn_blocking| RJob { dur_us, panic, spawn_blocking };
    p.regressions = vec![
        (
            "one-runtime-limit1-burst-with-panic",
            RtCase {
                limit: 1,
                idle_ms: 10,
                rts: vec![RtSpec {
                    iour: true,
                    rounds: vec![Round { jobs: vec![j(2000, false, false), j(0, true, false), j(500, false, true), j(100, true, true)], gap_ms: 40 }, Round { jobs: vec![j(0, false, true)], gap_ms: 0 }],
                }],
            },
        ),
        (
            "three-runtimes-limit1",
            RtCase {
                limit: 1,
                idle_ms: 20,
                rts: (0..3).map(|i| RtSpec { iour: i != 1, rounds: vec![Round { jobs: vec![j(3000, false, i == 0), j(3000, false, false), j(3000, false, true)], gap_ms: 0 }] }).collect(),
            },
        ),
    ];
    if s.args.shard.0 != 0 {
        // the fixed cases run once per check, in shard 0
        p.regressions.clear();
    }
    s.run_part(p, case_strategy(), |c| crate::with_breaker(c, run_rt))
}
