//! Rule (verbatim into the evidence) and fixed regression cases of C12.
use iolib::{c12::*, pat::ErrKind};

pub const RULE: &str = "case = adapter flavour (SyncStream<S>, its split halves, AsyncStream<(R,W)>, its split AsyncReadStream/AsyncWriteStream) x base capacity \
in {1,2,8,64} x max size in {base, 2*base, 64 MiB} x one schedule per direction for the inner mock stream (0-14 steps: deliver/accept at most n | Pending, \
woken j harness steps later | error kind | Ok(0)) x 1-24 ops (read(n), fill_buf, consume(k <= shown), read_buf_uninit(n), write(n), flush, and for the sync \
flavours fill_read_buf / flush_write_buf / into_parts, for the poll flavours poll_close; poll ops are issued by one of 3 counting wakers, a parked task \
re-polls or abandons its call). The inner reader delivers a position-coded infinite stream, the written bytes are position-coded by the number of \
acknowledged bytes; model = delivered/handed-out and acknowledged/received counters. WouldBlock of the sync side is answered by the servicing call and \
only progress afterwards is required. Non-trivial = >= 2 ops and a Pending or short transfer happened while the adapter held buffered data of that \
direction, a write was cut by the size limit, or a refill followed a partial consume (compaction); distinct = distinct serialised case.";

pub fn assumptions() -> Vec<&'static str> {
    vec![
        "only the most recent waker per poll function is owed a wake-up (futures-io contract); a task superseded on its entry point is dropped from the model",
        "the inner mock stores the latest waker on every poll, as a well-behaved leaf future does",
        "consume(k) is only called with k <= the bytes the last fill_buf showed and not yet consumed",
        "after poll_close has been called the harness only drives the close (no further writes)",
        "a poll_write is not issued while a flush future is suspended inside the inner flush (known finding) unless the case opts in",
    ]
}

fn op(kind: AdKind, task: u8) -> AdOp {
    AdOp { kind, task }
}

pub fn cases() -> Vec<(&'static str, AdapterCase)> {
    use AdKind::*;
    use InnerStep::*;
    vec![
        // --- known finding: stale flush future
        (
            "known-poll_flush-stale-future",
            AdapterCase {
                base: 0,
                max: MaxSpec::Base,
                flavour: Flavour::Poll,
                rsched: vec![],
                wsched: vec![Xfer(1), Pending { wake_after: 0 }],
                ops: vec![op(Write(1), 0), op(Write(1), 0), op(Write(0), 0), op(Flush, 0)],
                polite: true,
                stale_flush: true,
            },
        ),
        (
            "known-poll_close-stale-future",
            AdapterCase {
                base: 2,
                max: MaxSpec::Unlimited,
                flavour: Flavour::PollHalves,
                rsched: vec![],
                wsched: vec![Xfer(1), Pending { wake_after: 0 }],
                ops: vec![op(Write(1), 0), op(Flush, 0), op(Write(1), 0), op(Close, 0)],
                polite: true,
                stale_flush: true,
            },
        ),
        (
            "known-poll_close-debug-assert",
            AdapterCase {
                base: 0,
                max: MaxSpec::Base,
                flavour: Flavour::Poll,
                rsched: vec![],
                wsched: vec![Xfer(1), Pending { wake_after: 0 }, Xfer(1), Pending { wake_after: 0 }],
                ops: vec![op(Write(1), 0), op(Write(1), 0), op(Write(0), 0), op(Close, 0)],
                polite: true,
                stale_flush: true,
            },
        ),
        // --- known finding: read buffer grows past max_buffer_size
        (
            "known-read-buffer-exceeds-max",
            AdapterCase { base: 2, max: MaxSpec::Base, flavour: Flavour::Sync, rsched: vec![Xfer(5), Xfer(5)], wsched: vec![], ops: vec![op(ServiceRead, 0), op(ServiceRead, 0)], polite: false, stale_flush: false },
        ),
        // --- golden cases
        (
            "sync-compaction-and-failed-flush-retry",
            AdapterCase {
                base: 2,
                max: MaxSpec::Twice,
                flavour: Flavour::Sync,
                rsched: vec![Xfer(5), Pending { wake_after: 2 }, Xfer(3), Fail(ErrKind::ConnectionReset), Xfer(20), Eof],
                wsched: vec![Xfer(2), Fail(ErrKind::BrokenPipe), Pending { wake_after: 1 }, Xfer(1), Eof],
                ops: vec![
                    op(Read(3), 0),
                    op(FillBuf, 0),
                    op(Consume(20000), 0),
                    op(ServiceRead, 0),
                    op(Write(9), 0),
                    op(Write(9), 0),
                    op(ServiceWrite, 0),
                    op(ServiceWrite, 0),
                    op(ReadUninit(40), 0),
                    op(ServiceRead, 0),
                    op(ServiceRead, 0),
                    op(Write(30), 0),
                    op(ServiceWrite, 0),
                    op(Read(100), 0),
                    op(IntoParts, 0),
                ],
                polite: true,
                stale_flush: false,
            },
        ),
        (
            // found by the campaign (harness protocol): tasks parked on write/flush when another task starts the close
            "poll-close-started-while-others-parked",
            AdapterCase {
                base: 3,
                max: MaxSpec::Base,
                flavour: Flavour::Poll,
                rsched: vec![],
                wsched: vec![Pending { wake_after: 2 }, Pending { wake_after: 0 }, Pending { wake_after: 2 }],
                ops: vec![op(Write(1), 0), op(Flush, 0), op(Write(1), 1), op(Flush, 2), op(Close, 0)],
                polite: true,
                stale_flush: false,
            },
        ),
        (
            "poll-three-tasks-parked-on-read",
            AdapterCase {
                base: 1,
                max: MaxSpec::Unlimited,
                flavour: Flavour::Poll,
                rsched: vec![Pending { wake_after: 3 }, Xfer(2), Pending { wake_after: 0 }, Xfer(7)],
                wsched: vec![Pending { wake_after: 2 }, Xfer(1), Xfer(3)],
                ops: vec![op(Read(4), 0), op(FillBuf, 1), op(ReadUninit(2), 2), op(Write(5), 0), op(Flush, 1), op(Read(4), 0), op(FillBuf, 1), op(Consume(65535), 1), op(ReadUninit(2), 2), op(Close, 2)],
                polite: true,
                stale_flush: false,
            },
        ),
    ]
}
