//! C14 part "accept-fault": a transient accept failure must not lose connections.
//!
//! The fault is real: for a moment the process has no free descriptor (RLIMIT_NOFILE lowered to the
//! highest open descriptor + 1 and every hole plugged), so the pending accept fails with EMFILE while
//! the connection stays in the listen queue.  Afterwards the descriptors are given back and the same
//! `incoming()` stream (or further `accept()` calls) must yield every connection exactly once.
//! The descriptor limit is process global: this part runs with one worker thread.
use std::{cell::RefCell, collections::BTreeMap, io, os::fd::AsRawFd, path::PathBuf, rc::Rc, time::Duration};

use compio_buf::BufResult;
use compio_io::AsyncReadExt;
use compio_net::{TcpListener, TcpStream, UnixListener, UnixStream};
use futures_util::StreamExt;
use netlab::{build_rt, drive, errno_name, join_now, Drv, RtCfg, SharedLog};
use serde::{Deserialize, Serialize};
use socket2::{Domain, SockAddr, Socket, Type};
use vcore::{proptest::prelude::*, Outcome, Part, Session};

use crate::stream::Transport;

#[derive(Debug, Clone, Serialize, Deserialize)]
pub struct FaultCase {
    pub drv: Drv,
    pub transport: Transport,
    /// true: one `incoming()` stream lives across the fault; false: single `accept()` calls
    pub via_incoming: bool,
    /// connections accepted normally before the fault
    pub pre: u8,
    /// connections made while no descriptor is free (they wait in the listen queue)
    pub during: u8,
    /// how many times the acceptor is polled to an error while the descriptors are exhausted
    pub error_polls: u8,
    /// connections made after the descriptors are back
    pub post: u8,
}

/// For the duration of a case the soft descriptor limit is the highest open descriptor + 65: every
/// accept of the case — also a multishot accept armed long before the fault, which keeps the limit it
/// saw when it was prepared — works under a limit the harness can fill up.
struct FdBudget {
    old: libc::rlimit,
}

impl FdBudget {
    fn new() -> Option<Self> {
        unsafe {
            let mut old: libc::rlimit = std::mem::zeroed();
            if libc::getrlimit(libc::RLIMIT_NOFILE, &mut old) != 0 {
                return None;
            }
            let scan = (old.rlim_cur as i32).min(16384);
            let mut maxfd = 2;
            for fd in 0..scan {
                if libc::fcntl(fd, libc::F_GETFD) != -1 {
                    maxfd = fd;
                }
            }
            let lowered = libc::rlimit { rlim_cur: (maxfd as u64 + 65).min(old.rlim_cur), rlim_max: old.rlim_max };
            if libc::setrlimit(libc::RLIMIT_NOFILE, &lowered) != 0 {
                return None;
            }
            Some(FdBudget { old })
        }
    }
}

impl Drop for FdBudget {
    fn drop(&mut self) {
        unsafe { libc::setrlimit(libc::RLIMIT_NOFILE, &self.old) };
    }
}

/// No free descriptor in this process while this value lives (every hole below the limit is plugged).
struct FdExhaust {
    plugs: Vec<i32>,
}

impl FdExhaust {
    fn new() -> Option<Self> {
        let mut plugs = vec![];
        loop {
            let d = unsafe { libc::dup(0) };
            if d < 0 {
                break;
            }
            plugs.push(d);
            if plugs.len() > 4096 {
                // the limit is not what FdBudget set: give up
                for d in &plugs {
                    unsafe { libc::close(*d) };
                }
                return None;
            }
        }
        Some(FdExhaust { plugs })
    }
}

impl Drop for FdExhaust {
    fn drop(&mut self) {
        for d in &self.plugs {
            unsafe { libc::close(*d) };
        }
    }
}

enum L {
    Tcp(TcpListener),
    Unix(UnixListener, PathBuf),
}

enum Conn {
    Tcp(TcpStream),
    Unix(UnixStream),
}

impl L {
    /// an unconnected client socket (its descriptor is allocated here, before any exhaustion)
    fn client_socket(&self) -> io::Result<Socket> {
        match self {
            L::Tcp(l) => Socket::new(if l.local_addr()?.is_ipv4() { Domain::IPV4 } else { Domain::IPV6 }, Type::STREAM, None),
            L::Unix(..) => Socket::new(Domain::UNIX, Type::STREAM, None),
        }
    }

    /// connect (completes against the listen queue) and send the id byte; needs no new descriptor
    fn connect(&self, s: &Socket, id: u8) -> io::Result<()> {
        match self {
            L::Tcp(l) => s.connect(&SockAddr::from(l.local_addr()?))?,
            L::Unix(_, p) => s.connect(&SockAddr::unix(p)?)?,
        }
        s.send(&[id]).map(|_| ())
    }
}

#[derive(Default)]
struct Book {
    launched: Vec<u8>,
    yielded: Vec<u8>,
    errors: Vec<String>,
    yielded_after_error: usize,
    done: bool,
}

async fn read_id(c: Conn, keep: &mut Vec<Conn>) -> io::Result<u8> {
    let (r, b) = match c {
        Conn::Tcp(mut s) => {
            let BufResult(r, b) = s.read_exact([0u8; 1]).await;
            keep.push(Conn::Tcp(s));
            (r, b)
        }
        Conn::Unix(mut s) => {
            let BufResult(r, b) = s.read_exact([0u8; 1]).await;
            keep.push(Conn::Unix(s));
            (r, b)
        }
    };
    r.map(|_| b[0])
}

async fn acceptor(l: L, case: FaultCase, book: Rc<RefCell<Book>>, log: SharedLog) {
    let mut clients: Vec<Socket> = vec![];
    let mut keep: Vec<Conn> = vec![];
    let mut next_id = 0u8;
    macro_rules! bad {
        ($sig:expr, $($fmt:tt)+) => {{ log.violate(format!("C14/accept-fault/{}", $sig), format!($($fmt)+)); return; }};
    }
    // one closure-like macro for "take the next connection", over both styles and both listener kinds
    macro_rules! run {
        ($lst:expr, $wrap:path, $inc:ident) => {{
            let lst = $lst;
            let mut $inc = if case.via_incoming { Some(lst.incoming()) } else { None };
            macro_rules! next_conn {
                () => {
                    match $inc.as_mut() {
                        Some(s) => s.next().await.map(|r| r.map($wrap)),
                        None => Some(lst.accept().await.map(|(s, _)| $wrap(s))),
                    }
                };
            }
            macro_rules! launch {
                ($n:expr, $presocket:expr) => {{
                    for s in $presocket.into_iter().take($n as usize) {
                        let s: Socket = s;
                        if let Err(e) = l.connect(&s, next_id) {
                            bad!("client-connect-error", "client {next_id}: {e}");
                        }
                        book.borrow_mut().launched.push(next_id);
                        next_id += 1;
                        clients.push(s);
                    }
                }};
            }
            macro_rules! take_ok {
                ($phase:expr) => {{
                    match next_conn!() {
                        Some(Ok(c)) => match read_id(c, &mut keep).await {
                            Ok(id) => book.borrow_mut().yielded.push(id),
                            Err(e) => bad!("yielded-connection-dead", "{}: reading the id from a yielded connection: {e}", $phase),
                        },
                        Some(Err(e)) => bad!(format!("unexpected-error/{}", errno_name(&e)), "{}: {e} although descriptors are available; yielded so far {:?}", $phase, book.borrow().yielded),
                        None => bad!(
                            if book.borrow().errors.is_empty() { "stream-ended" } else { "stream-ended-after-error" },
                            "{}: the incoming() stream ended with {} connections still waiting (launched {:?}, yielded {:?}, errors seen {:?})",
                            $phase,
                            book.borrow().launched.len() - book.borrow().yielded.len(),
                            book.borrow().launched,
                            book.borrow().yielded,
                            book.borrow().errors
                        ),
                    }
                }};
            }
            // ---- before the fault
            let pres: Vec<Socket> = match (0..case.pre).map(|_| l.client_socket()).collect() {
                Ok(v) => v,
                Err(e) => bad!("client-socket-error", "{e}"),
            };
            launch!(case.pre, pres);
            for _ in 0..case.pre {
                take_ok!("before the fault");
            }
            // ---- the fault: sockets first, then no descriptor is free, then the connections arrive
            let durs: Vec<Socket> = match (0..case.during).map(|_| l.client_socket()).collect() {
                Ok(v) => v,
                Err(e) => bad!("client-socket-error", "{e}"),
            };
            let posts: Vec<Socket> = match (0..case.post).map(|_| l.client_socket()).collect() {
                Ok(v) => v,
                Err(e) => bad!("client-socket-error", "{e}"),
            };
            {
                let Some(guard) = FdExhaust::new() else {
                    log.note("cannot exhaust descriptors");
                    book.borrow_mut().done = true;
                    return;
                };
                launch!(case.during, durs);
                for k in 0..case.error_polls {
                    match next_conn!() {
                        Some(Err(e)) => book.borrow_mut().errors.push(errno_name(&e)),
                        Some(Ok(c)) => {
                            // an accept that succeeded without a free descriptor: the exhaustion did not work
                            drop(c);
                            drop(guard);
                            log.note("accept succeeded although no descriptor was free");
                            book.borrow_mut().done = true;
                            return;
                        }
                        None => {
                            drop(guard);
                            bad!("stream-ended", "the incoming() stream ended at failing accept #{k} (errors so far {:?})", book.borrow().errors)
                        }
                    }
                }
                drop(guard);
            }
            // ---- afterwards: everything that waited, and the newcomers, exactly once
            for _ in 0..case.during {
                take_ok!("after the fault");
                book.borrow_mut().yielded_after_error += 1;
            }
            launch!(case.post, posts);
            for _ in 0..case.post {
                take_ok!("after the fault (new connection)");
                book.borrow_mut().yielded_after_error += 1;
            }
        }};
    }
    match &l {
        L::Tcp(lst) => run!(lst, Conn::Tcp, inc),
        L::Unix(lst, _) => run!(lst, Conn::Unix, inc),
    }
    book.borrow_mut().done = true;
    std::future::pending::<()>().await;
    drop((keep, clients, l));
}

pub fn run_fault(case: &FaultCase) -> Outcome {
    let Some(_budget) = FdBudget::new() else { return Outcome::inconclusive("cannot set RLIMIT_NOFILE") };
    let rt = match build_rt(&RtCfg::new(case.drv)) {
        Ok(rt) => rt,
        Err(e) => return Outcome::inconclusive(format!("runtime build: {e}")),
    };
    let log = SharedLog::new();
    let book = Rc::new(RefCell::new(Book::default()));
    let tmp = if case.transport == Transport::Unix { tempfile::Builder::new().prefix("c14f").tempdir().ok() } else { None };
    let tr = case.transport;
    let path = tmp.as_ref().map(|t| t.path().join("l.sock"));
    let mut mk = rt.spawn(async move {
        io::Result::Ok(match tr {
            Transport::Tcp4 => L::Tcp(TcpListener::bind("127.0.0.1:0").await?),
            Transport::Tcp6 => L::Tcp(TcpListener::bind("[::1]:0").await?),
            Transport::Unix => {
                let p = path.unwrap();
                L::Unix(UnixListener::bind(&p).await?, p)
            }
        })
    });
    if !drive(&rt, || mk.is_finished(), Duration::from_secs(60)) {
        return Outcome::inconclusive("watchdog: bind");
    }
    let l = match join_now(&mut mk) {
        Some(Ok(Ok(l))) => l,
        _ => return Outcome::inconclusive("listener setup failed"),
    };
    let lfd = match &l {
        L::Tcp(l) => l.as_raw_fd(),
        L::Unix(l, _) => l.as_raw_fd(),
    };
    let mut h = rt.enter(|| rt.spawn(acceptor(l, case.clone(), book.clone(), log.clone())));
    let finished = drive(&rt, || log.failed() || h.is_finished() || book.borrow().done, Duration::from_secs(60));
    let panic_msg = if h.is_finished() { join_now(&mut h).and_then(|r| r.err()) } else { None };
    let lg = log.take();
    let result = if let Some((sig, detail)) = lg.violation {
        Outcome::violation(sig, detail)
    } else if let Some(e) = panic_msg {
        Outcome::violation(format!("C14/accept-fault/{}", netlab::strip_digits(&e)), e)
    } else if !finished {
        let b = book.borrow();
        Outcome::inconclusive(format!("watchdog: launched {:?} yielded {:?} errors {:?}", b.launched, b.yielded, b.errors))
    } else if !lg.notes.is_empty() {
        Outcome::inconclusive(lg.notes.join("; "))
    } else {
        let b = book.borrow();
        let mut seen: BTreeMap<u8, u32> = BTreeMap::new();
        for id in &b.yielded {
            *seen.entry(*id).or_default() += 1;
        }
        let mut pfd = libc::pollfd { fd: lfd, events: libc::POLLIN, revents: 0 };
        let queued = unsafe { libc::poll(&mut pfd, 1, 0) } != 0;
        if b.launched.iter().any(|id| seen.get(id) != Some(&1)) || seen.len() != b.launched.len() {
            Outcome::violation("C14/accept-fault/not-exactly-once", format!("launched {:?}, yielded {:?} (errors seen {:?})", b.launched, b.yielded, b.errors))
        } else if queued {
            Outcome::violation("C14/accept-fault/listen-queue-not-empty", format!("every client was yielded ({:?}) but the listener is still readable", b.yielded))
        } else {
            let mut labels = vec![format!("drv:{}", case.drv.name()), format!("transport:{:?}", case.transport), format!("via:{}", if case.via_incoming { "incoming" } else { "accept" })];
            for e in &b.errors {
                labels.push(format!("error:{e}"));
            }
            labels.sort();
            labels.dedup();
            Outcome::pass_owned(!b.errors.is_empty() && b.yielded_after_error > 0, labels)
        }
    };
    drop(h);
    drop(rt);
    result
}

pub fn case_strategy() -> impl Strategy<Value = FaultCase> + Clone {
    (
        prop_oneof![Just(Drv::IoUring), Just(Drv::Poll)],
        prop_oneof![2 => Just(Transport::Tcp4), 1 => Just(Transport::Tcp6), 2 => Just(Transport::Unix)],
        prop_oneof![3 => Just(true), 1 => Just(false)],
        0u8..=3,
        1u8..=3,
        1u8..=2,
        0u8..=3,
    )
        .prop_map(|(drv, transport, via_incoming, pre, during, error_polls, post)| FaultCase { drv, transport, via_incoming, pre, during, error_polls, post })
}

pub fn run(s: &mut Session) {
    let mut p = Part::new(
        "C14",
        "accept-fault",
        "case = driver {io_uring, poll} x listener {TCP v4, TCP v6, Unix} x acceptor style (one incoming() stream across the whole case, or accept() calls) x 0-3 connections accepted \
         normally, then 1-3 connections made while the process has no free descriptor (RLIMIT_NOFILE is lowered for the whole case, then every hole is plugged: the pending accept fails with EMFILE, the connections stay queued), \
         the acceptor polled to 1-2 errors, descriptors given back, then the queued and 0-3 new connections taken; every client sends its id. Oracle: after the error items the same stream / \
         further accept() calls yield every started client exactly once, the stream never ends, listen queue empty at the end. Non-trivial = at least one accept error was observed and at \
         least one connection was yielded after it; distinct = distinct serialised case.",
    );
    p.quick_cases = 300;
    p.thorough_cases = 5000;
    p.threads = 1; // the descriptor limit is process global
    p.max_shrink_iters = 200;
    p.assumptions = vec!["an accept that fails for want of a descriptor leaves the connection in the listen queue (Linux allocates the descriptor before dequeuing)"];
    p.regressions = vec![(
        "emfile-then-continue",
        FaultCase { drv: Drv::IoUring, transport: Transport::Tcp4, via_incoming: true, pre: 1, during: 2, error_polls: 2, post: 1 },
    )];
    s.run_part(p, case_strategy(), run_fault);
}
