#![no_main]
//! libFuzzer target for C11: the input is decoded with `arbitrary::Unstructured` into one of the
//! three C11 case types (`iolib::arb::c11_any`) and run through the same interpreters as the check
//! parts loops / buffered / mem.  An unlisted violation (or a panic of the code under test) aborts
//! the process, which libFuzzer records as a crash artifact; the artifact converts to a JSON replay
//! with `c11 --from-bytes <artifact>`.  Counters are dumped at exit into $VERIF_FUZZ_STATS.
use arbitrary::Unstructured;
use iolib::{
    arb::{c11_any, C11Any},
    c11_buf, c11_loops, c11_mem,
    fuzz::{fuzz_one, Target},
};
use libfuzzer_sys::fuzz_target;

static TARGET: Target = Target {
    id: "C11",
    part: "fuzz-c11_helpers",
    rule: "libFuzzer input decoded with arbitrary::Unstructured: the first draw selects the part (loops | buffered | mem), the rest builds that part's case \
           type; same interpreters and non-triviality rules as the check parts; distinct = distinct decoded case",
};

fuzz_target!(|data: &[u8]| {
    let mut u = Unstructured::new(data);
    let Ok(case) = c11_any(&mut u) else { return };
    match &case {
        C11Any::Loops(c) => fuzz_one(&TARGET, "loops", c, || c11_loops::run_helper(c)),
        C11Any::Buffered(c) => fuzz_one(&TARGET, "buffered", c, || c11_buf::run_buf(c)),
        C11Any::Mem(c) => fuzz_one(&TARGET, "mem", c, || c11_mem::run_mem(c)),
    }
});
