#!/bin/bash
# (copy of /verif/tools/mutant_run.sh; adds: env KNOWN_FINDINGS=<file> replaces the known_findings.json the scratch run sees,
#  used to validate a proposed fix patch with the finding no longer listed)
# usage: mutant_run.sh <ws-name> <bin> <repo-worktree> [binary args...]
# Builds a scratch copy of /verif/<ws-name> whose path dependencies point into <repo-worktree>
# instead of /repo, runs <bin> there with evidence/replays redirected to a scratch VERIF_DIR.
# Exit code = the binary's exit code (1 = VIOLATION found, i.e. the mutation was caught).
set -u
WS="$1"; BIN="$2"; WT="$(realpath "$3")"; shift 3
TAG="$(echo "$WT" | tr '/' '_')"
SCR="/tmp/mut-${WS}${TAG}"
mkdir -p "$SCR/ws" "$SCR/verif/evidence/parts" "$SCR/verif/replays"
rsync -a --delete --exclude target --exclude 'target-*' "/verif/$WS/" "$SCR/ws/$WS/"
rsync -a --delete "/verif/vcore/" "$SCR/ws/vcore/" --exclude target
# shims or sibling dirs some workspaces need
for extra in fixtures; do [ -d "/verif/$extra" ] && rsync -a "/verif/$extra/" "$SCR/verif/$extra/"; done
cp "${KNOWN_FINDINGS:-/verif/known_findings.json}" "$SCR/verif/known_findings.json" 2>/dev/null
find "$SCR/ws/$WS" -name Cargo.toml -o -name '*.rs' -o -name 'config.toml' | xargs sed -i "s#/repo/#$WT/#g; s#\"/repo\"#\"$WT\"#g; s#\.\./\.\./vcore#$SCR/ws/vcore#g"
cd "$SCR/ws/$WS" || exit 2
export CARGO_NET_OFFLINE=true VERIF_DIR="$SCR/verif" CARGO_TARGET_DIR="$SCR/target"
cargo build -j6 --bin "$BIN" 2>&1 | tail -n 25
[ "${PIPESTATUS[0]}" -ne 0 ] && { echo "mutant_run: build failed"; exit 2; }
"$SCR/target/debug/$BIN" "$@"
rc=$?
echo "mutant_run: exit=$rc (scratch: $SCR)"
exit $rc
