//! C13 parts (i) round trip and (iii) hostile input for `compio_io::framed`.
use std::{fmt::Debug, io, ops::Range};

use compio_buf::bytes::Bytes;
use compio_io::framed::{
    codec::{
        bytes::BytesCodec,
        serde_json::{SerdeJsonCodec, SerdeJsonCodecError},
        Decoder, Encoder,
    },
    frame::{AnyDelimited, CharDelimited, Framer as FramerTrait, LengthDelimited, NoopFramer},
    Framed,
};
use futures_util::{SinkExt, StreamExt};
use serde::{Deserialize, Serialize};
use vcore::Outcome;

use crate::mock::{drive, Frag, FragReader, ReadLog, RecWriter};

// ------------------------------------------------------------------------------------------------
// known findings: shapes that are excluded from generated cases while the finding is listed as
// `known` (cases with `strict: true`, i.e. the reproduction regressions, are never adjusted)

pub const SIG_LEN_OVERFLOW: &str = "C13/length_delimited/len+lfl-overflow";
pub const SIG_SINK_FLUSH: &str = "C13/sink/accepted-bytes-not-flushed";
pub const SIG_CMSG_LARGER: &str = "C13/cmsg/decode-larger-than-payload";

#[derive(Debug, Clone, Copy, Default)]
pub struct Excl {
    pub len_overflow: bool,
    pub sink_flush: bool,
    pub cmsg_larger: bool,
}

impl Excl {
    pub fn from_signatures(known: &std::collections::HashSet<String>) -> Self {
        Excl { len_overflow: known.contains(SIG_LEN_OVERFLOW), sink_flush: known.contains(SIG_SINK_FLUSH), cmsg_larger: known.contains(SIG_CMSG_LARGER) }
    }

    /// read `<verif_dir>/known_findings.json` (used by the fuzz target, which has no `Session`)
    pub fn load(verif_dir: &std::path::Path) -> Self {
        let mut set = std::collections::HashSet::new();
        if let Ok(t) = std::fs::read_to_string(verif_dir.join("known_findings.json")) {
            if let Ok(v) = serde_json::from_str::<serde_json::Value>(&t) {
                for f in v["findings"].as_array().cloned().unwrap_or_default() {
                    if f["property"] == "C13" && f["status"] == "known" {
                        if let Some(s) = f["signature"].as_str() {
                            set.insert(s.to_string());
                        }
                    }
                }
            }
        }
        Self::from_signatures(&set)
    }
}

// ------------------------------------------------------------------------------------------------
// case types

#[derive(Debug, Clone, Serialize, Deserialize, PartialEq, Eq)]
pub enum Framer {
    /// `LengthDelimited::new().set_length_field_len(width).set_length_field_is_big_endian(..)`,
    /// width is clamped into 1..=8
    Len { width: u8, big_endian: bool },
    /// `CharDelimited::<'\n'>` (= `LineDelimited`)
    CharNl,
    /// `CharDelimited::<'ℝ'>` (3-byte delimiter E2 84 9D, the one of the repository's unit test)
    CharR,
    /// `CharDelimited::<'\0'>`
    CharNul,
    /// `AnyDelimited::new(delim)`; an empty delimiter is replaced by `[b'\n']`, longer than 4 is cut
    Any { delim: Vec<u8> },
    /// `NoopFramer::new()` (no framing: a byte-stream bridge, max chunk 4096)
    Noop,
}

impl Framer {
    pub fn name(&self) -> String {
        match self {
            Framer::Len { width, big_endian } => format!("len{}{}", (*width).clamp(1, 8), if *big_endian { "be" } else { "le" }),
            Framer::CharNl => "char-nl".into(),
            Framer::CharR => "char-R".into(),
            Framer::CharNul => "char-nul".into(),
            Framer::Any { .. } => format!("any{}", self.delim().map(|d| d.len()).unwrap_or(0)),
            Framer::Noop => "noop".into(),
        }
    }

    pub fn kind(&self) -> &'static str {
        match self {
            Framer::Len { .. } => "length_delimited",
            Framer::CharNl | Framer::CharR | Framer::CharNul => "char_delimited",
            Framer::Any { .. } => "any_delimited",
            Framer::Noop => "noop",
        }
    }

    pub fn width(&self) -> Option<usize> {
        match self {
            Framer::Len { width, .. } => Some((*width).clamp(1, 8) as usize),
            _ => None,
        }
    }

    /// the effective delimiter of the delimiter framers
    pub fn delim(&self) -> Option<Vec<u8>> {
        match self {
            Framer::CharNl => Some(b"\n".to_vec()),
            Framer::CharR => Some("ℝ".as_bytes().to_vec()),
            Framer::CharNul => Some(vec![0]),
            Framer::Any { delim } => {
                if delim.is_empty() {
                    Some(b"\n".to_vec())
                } else {
                    Some(delim[..delim.len().min(4)].to_vec())
                }
            }
            _ => None,
        }
    }
}

/// The small value grammar of the JSON codec.
#[derive(Debug, Clone, Serialize, Deserialize, PartialEq, Eq)]
pub struct Doc {
    pub id: u32,
    pub name: String,
    pub n: i64,
    pub flag: bool,
    pub tags: Vec<String>,
    pub child: Option<Box<Doc>>,
}

#[derive(Debug, Clone, Serialize, Deserialize, PartialEq, Eq)]
pub enum Items {
    /// `BytesCodec`, item type `Bytes`
    Bytes(Vec<Vec<u8>>),
    /// `SerdeJsonCodec` (compact or pretty), item type `Doc`
    Json { pretty: bool, docs: Vec<Doc> },
}

#[derive(Debug, Clone, Serialize, Deserialize)]
pub struct FrameCase {
    pub framer: Framer,
    pub items: Items,
    /// per item (cyclic): `true` = `SinkExt::send` (feed + flush), `false` = `SinkExt::feed`
    pub send: Vec<bool>,
    /// after the last item: `true` = `SinkExt::close`, `false` = `SinkExt::flush`
    pub end_close: bool,
    /// partial-write schedule of the recording writer (cyclic; empty = accept everything)
    pub wsched: Vec<Frag>,
    /// the writer holds accepted bytes back until `flush`/`shutdown` (a buffering writer)
    pub lazy: bool,
    /// fragmentation schedule of the reader (cyclic; empty = everything at once)
    pub rsched: Vec<Frag>,
    /// initial capacities of the read / write buffers given with `with_buffer` (0,0 = default buffers)
    pub rcap: u16,
    pub wcap: u16,
    /// run exactly as written even if a known finding would exclude this shape
    #[serde(default)]
    pub strict: bool,
}

#[derive(Debug, Clone, Serialize, Deserialize, PartialEq, Eq)]
pub enum CodecKind {
    Bytes,
    Json,
}

#[derive(Debug, Clone, Serialize, Deserialize)]
pub struct HostileCase {
    pub framer: Framer,
    pub codec: CodecKind,
    pub stream: Vec<u8>,
    pub rsched: Vec<Frag>,
    pub rcap: u16,
    /// run exactly as written even if a known finding would exclude this shape
    #[serde(default)]
    pub strict: bool,
}

// ------------------------------------------------------------------------------------------------
// reference model of the wire formats (independent of the implementation)

pub fn ref_encode(framer: &Framer, payload: &[u8], out: &mut Vec<u8>) -> (Range<usize>, Range<usize>) {
    // returns (marker range = header or delimiter, whole frame range)
    let start = out.len();
    match framer {
        Framer::Len { big_endian, .. } => {
            let w = framer.width().unwrap();
            let len = payload.len() as u64;
            if *big_endian {
                out.extend_from_slice(&len.to_be_bytes()[8 - w..]);
            } else {
                out.extend_from_slice(&len.to_le_bytes()[..w]);
            }
            out.extend_from_slice(payload);
            (start..start + w, start..out.len())
        }
        Framer::Noop => {
            out.extend_from_slice(payload);
            (start..start, start..out.len())
        }
        _ => {
            let d = framer.delim().unwrap();
            out.extend_from_slice(payload);
            let m = out.len();
            out.extend_from_slice(&d);
            (m..out.len(), start..out.len())
        }
    }
}

#[derive(Debug, PartialEq, Eq)]
pub enum RefEnd {
    /// ran out of bytes (a trailing incomplete frame is dropped at EOF)
    Eof,
    /// a length field (starting at this offset) whose value + field width does not fit `usize`
    Overflow(usize),
}

/// Payload ranges a correct decoder finds in `stream`.
pub fn ref_parse(framer: &Framer, stream: &[u8]) -> (Vec<Range<usize>>, RefEnd) {
    let mut v = vec![];
    let mut pos = 0;
    match framer {
        Framer::Len { big_endian, .. } => {
            let w = framer.width().unwrap();
            loop {
                if stream.len() - pos < w {
                    return (v, RefEnd::Eof);
                }
                let mut b = [0u8; 8];
                let len = if *big_endian {
                    b[8 - w..].copy_from_slice(&stream[pos..pos + w]);
                    u64::from_be_bytes(b)
                } else {
                    b[..w].copy_from_slice(&stream[pos..pos + w]);
                    u64::from_le_bytes(b)
                };
                let total = len as u128 + w as u128;
                if total > usize::MAX as u128 {
                    return (v, RefEnd::Overflow(pos));
                }
                let total = total as usize;
                if stream.len() - pos < total {
                    return (v, RefEnd::Eof);
                }
                v.push(pos + w..pos + total);
                pos += total;
            }
        }
        Framer::Noop => (v, RefEnd::Eof),
        _ => {
            let d = framer.delim().unwrap();
            loop {
                let rest = &stream[pos..];
                match (0..rest.len().saturating_sub(d.len() - 1)).find(|&i| rest[i..i + d.len()] == d[..]) {
                    Some(i) => {
                        v.push(pos..pos + i);
                        pos += i + d.len();
                    }
                    None => return (v, RefEnd::Eof),
                }
            }
        }
    }
}

/// Make `p` a legal payload for the delimiter `d`: the first occurrence of `d` in `p ++ d` must be
/// at `p.len()`.  Bytes that start an earlier occurrence are replaced by a byte that does not occur
/// in `d` (so no new occurrence can appear).  Returns the number of replaced bytes.
pub fn repair_payload(p: &mut Vec<u8>, d: &[u8]) -> usize {
    let filler = (0u8..=255).rev().find(|b| !d.contains(b)).unwrap();
    let mut fixed = 0;
    loop {
        let mut all = p.clone();
        all.extend_from_slice(d);
        let first = (0..=all.len() - d.len()).find(|&i| all[i..i + d.len()] == d[..]).unwrap();
        if first >= p.len() {
            return fixed;
        }
        p[first] = filler;
        fixed += 1;
    }
}

fn map_doc_strings(d: &mut Doc, f: &impl Fn(&str) -> String) {
    d.name = f(&d.name);
    for t in &mut d.tags {
        *t = f(t);
    }
    if let Some(c) = &mut d.child {
        map_doc_strings(c, f);
    }
}

// ------------------------------------------------------------------------------------------------
// running the real code

pub trait ErrIo {
    fn is_io(&self) -> bool;
}
impl ErrIo for io::Error {
    fn is_io(&self) -> bool {
        true
    }
}
impl ErrIo for SerdeJsonCodecError {
    fn is_io(&self) -> bool {
        matches!(self, SerdeJsonCodecError::IoError(_))
    }
}

pub struct SinkPlan<'a> {
    pub send: &'a [bool],
    pub end_close: bool,
    pub wsched: &'a [Frag],
    pub lazy: bool,
    pub rcap: u16,
    pub wcap: u16,
}

pub struct SinkRun {
    pub wire: Vec<u8>,
    pub last_was_feed: bool,
}

fn encode_all<C, F, T>(codec: C, framer: F, items: Vec<T>, plan: &SinkPlan) -> Result<SinkRun, Outcome>
where
    C: Encoder<T, Vec<u8>> + Unpin,
    C::Error: Debug,
    F: FramerTrait<Vec<u8>> + Unpin,
    T: Unpin,
{
    let (w, wlog) = RecWriter::new(plan.wsched.to_vec(), plan.lazy);
    let mut framed = Framed::symmetric::<T>(codec, framer).with_writer(w);
    if plan.rcap > 0 || plan.wcap > 0 {
        framed = framed.with_buffer(Vec::with_capacity(plan.rcap as usize), Vec::with_capacity(plan.wcap as usize));
    }
    let mut last_was_feed = false;
    let n = items.len();
    // Sink contract: when send / flush / close return Ok, everything accepted so far has been
    // flushed to the underlying writer
    let held_check = |after: &str| -> Result<(), Outcome> {
        let held = wlog.held.borrow().len();
        if held > 0 {
            return Err(Outcome::violation(
                SIG_SINK_FLUSH,
                format!(
                    "{after} returned Ok but {held} accepted bytes were never flushed to the (buffering) writer: {} reached the peer, writer saw {} write, {} flush, {} shutdown calls",
                    wlog.out.borrow().len(),
                    wlog.writes.get(),
                    wlog.flushes.get(),
                    wlog.shutdowns.get()
                ),
            ));
        }
        Ok(())
    };
    for (i, item) in items.into_iter().enumerate() {
        let send = plan.send.is_empty() || plan.send[i % plan.send.len()];
        let r = if send { drive(framed.send(item), 100_000) } else { drive(framed.feed(item), 100_000) };
        match r {
            None => return Err(Outcome::violation("C13/sink/stuck", format!("item {i}/{n}: sink future still pending after 100000 polls with a waking mock"))),
            Some(Err(e)) => return Err(Outcome::violation("C13/sink/error", format!("item {i}/{n}: {e:?}"))),
            Some(Ok(())) => {}
        }
        if send {
            held_check(&format!("send() of item {i}/{n}"))?;
        }
        last_was_feed = !send;
    }
    let r = if plan.end_close { drive(framed.close(), 100_000) } else { drive(framed.flush(), 100_000) };
    match r {
        None => return Err(Outcome::violation("C13/sink/stuck", "close/flush still pending after 100000 polls")),
        Some(Err(e)) => return Err(Outcome::violation("C13/sink/error", format!("close/flush: {e:?}"))),
        Some(Ok(())) => {}
    }
    held_check(if plan.end_close {
        if last_was_feed {
            "close() after feed()"
        } else {
            "close()"
        }
    } else if last_was_feed {
        "flush() after feed()"
    } else {
        "flush()"
    })?;
    drop(framed);
    let wire = wlog.out.borrow().clone();
    Ok(SinkRun { wire, last_was_feed })
}

pub enum Got<T> {
    Item(T),
    /// codec-level error (the frame was consumed, the stream goes on)
    CodecErr(String),
    /// I/O-level error (from the reader or the framer)
    IoErr(String),
}

pub struct DecodeRun<T> {
    pub got: Vec<Got<T>>,
    /// `None` was returned (clean end)
    pub ended: bool,
    pub stuck: bool,
    pub too_many: bool,
    /// what the poll after an I/O error gave: "none" | "io" | "codec" | "item" | "stuck"
    pub after_io: Option<&'static str>,
    pub log: std::rc::Rc<ReadLog>,
}

fn decode_all<C, F, T>(codec: C, framer: F, wire: &[u8], rsched: &[Frag], rcap: u16) -> DecodeRun<T>
where
    C: Decoder<T, Vec<u8>> + Unpin,
    C::Error: Debug + ErrIo,
    F: FramerTrait<Vec<u8>> + Unpin,
    T: Unpin,
{
    let (r, log) = FragReader::new(wire.to_vec(), rsched.to_vec());
    let mut framed = Framed::symmetric::<T>(codec, framer).with_reader(r);
    if rcap > 0 {
        framed = framed.with_buffer(Vec::with_capacity(rcap as usize), Vec::new());
    }
    let max_items = wire.len() + 1;
    let polls = 4 * (wire.len() + 8);
    let mut run = DecodeRun { got: vec![], ended: false, stuck: false, too_many: false, after_io: None, log };
    loop {
        if run.got.len() > max_items {
            run.too_many = true;
            break;
        }
        match drive(framed.next(), polls) {
            None => {
                run.stuck = true;
                break;
            }
            Some(None) => {
                run.ended = true;
                break;
            }
            Some(Some(Ok(t))) => run.got.push(Got::Item(t)),
            Some(Some(Err(e))) => {
                if e.is_io() {
                    run.got.push(Got::IoErr(format!("{e:?}")));
                    // a consumer may poll again after an error: that must not panic
                    run.after_io = Some(match drive(framed.next(), polls) {
                        None => "stuck",
                        Some(None) => "none",
                        Some(Some(Ok(_))) => "item",
                        Some(Some(Err(e))) => {
                            if e.is_io() {
                                "io"
                            } else {
                                "codec"
                            }
                        }
                    });
                    break;
                } else {
                    run.got.push(Got::CodecErr(format!("{e:?}")));
                }
            }
        }
    }
    run
}

macro_rules! with_framer {
    ($framer:expr, |$f:ident| $body:expr) => {{
        let __delim = $framer.delim().unwrap_or_default();
        match $framer {
            Framer::Len { big_endian, .. } => {
                let $f = LengthDelimited::new().set_length_field_len($framer.width().unwrap()).set_length_field_is_big_endian(*big_endian);
                $body
            }
            Framer::CharNl => {
                let $f = CharDelimited::<'\n'>::new();
                $body
            }
            Framer::CharR => {
                let $f = CharDelimited::<'ℝ'>::new();
                $body
            }
            Framer::CharNul => {
                let $f = CharDelimited::<'\0'>::new();
                $body
            }
            Framer::Any { .. } => {
                let $f = AnyDelimited::new(&__delim);
                $body
            }
            Framer::Noop => {
                let $f = NoopFramer::new();
                $body
            }
        }
    }};
}

// ------------------------------------------------------------------------------------------------
// (i) round trip

enum Eff {
    Bytes(Vec<Vec<u8>>),
    Json { pretty: bool, docs: Vec<Doc> },
}

fn hex(b: &[u8]) -> String {
    let mut s = String::new();
    for (i, x) in b.iter().enumerate() {
        if i >= 48 {
            s.push('…');
            break;
        }
        s.push_str(&format!("{x:02x}"));
    }
    s
}

pub fn run_frames(case: &FrameCase, excl: Excl) -> Outcome {
    let framer = &case.framer;
    let mut labels: Vec<String> = vec![format!("framer:{}", framer.name())];
    let mut lazy = case.lazy;
    if lazy && excl.sink_flush && !case.strict {
        // known finding: flush/close while a write is in flight skip the writer's flush/shutdown
        lazy = false;
        labels.push("excluded-known:write-behind-writer".into());
    }
    // ---- effective items (legal domain by construction)
    let mut repaired = 0;
    let eff = match (&case.items, framer) {
        (Items::Json { pretty, docs }, Framer::Len { .. } | Framer::CharNl | Framer::CharR | Framer::CharNul) => {
            let mut docs = docs.clone();
            // compact JSON never contains a raw LF or NUL (control characters are escaped); pretty JSON
            // contains LF, so LineDelimited is paired with the compact form only
            let pretty = *pretty && !matches!(framer, Framer::CharNl);
            if matches!(framer, Framer::CharR) {
                for d in &mut docs {
                    map_doc_strings(d, &|s| s.replace('ℝ', "R"));
                }
            }
            Eff::Json { pretty, docs }
        }
        (Items::Json { pretty, docs }, _) => {
            // AnyDelimited / NoopFramer: the JSON text is sent as opaque bytes
            Eff::Bytes(docs.iter().map(|d| if *pretty { serde_json::to_vec_pretty(d).unwrap() } else { serde_json::to_vec(d).unwrap() }).collect())
        }
        (Items::Bytes(v), _) => Eff::Bytes(v.clone()),
    };
    let eff = match eff {
        Eff::Bytes(mut v) => {
            if let Some(d) = framer.delim() {
                for p in &mut v {
                    repaired += repair_payload(p, &d);
                }
            }
            if framer.width() == Some(1) {
                for p in &mut v {
                    p.truncate(255);
                }
            }
            Eff::Bytes(v)
        }
        Eff::Json { pretty, mut docs } => {
            if framer.width() == Some(1) {
                // keep the encoded text below 256 bytes
                for d in &mut docs {
                    while (if pretty { serde_json::to_vec_pretty(d) } else { serde_json::to_vec(d) }).unwrap().len() > 255 {
                        if d.child.take().is_none() && d.tags.pop().is_none() {
                            d.name.pop();
                        }
                    }
                }
            }
            Eff::Json { pretty, docs }
        }
    };
    if repaired > 0 {
        labels.push("payload-repaired".into());
    }
    // ---- reference wire image
    let payloads: Vec<Vec<u8>> = match &eff {
        Eff::Bytes(v) => v.clone(),
        Eff::Json { pretty, docs } => docs.iter().map(|d| if *pretty { serde_json::to_vec_pretty(d).unwrap() } else { serde_json::to_vec(d).unwrap() }).collect(),
    };
    let mut want_wire = vec![];
    let mut layout = vec![];
    for p in &payloads {
        layout.push(ref_encode(framer, p, &mut want_wire));
    }
    let plan = SinkPlan { send: &case.send, end_close: case.end_close, wsched: &case.wsched, lazy, rcap: case.rcap, wcap: case.wcap };
    labels.push(match &eff {
        Eff::Bytes(_) => "codec:bytes".into(),
        Eff::Json { pretty: true, .. } => "codec:json-pretty".into(),
        Eff::Json { .. } => "codec:json".into(),
    });

    // ---- encode through the sink
    let sink = match &eff {
        Eff::Bytes(v) => {
            let items: Vec<Bytes> = v.iter().map(|p| Bytes::from(p.clone())).collect();
            with_framer!(framer, |f| encode_all(BytesCodec::new(), f, items, &plan))
        }
        Eff::Json { pretty, docs } => {
            let codec = if *pretty { SerdeJsonCodec::pretty() } else { SerdeJsonCodec::new() };
            with_framer!(framer, |f| encode_all(codec, f, docs.clone(), &plan))
        }
    };
    let sink = match sink {
        Ok(s) => s,
        Err(o) => return o,
    };
    let n = payloads.len();
    if lazy {
        labels.push("writer:write-behind".into());
    }
    if sink.wire != want_wire {
        let at = sink.wire.iter().zip(&want_wire).position(|(a, b)| a != b).unwrap_or(sink.wire.len().min(want_wire.len()));
        return Outcome::violation(
            format!("C13/enclose/wire-mismatch/{}", framer.kind()),
            format!(
                "framer {}: wire has {} bytes, reference encoding {}; first difference at {at}: wire …{} vs reference …{}",
                framer.name(),
                sink.wire.len(),
                want_wire.len(),
                hex(&sink.wire[at.min(sink.wire.len())..]),
                hex(&want_wire[at.min(want_wire.len())..])
            ),
        );
    }
    if sink.last_was_feed {
        labels.push("last:feed".into());
    }

    // ---- decode through the fragmentation schedule
    let wire = sink.wire;
    let (cuts, pendings, ok): (Vec<usize>, usize, Result<(), Outcome>) = match &eff {
        Eff::Bytes(v) => {
            let run: DecodeRun<Bytes> = with_framer!(framer, |f| decode_all(BytesCodec::new(), f, &wire, &case.rsched, case.rcap));
            let want: Vec<Bytes> = v.iter().map(|p| Bytes::from(p.clone())).collect();
            let r = judge_roundtrip(framer, &run, &want, &wire, |b| hex(b));
            let cuts = run.log.cuts.borrow().clone();
            (cuts, run.log.pendings.get(), r)
        }
        Eff::Json { pretty, docs } => {
            let codec = if *pretty { SerdeJsonCodec::pretty() } else { SerdeJsonCodec::new() };
            let run: DecodeRun<Doc> = with_framer!(framer, |f| decode_all(codec, f, &wire, &case.rsched, case.rcap));
            let r = judge_roundtrip(framer, &run, docs, &wire, |d| format!("{d:?}"));
            let cuts = run.log.cuts.borrow().clone();
            (cuts, run.log.pendings.get(), r)
        }
    };
    if let Err(o) = ok {
        return o;
    }

    // ---- classification
    let mut cut_in_marker = false;
    let mut cut_in_frame = false;
    for &c in &cuts {
        for (marker, frame) in &layout {
            if c > marker.start && c < marker.end {
                cut_in_marker = true;
            }
            if c > frame.start && c < frame.end {
                cut_in_frame = true;
            }
        }
    }
    let marker_len = framer.width().or(framer.delim().map(|d| d.len())).unwrap_or(0);
    if cut_in_marker {
        labels.push("cut-inside-header/delimiter".into());
    }
    if cut_in_frame {
        labels.push("cut-inside-frame".into());
    }
    if pendings > 0 {
        labels.push("reader-pending".into());
    }
    if payloads.iter().any(|p| p.is_empty()) {
        labels.push("empty-frame".into());
    }
    labels.push(format!("frames:{}", match n {
        0 => "0",
        1 => "1",
        2..=4 => "2-4",
        _ => "5+",
    }));
    let nontrivial = n >= 2 && (cut_in_marker || (marker_len <= 1 && cut_in_frame));
    Outcome::pass_owned(nontrivial, labels)
}

fn judge_roundtrip<T: PartialEq + Debug>(framer: &Framer, run: &DecodeRun<T>, want: &[T], wire: &[u8], show: impl Fn(&T) -> String) -> Result<(), Outcome>
where
    T: AsBytesMaybe,
{
    let k = framer.kind();
    if run.log.bound_hit.get() || run.too_many {
        return Err(Outcome::violation(format!("C13/roundtrip/{k}/endless-loop"), format!("step bound hit: {} items, {} reader calls for {} bytes", run.got.len(), run.log.calls.get(), wire.len())));
    }
    if run.stuck {
        return Err(Outcome::violation(format!("C13/roundtrip/{k}/stuck"), "stream future pending although the mock reader always wakes".to_string()));
    }
    for (i, g) in run.got.iter().enumerate() {
        match g {
            Got::Item(_) => {}
            Got::CodecErr(e) | Got::IoErr(e) => {
                return Err(Outcome::violation(format!("C13/roundtrip/{k}/error-item"), format!("item {i} of a well-formed stream is an error: {e}; wire {}", hex(wire))));
            }
        }
    }
    if !run.ended {
        return Err(Outcome::violation(format!("C13/roundtrip/{k}/no-end"), "no `None` after EOF".to_string()));
    }
    let got: Vec<&T> = run.got.iter().filter_map(|g| if let Got::Item(t) = g { Some(t) } else { None }).collect();
    if matches!(framer, Framer::Noop) {
        // a byte-stream bridge: the concatenation is preserved, chunks are non-empty and <= max_size
        let mut cat = vec![];
        for g in &got {
            let b = g.as_bytes_maybe().unwrap();
            if b.is_empty() || b.len() > 4096 {
                return Err(Outcome::violation("C13/roundtrip/noop/chunk-size", format!("chunk of {} bytes", b.len())));
            }
            cat.extend_from_slice(b);
        }
        if cat != wire {
            return Err(Outcome::violation("C13/roundtrip/noop/bytes-differ", format!("concatenation of {} chunks has {} bytes, stream {}", got.len(), cat.len(), wire.len())));
        }
        return Ok(());
    }
    if got.len() != want.len() {
        return Err(Outcome::violation(
            format!("C13/roundtrip/{k}/count-mismatch"),
            format!("framer {}: sent {} frames, decoded {} (merged, split or dropped); wire {}", framer.name(), want.len(), got.len(), hex(wire)),
        ));
    }
    for (i, (g, w)) in got.iter().zip(want).enumerate() {
        if *g != w {
            return Err(Outcome::violation(
                format!("C13/roundtrip/{k}/item-mismatch"),
                format!("framer {}: frame {i} decoded as {} but {} was sent", framer.name(), show(g), show(w)),
            ));
        }
    }
    Ok(())
}

pub trait AsBytesMaybe {
    const IS_BYTES: bool;
    fn as_bytes_maybe(&self) -> Option<&[u8]>;
}
impl AsBytesMaybe for Bytes {
    const IS_BYTES: bool = true;

    fn as_bytes_maybe(&self) -> Option<&[u8]> {
        Some(self)
    }
}
impl AsBytesMaybe for Doc {
    const IS_BYTES: bool = false;

    fn as_bytes_maybe(&self) -> Option<&[u8]> {
        None
    }
}

// ------------------------------------------------------------------------------------------------
// (iii) hostile input

enum Want<T> {
    Item(T),
    CodecErr,
}

fn judge_hostile<T: PartialEq + Debug + AsBytesMaybe>(
    framer: &Framer,
    run: Result<DecodeRun<T>, (String, String)>,
    want: &[Want<T>],
    end: &RefEnd,
    stream: &[u8],
    how: &str,
) -> Result<usize, Outcome> {
    let k = framer.kind();
    let run = match run {
        Ok(r) => r,
        Err((sig, detail)) => {
            if matches!(end, RefEnd::Overflow(_)) {
                return Err(Outcome::violation(SIG_LEN_OVERFLOW, format!("[{how}] {detail}; the stream reaches a length field whose value + field width overflows usize")));
            }
            return Err(Outcome::violation(sig, format!("[{how}] {detail}")));
        }
    };
    if run.log.bound_hit.get() || run.too_many {
        return Err(Outcome::violation(
            format!("C13/hostile/{k}/endless-loop"),
            format!("[{how}] step bound hit: {} items, {} reader calls for {} bytes", run.got.len(), run.log.calls.get(), stream.len()),
        ));
    }
    if run.stuck {
        return Err(Outcome::violation(format!("C13/hostile/{k}/stuck"), format!("[{how}] stream future pending although the mock reader always wakes")));
    }
    if run.after_io == Some("stuck") {
        return Err(Outcome::violation(format!("C13/hostile/{k}/stuck-after-error"), format!("[{how}] poll after an I/O error never completes")));
    }
    if matches!(framer, Framer::Noop) {
        let mut cat = vec![];
        for g in &run.got {
            match g {
                Got::Item(t) => match t.as_bytes_maybe() {
                    Some(b) => {
                        if b.is_empty() || b.len() > 4096 {
                            return Err(Outcome::violation("C13/hostile/noop/chunk-size", format!("[{how}] chunk of {} bytes", b.len())));
                        }
                        cat.extend_from_slice(b)
                    }
                    None => {}
                },
                Got::CodecErr(_) => {}
                Got::IoErr(e) => return Err(Outcome::violation("C13/hostile/noop/io-error", format!("[{how}] {e}"))),
            }
        }
        if T::IS_BYTES && cat != stream {
            return Err(Outcome::violation("C13/hostile/noop/bytes-differ", format!("[{how}] {} bytes out, {} in", cat.len(), stream.len())));
        }
        if !run.ended {
            return Err(Outcome::violation("C13/hostile/noop/no-end", format!("[{how}] no None after EOF")));
        }
        return Ok(run.got.len());
    }
    // sequential comparison with the reference parse
    for (i, g) in run.got.iter().enumerate() {
        match (g, want.get(i)) {
            (Got::Item(t), Some(Want::Item(w))) => {
                if t != w {
                    return Err(Outcome::violation(format!("C13/hostile/{k}/item-mismatch"), format!("[{how}] item {i}: got {t:?}, the reference parse gives {w:?}; stream {}", hex(stream))));
                }
            }
            (Got::CodecErr(_), Some(Want::CodecErr)) => {}
            (Got::Item(t), Some(Want::CodecErr)) => {
                return Err(Outcome::violation(format!("C13/hostile/{k}/item-for-undecodable-frame"), format!("[{how}] item {i}: got {t:?} for a frame the codec cannot decode")));
            }
            (Got::CodecErr(e), Some(Want::Item(w))) => {
                return Err(Outcome::violation(format!("C13/hostile/{k}/error-for-decodable-frame"), format!("[{how}] item {i}: error {e}, reference {w:?}")));
            }
            (Got::IoErr(e), _) => {
                // only legitimate at an unrepresentable length field, as the last event
                if !(matches!(end, RefEnd::Overflow(_)) && i == want.len()) {
                    return Err(Outcome::violation(format!("C13/hostile/{k}/unexpected-io-error"), format!("[{how}] item {i}: {e}; stream {}", hex(stream))));
                }
            }
            (Got::Item(_) | Got::CodecErr(_), None) => {
                return Err(Outcome::violation(
                    format!("C13/hostile/{k}/extra-item"),
                    format!("[{how}] {} items but the reference parse finds only {} complete frames; stream {}", run.got.len(), want.len(), hex(stream)),
                ));
            }
        }
    }
    let items = run.got.iter().filter(|g| !matches!(g, Got::IoErr(_))).count();
    if items < want.len() {
        return Err(Outcome::violation(
            format!("C13/hostile/{k}/missing-item"),
            format!("[{how}] {} items, the reference parse finds {} complete frames; stream {}", items, want.len(), hex(stream)),
        ));
    }
    if !run.ended && run.after_io.is_none() {
        return Err(Outcome::violation(format!("C13/hostile/{k}/no-end"), format!("[{how}] neither None nor an error at the end")));
    }
    Ok(run.got.len())
}

pub fn run_hostile(case: &HostileCase, excl: Excl) -> Outcome {
    let framer = &case.framer;
    let mut labels: Vec<String> = vec![format!("framer:{}", framer.name()), format!("codec:{:?}", case.codec).to_lowercase()];
    let mut stream = &case.stream[..];
    let (mut ranges, mut end) = ref_parse(framer, stream);
    if let (RefEnd::Overflow(at), true, false) = (&end, excl.len_overflow, case.strict) {
        // known finding: keep everything before the unrepresentable length field, and one byte less
        // than the field itself
        stream = &case.stream[..*at + framer.width().unwrap() - 1];
        (ranges, end) = ref_parse(framer, stream);
        labels.push("excluded-known:len-overflow-header".into());
    }
    let whole: Vec<Frag> = vec![];
    let mut items = 0;
    for (how, sched) in [("scheduled fragments", &case.rsched), ("delivered whole", &whole)] {
        let r = match case.codec {
            CodecKind::Bytes => {
                let want: Vec<Want<Bytes>> = ranges.iter().map(|r| Want::Item(Bytes::from(stream[r.clone()].to_vec()))).collect();
                let run = vcore::guarded(|| -> DecodeRun<Bytes> { with_framer!(framer, |f| decode_all(BytesCodec::new(), f, stream, sched, case.rcap)) });
                judge_hostile(framer, run, &want, &end, stream, how)
            }
            CodecKind::Json => {
                let want: Vec<Want<Doc>> = ranges
                    .iter()
                    .map(|r| match serde_json::from_slice::<Doc>(&stream[r.clone()]) {
                        Ok(d) => Want::Item(d),
                        Err(_) => Want::CodecErr,
                    })
                    .collect();
                let run = vcore::guarded(|| -> DecodeRun<Doc> { with_framer!(framer, |f| decode_all(SerdeJsonCodec::new(), f, stream, sched, case.rcap)) });
                judge_hostile(framer, run, &want, &end, stream, how)
            }
        };
        match r {
            Ok(n) => items = items.max(n),
            Err(o) => return o,
        }
    }
    if matches!(end, RefEnd::Overflow(_)) {
        labels.push("len-overflow-header(handled)".into());
    }
    if case.codec == CodecKind::Json {
        let ok = ranges.iter().filter(|r| serde_json::from_slice::<Doc>(&stream[(*r).clone()]).is_ok()).count();
        if ok > 0 {
            labels.push("json-frame-decoded".into());
        }
        if ok < ranges.len() {
            labels.push("json-frame-rejected".into());
        }
    }
    labels.push(format!("items:{}", match items {
        0 => "0",
        1 => "1",
        2..=4 => "2-4",
        _ => "5+",
    }));
    let tail = stream.len() - ranges.last().map(|r| r.end + framer.delim().map(|d| d.len()).unwrap_or(0)).unwrap_or(0);
    if !matches!(framer, Framer::Noop) && tail > 0 {
        labels.push("trailing-incomplete-frame".into());
    }
    Outcome::pass_owned(items >= 1, labels)
}
