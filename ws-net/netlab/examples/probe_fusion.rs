use compio_net::UdpSocket;
fn main() {
    for poll in [false, true] {
        let mut b = compio_driver::ProactorBuilder::new();
        b.driver_type(if poll { compio_driver::DriverType::Poll } else { compio_driver::DriverType::IoUring }).buffer_pool_buffer_len(4);
        let rt = compio_runtime::RuntimeBuilder::new().with_proactor(b).build().unwrap();
        rt.block_on(async {
            let rx = UdpSocket::bind("127.0.0.1:0").await.unwrap();
            let tx = UdpSocket::bind("127.0.0.1:0").await.unwrap();
            let addr = rx.local_addr().unwrap();
            let one: i32 = 1;
            unsafe { libc::setsockopt(std::os::fd::AsRawFd::as_raw_fd(&rx), libc::IPPROTO_IP, libc::IP_RECVTOS, &one as *const _ as _, 4) };
            tx.send_to(b"hello".to_vec(), addr).await.0.unwrap();
            let (b, c, a, f) = rx.recv_msg_managed(0, compio_io::ancillary::AncillaryBuf::<64>::new()).await.unwrap().unwrap();
            println!("poll={poll} recv_msg_managed: data={:?} ctl={:?} addr={a:?} flags={f:?}", &*b, &*c);
        });
    }
}
