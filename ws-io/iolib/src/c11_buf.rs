//! C11 part `buffered`: op programs over `BufReader`, `Take<BufReader>`, `BufWriter` and
//! `split()`/`unsplit()` halves, each wrapped around a script-driven mock.
//!
//! Model = position in the source stream (`out` bytes handed to the caller, `delivered` bytes taken
//! from the source) resp. the list of bytes the writer acknowledged (`accepted`) against the bytes
//! the sink received.  An "EOF claim" (empty `fill_buf`, `Ok(0)` for a non-empty request) is only
//! legitimate when nothing is pending and the source itself answered `Ok(0)` to a non-empty window
//! during that very operation.
use std::io;

use compio_buf::{BufResult, IntoInner};
use compio_io::{AsyncBufRead, AsyncRead, AsyncReadExt, AsyncWrite, AsyncWriteExt, BufReader, BufWriter};
use serde::{Deserialize, Serialize};
use vcore::{
    mono_range,
    proptest::{collection::vec, prelude::*},
    Outcome,
};

use crate::{
    c11_loops::{trace_labels, vec_with, viol},
    exec::block_on,
    mock::{shared, Call, CallKind, Duplex, Shared, Sink, Src},
    pat::{payload_strategy, script_strategy, wdata, ErrKind, Payload, Res, Xfer},
};

#[derive(Debug, Clone, Copy, Serialize, Deserialize, PartialEq)]
pub enum BufKind {
    Reader,
    /// `BufReader` behind `take(limit)` (exercises `Take`'s `AsyncBufRead` half too)
    ReaderTake { limit: u16 },
    Writer,
    Split,
}

#[derive(Debug, Clone, Serialize, Deserialize)]
pub enum BOp {
    FillBuf,
    /// consume `k` of the bytes the last `fill_buf` showed (mapped into `0..=shown`)
    Consume(u16),
    Read(u8),
    /// `read_vectored` into members of these capacities
    ReadVec(Vec<u8>),
    /// `read_exact` of n bytes through the buffered reader
    ReadExact(u8),
    ReadToEnd,
    Write(u8),
    WriteVec(Vec<u8>),
    WriteAll(u8),
    Flush,
    Shutdown,
}

#[derive(Debug, Clone, Serialize, Deserialize)]
pub struct BufCase {
    pub kind: BufKind,
    /// capacity of the BufReader/BufWriter: index into [0,1,2,3,4,7,16,64]
    pub cap: u8,
    pub payload: Payload,
    pub script: Vec<Xfer>,
    pub ops: Vec<BOp>,
    /// BufWriter only: let the sink fail while a *write* op runs.  The unchanged tree reports such
    /// an error after it has buffered the bytes (known finding), so this is off for most cases.
    pub errs_during_write: bool,
    pub flush_err: Option<ErrKind>,
}

pub fn cap_of(raw: u8) -> usize {
    const CAPS: [usize; 8] = [0, 1, 2, 3, 4, 7, 16, 64];
    CAPS[raw as usize % CAPS.len()]
}

macro_rules! try_o {
    ($e:expr) => {
        match $e {
            Ok(v) => v,
            Err(o) => return o,
        }
    };
}

// ------------------------------------------------------------------------------------------------
// reader side

struct RModel<'a> {
    tag: &'static str,
    data: &'a [u8],
    /// bytes handed to the caller
    out: usize,
    /// bytes of the last fill_buf not yet consumed
    shown: usize,
    /// Take: bytes that may still be handed out
    limit: Option<usize>,
}

impl RModel<'_> {
    /// Is an EOF claim legitimate, given the inner calls of this op?
    fn eof_claim(&self, sh: &Shared, mark: usize, what: &str) -> Result<(), Outcome> {
        if self.limit == Some(0) {
            return Ok(());
        }
        let st = sh.borrow();
        let delivered = st.pos;
        if delivered > self.out {
            return Err(viol(self.tag, "eof-with-pending-data", format!("{what} claims EOF while {} delivered bytes were never handed out", delivered - self.out)));
        }
        if st.pos == st.data.len() {
            // the source is exhausted: the claim is truthful whatever led to it
            return Ok(());
        }
        let calls: Vec<&Call> = st.calls_from(mark).iter().filter(|c| c.kind == CallKind::Read).collect();
        match calls.last() {
            Some(c) if c.offered > 0 && c.res == Ok(0) => Ok(()),
            Some(c) if c.offered == 0 => Err(viol(
                self.tag,
                "zero-capacity-false-eof",
                format!("{what} claims EOF, but the source was only asked for 0 bytes (it still holds {} bytes)", st.data.len() - st.pos),
            )),
            Some(c) => Err(viol(self.tag, "false-eof", format!("{what} claims EOF, the source's last answer was {:?}", c.res))),
            None => Err(viol(self.tag, "false-eof", format!("{what} claims EOF without asking the source (which still holds {} bytes)", st.data.len() - st.pos))),
        }
    }

    /// An error result must be one the source produced during this op.
    fn err_from_source(&self, sh: &Shared, mark: usize, k: io::ErrorKind, what: &str) -> Result<(), Outcome> {
        let st = sh.borrow();
        if st.calls_from(mark).iter().any(|c| c.res == Err(k)) {
            Ok(())
        } else {
            Err(viol(self.tag, "spurious-error", format!("{what} failed with {k:?}; the source did not produce that during the call (calls: {:?})", st.calls_from(mark))))
        }
    }

    /// `bytes` were handed to the caller: they must be the next bytes of the stream.
    fn handed(&mut self, sh: &Shared, bytes: &[u8], consume: bool, what: &str) -> Result<(), Outcome> {
        let delivered = sh.borrow().pos;
        let end = self.out + bytes.len();
        if end > self.data.len() || self.data[self.out..end] != *bytes {
            return Err(viol(
                self.tag,
                "wrong-bytes",
                format!("{what} returned {:?}; the next bytes of the stream (offset {}) are {:?}", bytes, self.out, &self.data[self.out.min(self.data.len())..end.min(self.data.len())]),
            ));
        }
        if end > delivered {
            return Err(viol(self.tag, "bytes-from-nowhere", format!("{what} returned {} bytes at offset {} but the source delivered only {delivered}", bytes.len(), self.out)));
        }
        if let Some(l) = self.limit {
            if bytes.len() > l {
                return Err(viol(self.tag, "limit-exceeded", format!("{what} returned {} bytes, the limit allows {l}", bytes.len())));
            }
        }
        if consume {
            self.out = end;
            if let Some(l) = self.limit.as_mut() {
                *l -= bytes.len();
            }
        }
        Ok(())
    }
}

fn run_reader<R: AsyncBufRead>(case: &BufCase, mut r: R, sh: &Shared, tag: &'static str, limit: Option<usize>, labels: &mut Vec<String>) -> Result<(R, usize), Outcome> {
    let data = case.payload.bytes();
    let mut m = RModel { tag, data: &data, out: 0, shown: 0, limit };
    let mut executed = 0;
    for op in &case.ops {
        let mark = sh.borrow().calls.len();
        match op {
            BOp::FillBuf => {
                let res = block_on(r.fill_buf()).map(|s| s.to_vec());
                match res {
                    Ok(s) if s.is_empty() => {
                        m.eof_claim(sh, mark, "fill_buf")?;
                        m.shown = 0;
                        labels.push("fill_buf:eof".into());
                    }
                    Ok(s) => {
                        m.handed(sh, &s, false, "fill_buf")?;
                        m.shown = s.len();
                        labels.push("fill_buf".into());
                    }
                    Err(e) => {
                        m.err_from_source(sh, mark, e.kind(), "fill_buf")?;
                        labels.push("fill_buf:err".into());
                    }
                }
            }
            BOp::Consume(k) => {
                let k = mono_range(*k, 0, m.shown);
                r.consume(k);
                m.shown -= k;
                m.out += k;
                if let Some(l) = m.limit.as_mut() {
                    *l -= k;
                }
                if k > 0 && m.shown > 0 {
                    labels.push("consume:partial".into());
                }
            }
            BOp::Read(n) => {
                let buf = Vec::with_capacity(*n as usize);
                let n = buf.capacity();
                let BufResult(res, buf) = block_on(r.read(buf));
                m.shown = 0;
                match res {
                    Ok(0) if n > 0 => {
                        m.eof_claim(sh, mark, "read")?;
                        labels.push("read:eof".into());
                    }
                    Ok(k) => {
                        if buf.len() != k {
                            return Err(viol(tag, "len-mismatch", format!("read returned {k} but the buffer holds {} bytes", buf.len())));
                        }
                        m.handed(sh, &buf, true, "read")?;
                        labels.push("read".into());
                    }
                    Err(e) => {
                        m.err_from_source(sh, mark, e.kind(), "read")?;
                        labels.push("read:err".into());
                    }
                }
            }
            BOp::ReadVec(caps) => {
                let bufs: Vec<Vec<u8>> = caps.iter().map(|c| Vec::with_capacity(*c as usize)).collect();
                let total: usize = bufs.iter().map(|b| b.capacity()).sum();
                let BufResult(res, bufs) = block_on(r.read_vectored(bufs));
                m.shown = 0;
                match res {
                    Ok(0) if total > 0 => {
                        m.eof_claim(sh, mark, "read_vectored")?;
                        labels.push("read_vectored:eof".into());
                    }
                    Ok(k) => {
                        let got: Vec<u8> = bufs.concat();
                        if got.len() != k {
                            return Err(viol(tag, "len-mismatch", format!("read_vectored returned {k} but the members hold {} bytes", got.len())));
                        }
                        // members are filled front to back
                        let mut left = k;
                        for (i, b) in bufs.iter().enumerate() {
                            let want = left.min(b.capacity());
                            if b.len() != want {
                                return Err(viol(tag, "members-not-filled-in-order", format!("member #{i} holds {} bytes, expected {want} (total {k}, capacities {:?})", b.len(), caps)));
                            }
                            left -= want;
                        }
                        m.handed(sh, &got, true, "read_vectored")?;
                        labels.push("read_vectored".into());
                    }
                    Err(e) => {
                        m.err_from_source(sh, mark, e.kind(), "read_vectored")?;
                        labels.push("read_vectored:err".into());
                    }
                }
            }
            BOp::ReadExact(n) => {
                let buf = Vec::with_capacity(*n as usize);
                let n = buf.capacity();
                let BufResult(res, buf) = block_on(r.read_exact(buf));
                m.shown = 0;
                executed += 1;
                match res {
                    Ok(()) => {
                        if buf.len() != n {
                            return Err(viol(tag, "len-mismatch", format!("read_exact succeeded with {} of {n} bytes", buf.len())));
                        }
                        m.handed(sh, &buf, true, "read_exact")?;
                        labels.push("read_exact".into());
                    }
                    Err(e) if e.kind() == io::ErrorKind::UnexpectedEof => {
                        // legitimate iff the stream really ended (source EOF or limit) before n bytes
                        let st = sh.borrow();
                        let eof_seen = st.calls_from(mark).iter().any(|c| c.kind == CallKind::Read && c.offered > 0 && c.res == Ok(0));
                        let by_limit = m.limit.is_some_and(|l| l < n);
                        let injected = st.calls_from(mark).iter().any(|c| c.res == Err(io::ErrorKind::UnexpectedEof));
                        let exhausted = st.pos == st.data.len();
                        if !eof_seen && !by_limit && !injected && !exhausted {
                            let zero = st.calls_from(mark).iter().any(|c| c.kind == CallKind::Read && c.offered == 0);
                            return Err(viol(
                                tag,
                                if zero { "zero-capacity-false-eof" } else { "false-eof" },
                                format!("read_exact({n}) reports UnexpectedEof but the source never signalled EOF (calls {:?})", st.calls_from(mark)),
                            ));
                        }
                        labels.push("read_exact:eof".into());
                        break;
                    }
                    Err(e) => {
                        m.err_from_source(sh, mark, e.kind(), "read_exact")?;
                        labels.push("read_exact:err".into());
                        break;
                    }
                }
                continue;
            }
            BOp::ReadToEnd => {
                let BufResult(res, buf) = block_on(r.read_to_end(Vec::new()));
                m.shown = 0;
                executed += 1;
                match res {
                    Ok(k) => {
                        if buf.len() != k {
                            return Err(viol(tag, "len-mismatch", format!("read_to_end returned {k} but the buffer holds {} bytes", buf.len())));
                        }
                        m.handed(sh, &buf, true, "read_to_end")?;
                        m.eof_claim(sh, mark, "read_to_end")?;
                        labels.push("read_to_end".into());
                    }
                    Err(e) => {
                        m.err_from_source(sh, mark, e.kind(), "read_to_end")?;
                        labels.push("read_to_end:err".into());
                    }
                }
                break;
            }
            _ => continue,
        }
        executed += 1;
    }
    Ok((r, executed))
}

// ------------------------------------------------------------------------------------------------
// writer side

fn run_writer(case: &BufCase, labels: &mut Vec<String>) -> Result<usize, Outcome> {
    let tag = "bufwriter";
    let cap = cap_of(case.cap);
    let sh = shared(vec![], case.script.clone());
    if let Some(k) = case.flush_err {
        sh.borrow_mut().flush_errs.push(k);
    }
    let mut w = BufWriter::with_capacity(cap, Sink::<false>(sh.clone()));
    // bytes the writer acknowledged, in order
    let mut accepted: Vec<u8> = vec![];
    let mut base = 0usize;
    let mut executed = 0;
    // did the sink fail while a write-type op was running (the known defect shape)?
    let mut err_in_write = false;
    let mut torn = false;

    let check_prefix = |sh: &Shared, accepted: &[u8], err_in_write: bool, what: &str| -> Result<(), Outcome> {
        let st = sh.borrow();
        if st.received.len() > accepted.len() || st.received[..] != accepted[..st.received.len()] {
            let sig = if err_in_write { "sink-mismatch-after-error-in-write" } else { "sink-mismatch" };
            return Err(viol(
                tag,
                sig,
                format!("after {what}: the sink received {:?}, but the writer acknowledged only {:?} (every byte must arrive exactly once, in order)", st.received, accepted),
            ));
        }
        Ok(())
    };

    for op in &case.ops {
        let mark = sh.borrow().calls.len();
        let is_write = matches!(op, BOp::Write(_) | BOp::WriteVec(_) | BOp::WriteAll(_));
        sh.borrow_mut().suppress_errors = is_write && !case.errs_during_write;
        match op {
            BOp::Write(n) => {
                let d = wdata(base, *n as usize);
                base += d.len();
                let BufResult(res, back) = block_on(w.write(d.clone()));
                if back != d {
                    return Err(viol(tag, "source-buffer-changed", format!("buffer came back as {:?}", back)));
                }
                match res {
                    Ok(k) => {
                        if k > d.len() {
                            return Err(viol(tag, "count-too-large", format!("write of {} bytes returned {k}", d.len())));
                        }
                        accepted.extend_from_slice(&d[..k]);
                        labels.push(if k < d.len() { "write:partial".into() } else { "write".into() });
                    }
                    Err(e) => {
                        try_src_err(tag, &sh, mark, e.kind(), "write")?;
                        labels.push("write:err".into());
                    }
                }
            }
            BOp::WriteVec(lens) => {
                let ms: Vec<Vec<u8>> = lens
                    .iter()
                    .map(|l| {
                        let d = wdata(base, *l as usize);
                        base += d.len();
                        d
                    })
                    .collect();
                let all = ms.concat();
                let BufResult(res, back) = block_on(w.write_vectored(ms.clone()));
                if back != ms {
                    return Err(viol(tag, "source-buffer-changed", format!("members came back as {:?}", back)));
                }
                match res {
                    Ok(k) => {
                        if k > all.len() {
                            return Err(viol(tag, "count-too-large", format!("write_vectored of {} bytes returned {k}", all.len())));
                        }
                        accepted.extend_from_slice(&all[..k]);
                        labels.push("write_vectored".into());
                    }
                    Err(e) => {
                        try_src_err(tag, &sh, mark, e.kind(), "write_vectored")?;
                        labels.push("write_vectored:err".into());
                    }
                }
            }
            BOp::WriteAll(n) => {
                let d = wdata(base, *n as usize);
                base += d.len();
                let BufResult(res, _) = block_on(w.write_all(d.clone()));
                match res {
                    Ok(()) => {
                        accepted.extend_from_slice(&d);
                        labels.push("write_all".into());
                    }
                    Err(e) => {
                        // how much of `d` went in is unspecified: stop issuing ops, flush, and accept
                        // any prefix of `d` after the acknowledged bytes
                        if e.kind() != io::ErrorKind::WriteZero {
                            try_src_err(tag, &sh, mark, e.kind(), "write_all")?;
                        }
                        labels.push("write_all:err".into());
                        if sh.borrow().calls_from(mark).iter().any(|c| c.res.is_err() || (c.kind == CallKind::Write && c.offered > 0 && c.res == Ok(0))) {
                            err_in_write = true;
                        }
                        executed += 1;
                        torn = true;
                        // drain with a sink that accepts everything
                        sh.borrow_mut().script.clear();
                        sh.borrow_mut().flush_errs.clear();
                        let _ = block_on(w.flush());
                        let st = sh.borrow();
                        let r = &st.received;
                        let ok = r.len() >= accepted.len() && r[..accepted.len()] == accepted[..] && r.len() - accepted.len() <= d.len() && r[accepted.len()..] == d[..r.len() - accepted.len()];
                        if !ok {
                            let sig = if err_in_write { "sink-mismatch-after-error-in-write" } else { "sink-mismatch" };
                            return Err(viol(
                                tag,
                                sig,
                                format!("after a failed write_all: sink received {:?}; expected the acknowledged bytes {:?} followed by a prefix of {:?}", r, accepted, d),
                            ));
                        }
                        break;
                    }
                }
            }
            BOp::Flush | BOp::Shutdown => {
                let shut = matches!(op, BOp::Shutdown);
                let res = if shut { block_on(w.shutdown()) } else { block_on(w.flush()) };
                match res {
                    Ok(()) => {
                        let st = sh.borrow();
                        if st.received != accepted {
                            let sig = if err_in_write { "sink-mismatch-after-error-in-write" } else if st.received.len() < accepted.len() { "flush-incomplete" } else { "sink-mismatch" };
                            return Err(viol(tag, sig, format!("flush succeeded: sink holds {:?}, the writer acknowledged {:?}", st.received, accepted)));
                        }
                        if shut && st.shutdowns == 0 {
                            return Err(viol(tag, "shutdown-not-forwarded", "shutdown() succeeded without reaching the sink".into()));
                        }
                        labels.push("flush".into());
                    }
                    Err(e) => {
                        // WriteZero is the documented kind for a sink that stops taking bytes
                        if e.kind() != io::ErrorKind::WriteZero {
                            try_src_err(tag, &sh, mark, e.kind(), "flush")?;
                        }
                        labels.push("flush:err".into());
                    }
                }
            }
            _ => continue,
        }
        executed += 1;
        if is_write && sh.borrow().calls_from(mark).iter().any(|c| c.res.is_err() || (c.kind == CallKind::Write && c.offered > 0 && c.res == Ok(0))) {
            err_in_write = true;
            labels.push("sink-error-during-write".into());
        }
        check_prefix(&sh, &accepted, err_in_write, &format!("{op:?}"))?;
    }
    if !torn {
        // final drain: the sink now accepts everything; afterwards it must hold exactly the
        // acknowledged bytes (a failed flush keeps the unsent tail for the retry)
        {
            let mut st = sh.borrow_mut();
            st.script.clear();
            st.flush_errs.clear();
            st.suppress_errors = false;
        }
        let res = block_on(w.flush());
        let st = sh.borrow();
        if let Err(e) = res {
            return Err(viol(tag, "final-flush-failed", format!("flush against an all-accepting sink failed: {e:?}")));
        }
        if st.received != accepted {
            let sig = if err_in_write { "sink-mismatch-after-error-in-write" } else if st.received.len() < accepted.len() { "bytes-lost" } else { "sink-mismatch" };
            return Err(viol(tag, sig, format!("after the final flush the sink holds {:?}, the writer acknowledged {:?}", st.received, accepted)));
        }
    }
    if sh.borrow().skipped_errors > 0 {
        labels.push("known-shape-avoided".into());
    }
    let _ = w.into_inner();
    Ok(executed)
}

fn try_src_err(tag: &str, sh: &Shared, mark: usize, k: io::ErrorKind, what: &str) -> Result<(), Outcome> {
    let st = sh.borrow();
    // WriteZero is what a sink's Ok(0) for a non-empty write turns into
    let zero = k == io::ErrorKind::WriteZero && st.calls_from(mark).iter().any(|c| c.kind == CallKind::Write && c.offered > 0 && c.res == Ok(0));
    if zero || st.calls_from(mark).iter().any(|c| c.res == Err(k)) {
        Ok(())
    } else {
        Err(viol(tag, "spurious-error", format!("{what} failed with {k:?}; the sink did not produce that during the call (calls: {:?})", st.calls_from(mark))))
    }
}

// ------------------------------------------------------------------------------------------------
// split / unsplit

fn run_split(case: &BufCase, labels: &mut Vec<String>) -> Result<usize, Outcome> {
    let tag = "split";
    let data = case.payload.bytes();
    let rsh = shared(data.clone(), case.script.clone());
    // the write half gets the script reversed, so both directions see different schedules
    let wsh = shared(vec![], case.script.iter().rev().copied().collect());
    let (mut rh, mut wh) = compio_io::split(Duplex { r: Src(rsh.clone()), w: Sink(wsh.clone()), tag: 0xC11 });
    let mut out = 0usize;
    let mut base = 0usize;
    let mut sent: Vec<u8> = vec![];
    let mut executed = 0;
    for op in &case.ops {
        let (rmark, wmark) = (rsh.borrow().calls.len(), wsh.borrow().calls.len());
        match op {
            BOp::Read(n) | BOp::ReadExact(n) => {
                let exact = matches!(op, BOp::ReadExact(_));
                let buf = Vec::with_capacity(*n as usize);
                let (res, buf) = if exact {
                    let BufResult(r, b) = block_on(rh.read_exact(buf));
                    (r.map(|_| b.len()), b)
                } else {
                    let BufResult(r, b) = block_on(rh.read(buf));
                    (r, b)
                };
                let st = rsh.borrow();
                let calls = st.calls_from(rmark);
                if !exact {
                    // the half forwards exactly one call and its answer
                    if calls.len() != 1 || Res::of(&res) != (match calls[0].res { Ok(k) => Res::Ok(k), Err(k) => Res::Err(k) }) {
                        return Err(viol(tag, "read-not-forwarded", format!("read({n}) returned {:?}, inner calls {:?}", Res::of(&res), calls)));
                    }
                }
                if res.is_ok() {
                    if buf[..] != data[out..out + buf.len()] {
                        return Err(viol(tag, "wrong-bytes", format!("read returned {:?}, stream offset {out} holds {:?}", buf, &data[out..out + buf.len()])));
                    }
                    out += buf.len();
                    if st.pos != out {
                        return Err(viol(tag, "source-overconsumed", format!("source cursor {} but {out} bytes were handed out", st.pos)));
                    }
                    labels.push("half:read".into());
                } else {
                    labels.push("half:read:err".into());
                    if exact {
                        // contents unspecified after an error: stop comparing the read side
                        break;
                    }
                }
            }
            BOp::Write(n) | BOp::WriteAll(n) => {
                let all = matches!(op, BOp::WriteAll(_));
                let d = wdata(base, *n as usize);
                base += d.len();
                let res = if all {
                    let BufResult(r, _) = block_on(wh.write_all(d.clone()));
                    r.map(|_| d.len())
                } else {
                    let BufResult(r, _) = block_on(wh.write(d.clone()));
                    r
                };
                let st = wsh.borrow();
                let calls = st.calls_from(wmark);
                if !all && (calls.len() != 1 || calls[0].data != d || Res::of(&res) != (match calls[0].res { Ok(k) => Res::Ok(k), Err(k) => Res::Err(k) })) {
                    return Err(viol(tag, "write-not-forwarded", format!("write({:?}) returned {:?}, inner calls {:?}", d, Res::of(&res), calls)));
                }
                match res {
                    Ok(k) => {
                        sent.extend_from_slice(&d[..k]);
                        if st.received != sent {
                            return Err(viol(tag, "sink-content", format!("sink holds {:?}, expected {:?}", st.received, sent)));
                        }
                        labels.push("half:write".into());
                    }
                    Err(_) => {
                        labels.push("half:write:err".into());
                        if all {
                            break;
                        }
                    }
                }
            }
            BOp::Flush => {
                if block_on(wh.flush()).is_err() || wsh.borrow().flushes == 0 {
                    return Err(viol(tag, "flush-not-forwarded", "flush through the write half did not reach the stream".into()));
                }
            }
            _ => continue,
        }
        executed += 1;
    }
    let back = rh.unsplit(wh);
    if back.tag != 0xC11 || !std::rc::Rc::ptr_eq(&back.r.0, &rsh) || !std::rc::Rc::ptr_eq(&back.w.0, &wsh) {
        return Err(viol(tag, "unsplit-other-object", "unsplit() returned a different stream".into()));
    }
    Ok(executed)
}

// ------------------------------------------------------------------------------------------------

pub fn run_buf(case: &BufCase) -> Outcome {
    let mut labels: Vec<String> = vec![];
    let cap = cap_of(case.cap);
    labels.push(format!("cap:{cap}"));
    match case.kind {
        BufKind::Reader | BufKind::ReaderTake { .. } => {
            let sh = shared(case.payload.bytes(), case.script.clone());
            let br = BufReader::with_capacity(cap, Src::<false>(sh.clone()));
            let executed = match case.kind {
                BufKind::Reader => {
                    labels.push("bufreader".into());
                    let (r, n) = try_o!(run_reader(case, br, &sh, "bufreader", None, &mut labels));
                    let _ = r.into_inner();
                    n
                }
                BufKind::ReaderTake { limit } => {
                    labels.push("take<bufreader>".into());
                    let (t, n) = try_o!(run_reader(case, br.take(limit as u64), &sh, "take<bufreader>", Some(limit as usize), &mut labels));
                    let _ = t.into_inner().into_inner();
                    n
                }
                _ => unreachable!(),
            };
            let nt = trace_labels(&sh.borrow().calls, &mut labels) && executed >= 2;
            labels.sort();
            labels.dedup();
            Outcome::pass_owned(nt, labels)
        }
        BufKind::Writer => {
            labels.push("bufwriter".into());
            let executed = try_o!(run_writer(case, &mut labels));
            labels.sort();
            labels.dedup();
            Outcome::pass_owned(executed >= 2 && labels.iter().any(|l| l == "write" || l == "write:partial" || l == "write_vectored" || l == "write_all"), labels)
        }
        BufKind::Split => {
            labels.push("split".into());
            let executed = try_o!(run_split(case, &mut labels));
            labels.sort();
            labels.dedup();
            Outcome::pass_owned(executed >= 2, labels)
        }
    }
}

// keep `vec_with` referenced for the fuzz decoder's benefit
#[allow(dead_code)]
fn _unused() {
    let _ = vec_with(0, 0);
}

// ------------------------------------------------------------------------------------------------
// generators

fn small() -> impl Strategy<Value = u8> + Clone {
    prop_oneof![1 => Just(0u8), 2 => Just(1u8), 6 => 0u8..=12, 2 => 0u8..=90]
}

fn rop() -> impl Strategy<Value = BOp> + Clone {
    prop_oneof![
        4 => Just(BOp::FillBuf),
        4 => any::<u16>().prop_map(BOp::Consume),
        1 => Just(BOp::Consume(u16::MAX)),
        5 => small().prop_map(BOp::Read),
        2 => vec(small(), 0..=3).prop_map(BOp::ReadVec),
        2 => small().prop_map(BOp::ReadExact),
        1 => Just(BOp::ReadToEnd),
    ]
}

fn wop() -> impl Strategy<Value = BOp> + Clone {
    prop_oneof![
        6 => small().prop_map(BOp::Write),
        2 => vec(small(), 0..=3).prop_map(BOp::WriteVec),
        3 => small().prop_map(BOp::WriteAll),
        3 => Just(BOp::Flush),
        1 => Just(BOp::Shutdown),
    ]
}

fn sop() -> impl Strategy<Value = BOp> + Clone {
    prop_oneof![
        3 => small().prop_map(BOp::Read),
        1 => small().prop_map(BOp::ReadExact),
        3 => small().prop_map(BOp::Write),
        1 => small().prop_map(BOp::WriteAll),
        1 => Just(BOp::Flush),
    ]
}

pub fn case_strategy() -> impl Strategy<Value = BufCase> + Clone {
    let common = (prop_oneof![1 => Just(0u8), 14 => 1u8..8], payload_strategy(200), script_strategy(16), any::<u16>(), crate::pat::errkind_strategy());
    prop_oneof![
        4 => (common.clone(), vec(rop(), 1..=12)).prop_map(|((cap, payload, script, _, _), ops)| BufCase {
            kind: BufKind::Reader, cap, payload, script, ops, errs_during_write: false, flush_err: None,
        }),
        2 => (common.clone(), vec(rop(), 1..=12), 0u16..=60).prop_map(|((cap, payload, script, _, _), ops, limit)| BufCase {
            kind: BufKind::ReaderTake { limit }, cap, payload, script, ops, errs_during_write: false, flush_err: None,
        }),
        5 => (common.clone(), vec(wop(), 1..=12)).prop_map(|((cap, payload, script, x, k), ops)| BufCase {
            kind: BufKind::Writer, cap, payload, script, ops, errs_during_write: x % 8 == 0, flush_err: if x % 5 == 0 { Some(k) } else { None },
        }),
        2 => (common, vec(sop(), 1..=10)).prop_map(|((cap, payload, script, _, _), ops)| BufCase {
            kind: BufKind::Split, cap, payload, script, ops, errs_during_write: false, flush_err: None,
        }),
    ]
}
