//! C16 — QUIC streams and datagrams: ordered, exactly-once, never stranded (DESIGN §3 C16).
//!
//! One compio runtime per case, a server and a client endpoint on loopback.  Every activity
//! (stream writer, stream reader, accept loop, datagram sender/receiver, probe future) is an
//! *actor*: a boxed future polled by the harness future itself with its own flag waker, so the
//! harness knows at every instant which futures are pending and can re-poll them as a redundant
//! stimulus (rescue rule).  Nothing is judged by timing alone.
mod case;

use std::{
    cell::{Cell, RefCell},
    collections::HashMap,
    future::Future,
    pin::Pin,
    rc::Rc,
    sync::{
        atomic::{AtomicBool, Ordering},
        Arc, Mutex,
    },
    task::{Context, Poll, Wake, Waker},
    time::Duration,
};

use bytes::Bytes;
use case::*;
use compio_io::{AsyncRead, AsyncWrite, AsyncWriteExt};
use compio_quic::{ClientBuilder, Connection, ConnectionError, Endpoint, RecvStream, SendStream, ServerBuilder, TransportConfig, VarInt};
use rustls::pki_types::{pem::PemObject, CertificateDer, PrivateKeyDer};
use vcore::{Outcome, Part, Session};

// ------------------------------------------------------------------------------------------------
// actors

struct Flag {
    set: AtomicBool,
    main: Mutex<Option<Waker>>,
}

impl Wake for Flag {
    fn wake(self: Arc<Self>) {
        self.wake_by_ref()
    }

    fn wake_by_ref(self: &Arc<Self>) {
        self.set.store(true, Ordering::SeqCst);
        if let Some(w) = self.main.lock().unwrap().as_ref() {
            w.wake_by_ref();
        }
    }
}

#[derive(Debug, Clone, Copy, PartialEq, Eq, Hash, PartialOrd, Ord)]
enum Kind {
    Writer,
    Reader,
    OpenWait,
    Accept,
    DgramSend,
    RecvDatagram,
    Stopped,
    Closed,
    ReceivedReset,
    IdleRead,
    BlockedWrite,
    Timer,
}

impl Kind {
    fn name(self) -> &'static str {
        match self {
            Kind::Writer => "write",
            Kind::Reader => "read",
            Kind::OpenWait => "open_wait",
            Kind::Accept => "accept",
            Kind::DgramSend => "send_datagram_wait",
            Kind::RecvDatagram => "recv_datagram",
            Kind::Stopped => "stopped",
            Kind::Closed => "closed",
            Kind::ReceivedReset => "received_reset",
            Kind::IdleRead => "read(idle)",
            Kind::BlockedWrite => "write(blocked)",
            Kind::Timer => "timer",
        }
    }
}

/// How an actor ended.
#[derive(Debug, Clone)]
enum End {
    /// completed normally
    Done,
    /// completed with a connection-level error of this family (only legitimate after a close)
    ConnErr(String),
    /// the oracle is violated (signature tail, detail)
    Bad(String, String),
}

type ActorFut = Pin<Box<dyn Future<Output = End>>>;

struct Actor {
    name: String,
    side: usize,
    /// what the actor is doing right now (actors move from open_wait to write to stopped …)
    kind: Rc<Cell<Kind>>,
    fut: Option<ActorFut>,
    flag: Arc<Flag>,
    end: Option<End>,
    polls: u64,
    /// completed only by the redundant re-poll of the rescue rule
    rescued: bool,
}

// ------------------------------------------------------------------------------------------------
// shared context

#[derive(Clone)]
enum Entry {
    Spec(usize),
    ProbeIdle,
    ProbeBlocked,
    /// opened to exhaust the stream credit and never written; finished empty if its holder is dropped
    ProbeHeld,
}

struct Ctx {
    case: QCase,
    conns: RefCell<[Option<Connection>; 2]>,
    /// (opener side, bidi, stream index) -> what the acceptor should do with it
    table: RefCell<HashMap<(usize, bool, u64), Entry>>,
    spawn: RefCell<Vec<(String, usize, Rc<Cell<Kind>>, ActorFut)>>,
    bytes_read: Cell<u64>,
    /// per spec: bytes the reader verified; response bytes the opener verified
    got: RefCell<Vec<[u64; 2]>>,
    complete: RefCell<Vec<[bool; 2]>>,
    dgrams_ok: Cell<[u64; 2]>,
    /// datagram indices received per side, over all readers of that side
    dgram_seen: RefCell<[std::collections::HashSet<usize>; 2]>,
    closed_seen: Cell<bool>,
    /// probe streams opened / taken up by the peer's accept loop
    probe_streams: Cell<[u32; 2]>,
    main: Arc<Flag>,
}

impl Ctx {
    fn conn(&self, side: usize) -> Connection {
        self.conns.borrow()[side].clone().expect("connection established")
    }

    fn spawn(&self, name: String, side: usize, kind: Kind, f: impl FnOnce(Rc<Cell<Kind>>) -> ActorFut) {
        let k = Rc::new(Cell::new(kind));
        let fut = f(k.clone());
        self.spawn.borrow_mut().push((name, side, k, fut));
        // make sure the harness loop runs again to adopt the new actor
        self.main.wake_by_ref();
    }
}

fn family(e: &ConnectionError) -> String {
    match e {
        ConnectionError::LocallyClosed => "LocallyClosed".into(),
        ConnectionError::ApplicationClosed(_) => "ApplicationClosed".into(),
        ConnectionError::ConnectionClosed(_) => "ConnectionClosed".into(),
        ConnectionError::TimedOut => "TimedOut".into(),
        ConnectionError::Reset => "Reset".into(),
        other => format!("{other:?}").chars().take_while(|c| c.is_ascii_alphanumeric()).collect(),
    }
}

fn io_family(e: &std::io::Error) -> End {
    // compio-io trait methods wrap WriteError/ReadError into io::Error
    if let Some(inner) = e.get_ref() {
        if let Some(w) = inner.downcast_ref::<compio_quic::WriteError>() {
            return write_end(w.clone());
        }
        if let Some(r) = inner.downcast_ref::<compio_quic::ReadError>() {
            return read_end(r.clone());
        }
    }
    End::Bad("io-error".into(), format!("unexpected io error: {e}"))
}

fn write_end(e: compio_quic::WriteError) -> End {
    match e {
        compio_quic::WriteError::ConnectionLost(c) => End::ConnErr(family(&c)),
        other => End::Bad("write-error".into(), format!("write failed: {other}")),
    }
}

fn read_end(e: compio_quic::ReadError) -> End {
    match e {
        compio_quic::ReadError::ConnectionLost(c) => End::ConnErr(family(&c)),
        other => End::Bad("read-error".into(), format!("read failed: {other}")),
    }
}

/// yield to the harness once
async fn yield_now() {
    let mut done = false;
    std::future::poll_fn(|cx| {
        if done {
            Poll::Ready(())
        } else {
            done = true;
            cx.waker().wake_by_ref();
            Poll::Pending
        }
    })
    .await
}

thread_local! {
    /// set once the close has been issued: pacing stops and pacing sleeps in flight end at the next poll, so
    /// that no actor is waiting on a timer of its own when the "every future completed" rule is evaluated
    /// (closed() resolves as soon as the connection error is set, there is no drain period to hide behind)
    static NO_PACE: Cell<bool> = const { Cell::new(false) };
}

async fn pace(p: Pace, k: usize) {
    if NO_PACE.with(|c| c.get()) {
        return;
    }
    match p {
        Pace::Eager => {}
        Pace::Yield(n) => {
            if k % (n.max(1) as usize) == 0 {
                yield_now().await
            }
        }
        Pace::Sleep(n) => {
            if k % (n.max(1) as usize) == 0 {
                // interruptible: the harness re-polls every actor when it issues the close, and a pacing sleep
                // ends at that poll.  An actor is therefore never waiting on a timer of its own (something the
                // connection cannot and need not wake) when "every future of this side is complete" is judged.
                let mut sleep = std::pin::pin!(compio_runtime::time::sleep(Duration::from_micros(300)));
                std::future::poll_fn(|cx| if NO_PACE.with(|c| c.get()) { Poll::Ready(()) } else { sleep.as_mut().poll(cx) }).await
            }
        }
    }
}

// ------------------------------------------------------------------------------------------------
// stream writers / readers

/// write `data` with the cyclic op list, then finish (or leave it to drop)
async fn write_payload(send: &mut SendStream, data: &[u8], ops: &[WOp], p: Pace) -> Result<(), End> {
    let mut off = 0usize;
    let mut k = 0usize;
    let default_ops = [WOp::WriteAll(u16::MAX)];
    let ops = if ops.is_empty() { &default_ops[..] } else { ops };
    while off < data.len() {
        let rest = &data[off..];
        match &ops[k % ops.len()] {
            WOp::Write(n) => {
                let n = (*n as usize).clamp(1, rest.len());
                let compio_buf::BufResult(r, _) = send.write(rest[..n].to_vec()).await;
                let w = r.map_err(|e| io_family(&e))?;
                if w == 0 || w > n {
                    return Err(End::Bad("write-count".into(), format!("write of {n} bytes reported {w}")));
                }
                off += w;
            }
            WOp::WriteAll(n) => {
                let n = (*n as usize).clamp(1, rest.len());
                let compio_buf::BufResult(r, _) = send.write_all(rest[..n].to_vec()).await;
                r.map_err(|e| io_family(&e))?;
                off += n;
            }
            WOp::Chunks(sizes) | WOp::AllChunks(sizes) => {
                let mut bufs: Vec<Bytes> = vec![];
                let mut o = 0;
                for s in sizes {
                    let s = (*s as usize).min(rest.len() - o);
                    bufs.push(Bytes::copy_from_slice(&rest[o..o + s]));
                    o += s;
                    if o == rest.len() {
                        break;
                    }
                }
                if o == 0 {
                    bufs = vec![Bytes::copy_from_slice(&rest[..1])];
                    o = 1;
                }
                if matches!(&ops[k % ops.len()], WOp::AllChunks(_)) {
                    send.write_all_chunks(&mut bufs).await.map_err(write_end)?;
                    off += o;
                } else {
                    let w = send.write_chunks(&mut bufs).await.map_err(write_end)?;
                    if w.bytes > o || (w.bytes == 0 && o > 0) {
                        return Err(End::Bad("write-count".into(), format!("write_chunks of {o} bytes reported {}", w.bytes)));
                    }
                    off += w.bytes;
                }
            }
        }
        k += 1;
        pace(p, k).await;
    }
    Ok(())
}

/// read to the end of the stream with the cyclic op list, verifying every byte against `want`
async fn read_payload(recv: &mut RecvStream, want: &[u8], ops: &[ROp], p: Pace, mut progress: impl FnMut(u64)) -> Result<(), End> {
    let mut off = 0usize;
    let mut k = 0usize;
    let default_ops = [ROp::Read(4096)];
    let ops = if ops.is_empty() { &default_ops[..] } else { ops };
    let check = |off: usize, got: &[u8]| -> Result<(), End> {
        if off + got.len() > want.len() {
            return Err(End::Bad("stream/extra-bytes".into(), format!("{} bytes at offset {off} but only {} were written", got.len(), want.len())));
        }
        if got != &want[off..off + got.len()] {
            let j = (0..got.len()).find(|&j| got[j] != want[off + j]).unwrap();
            return Err(End::Bad("stream/data-mismatch".into(), format!("byte {} is {:#04x}, written {:#04x}", off + j, got[j], want[off + j])));
        }
        Ok(())
    };
    loop {
        let op = &ops[k % ops.len()];
        let eof = match op {
            ROp::Read(cap) => {
                let cap = (*cap as usize).max(1);
                let compio_buf::BufResult(r, buf) = recv.read(Vec::with_capacity(cap)).await;
                let n = r.map_err(|e| io_family(&e))?;
                if n != buf.len() {
                    return Err(End::Bad("read-count".into(), format!("read reported {n} but the buffer holds {}", buf.len())));
                }
                check(off, &buf)?;
                off += n;
                progress(n as u64);
                n == 0
            }
            ROp::Chunk(max) => match recv.read_chunk((*max as usize).max(1), true).await.map_err(read_end)? {
                Some(c) => {
                    if c.offset != off as u64 {
                        return Err(End::Bad("stream/chunk-offset".into(), format!("ordered chunk at offset {} while {off} bytes were delivered", c.offset)));
                    }
                    if c.bytes.len() > (*max as usize).max(1) || c.bytes.is_empty() {
                        return Err(End::Bad("read-count".into(), format!("chunk of {} bytes for max_length {}", c.bytes.len(), max)));
                    }
                    check(off, &c.bytes)?;
                    off += c.bytes.len();
                    progress(c.bytes.len() as u64);
                    false
                }
                None => true,
            },
            ROp::Chunks(n) => {
                let mut bufs = vec![Bytes::new(); (*n as usize).max(1)];
                match recv.read_chunks(&mut bufs).await.map_err(read_end)? {
                    Some(m) => {
                        if m == 0 || m > bufs.len() {
                            return Err(End::Bad("read-count".into(), format!("read_chunks filled {m} of {} buffers", bufs.len())));
                        }
                        for b in &bufs[..m] {
                            check(off, b)?;
                            off += b.len();
                            progress(b.len() as u64);
                        }
                        false
                    }
                    None => true,
                }
            }
            ROp::ToEnd | ROp::ToEndCap(_) => {
                let dst = match op {
                    ROp::ToEndCap(c) => Vec::with_capacity(*c as usize),
                    _ => Vec::new(),
                };
                let compio_buf::BufResult(r, buf) = recv.read_to_end(dst).await;
                let n = r.map_err(|e| io_family(&e))?;
                if n != buf.len() {
                    return Err(End::Bad("read-count".into(), format!("read_to_end reported {n} but the buffer holds {}", buf.len())));
                }
                check(off, &buf)?;
                off += n;
                progress(n as u64);
                true
            }
        };
        if eof {
            break;
        }
        k += 1;
        pace(p, k).await;
    }
    if off != want.len() {
        return Err(End::Bad("stream/early-eof".into(), format!("end of stream after {off} of {} bytes", want.len())));
    }
    Ok(())
}

/// the side that opens stream `i`
fn opener(ctx: Rc<Ctx>, i: usize, kind: Rc<Cell<Kind>>) -> ActorFut {
    Box::pin(async move {
        let spec = ctx.case.streams[i].clone();
        let side = if spec.by_client { 0 } else { 1 };
        let conn = ctx.conn(side);
        kind.set(Kind::OpenWait);
        let (mut send, recv) = if spec.bidi {
            match conn.open_bi_wait().await {
                Ok((s, r)) => (s, Some(r)),
                Err(e) => return End::ConnErr(family(&e)),
            }
        } else {
            match conn.open_uni_wait().await {
                Ok(s) => (s, None),
                Err(e) => return End::ConnErr(family(&e)),
            }
        };
        ctx.table.borrow_mut().insert((side, spec.bidi, send.id().index()), Entry::Spec(i));
        kind.set(Kind::Writer);
        let data = payload(i, false, spec.len());
        let wr = async {
            write_payload(&mut send, &data, &spec.wops, spec.wpace).await?;
            if spec.finish {
                if let Err(e) = send.finish() {
                    return Err(End::Bad("finish-error".into(), format!("finish: {e}")));
                }
                // completes when the peer has received everything
                match send.stopped().await {
                    Ok(None) => {}
                    Ok(Some(c)) => return Err(End::Bad("stopped-code".into(), format!("stopped() yields stop code {c} although the peer never stops streams"))),
                    Err(compio_quic::StoppedError::ConnectionLost(e)) => return Err(End::ConnErr(family(&e))),
                    Err(e) => return Err(End::Bad("stopped-error".into(), format!("{e}"))),
                }
            }
            drop(send);
            Ok(())
        };
        let rd = async {
            if let Some(mut recv) = recv {
                let want = payload(i, true, spec.resp_len());
                let c2 = ctx.clone();
                let r = read_payload(&mut recv, &want, &spec.rops, spec.rpace, |n| {
                    c2.got.borrow_mut()[i][1] += n;
                    c2.bytes_read.set(c2.bytes_read.get() + n);
                })
                .await;
                if r.is_ok() {
                    ctx.complete.borrow_mut()[i][1] = true;
                }
                r
            } else {
                Ok(())
            }
        };
        let (a, b) = futures_util::future::join(wr, rd).await;
        // a definite violation wins over a connection error
        match (a, b) {
            (Err(e @ End::Bad(..)), _) | (_, Err(e @ End::Bad(..))) => e,
            (Err(e), _) | (_, Err(e)) => e,
            _ => End::Done,
        }
    })
}

/// the accepting side's handling of one incoming stream
fn acceptor_stream(ctx: Rc<Ctx>, side: usize, bidi: bool, send: Option<SendStream>, mut recv: RecvStream, kind: Rc<Cell<Kind>>) -> ActorFut {
    Box::pin(async move {
        let key = (1 - side, bidi, recv.id().index());
        let entry = ctx.table.borrow().get(&key).cloned();
        match entry {
            None => End::Bad("stream/unknown".into(), format!("accepted a {} stream with index {} that the peer never opened", if bidi { "bidirectional" } else { "unidirectional" }, key.2)),
            Some(Entry::ProbeHeld) => {
                // becomes visible only if its holder got another stream and dropped this one: empty and finished
                let compio_buf::BufResult(r, buf) = recv.read(Vec::with_capacity(8)).await;
                match r {
                    Ok(0) => End::Done,
                    Ok(n) => End::Bad("stream/extra-bytes".into(), format!("{n} bytes ({:?}) on a stream that was never written", &buf[..n.min(8)])),
                    Err(e) => io_family(&e),
                }
            }
            Some(Entry::ProbeIdle) => {
                let mut c = ctx.probe_streams.get();
                c[1] += 1;
                ctx.probe_streams.set(c);
                // one byte was written and nothing else will ever come: a read that stays pending
                kind.set(Kind::IdleRead);
                let mut seen = 0usize;
                loop {
                    let compio_buf::BufResult(r, buf) = recv.read(Vec::with_capacity(8)).await;
                    match r {
                        Ok(0) => return End::Bad("stream/early-eof".into(), "probe stream ended although its writer neither finished nor dropped it".into()),
                        Ok(n) => {
                            seen += n;
                            if seen > 1 || buf[0] != 0xA5 {
                                return End::Bad("stream/data-mismatch".into(), format!("probe stream delivered {seen} bytes / {:#04x}, written: one byte 0xa5", buf[0]));
                            }
                        }
                        Err(e) => return io_family(&e),
                    }
                }
            }
            Some(Entry::ProbeBlocked) => {
                let mut c = ctx.probe_streams.get();
                c[1] += 1;
                ctx.probe_streams.set(c);
                // never read: the writer runs into the flow-control window; wait for a reset that never comes
                kind.set(Kind::ReceivedReset);
                match recv.received_reset().await {
                    Ok(x) => End::Bad("received_reset".into(), format!("received_reset() yields {x:?} on a stream that is neither reset nor finished")),
                    Err(compio_quic::ResetError::ConnectionLost(e)) => End::ConnErr(family(&e)),
                    Err(e) => End::Bad("received_reset".into(), format!("{e}")),
                }
            }
            Some(Entry::Spec(i)) => {
                let spec = ctx.case.streams[i].clone();
                let want = payload(i, false, spec.len());
                let c2 = ctx.clone();
                let rd = async {
                    let r = read_payload(&mut recv, &want, &spec.rops, spec.rpace, |n| {
                        c2.got.borrow_mut()[i][0] += n;
                        c2.bytes_read.set(c2.bytes_read.get() + n);
                    })
                    .await;
                    if r.is_ok() {
                        ctx.complete.borrow_mut()[i][0] = true;
                    }
                    r
                };
                let wr = async {
                    if let Some(mut send) = send {
                        let data = payload(i, true, spec.resp_len());
                        write_payload(&mut send, &data, &spec.wops, spec.wpace).await?;
                        if spec.finish {
                            send.finish().map_err(|e| End::Bad("finish-error".into(), format!("finish: {e}")))?;
                        }
                        drop(send);
                    }
                    Ok(())
                };
                let (a, b) = futures_util::future::join(rd, wr).await;
                match (a, b) {
                    (Err(e @ End::Bad(..)), _) | (_, Err(e @ End::Bad(..))) => e,
                    (Err(e), _) | (_, Err(e)) => e,
                    _ => End::Done,
                }
            }
        }
    })
}

fn accept_loop(ctx: Rc<Ctx>, side: usize, bidi: bool) -> ActorFut {
    Box::pin(async move {
        let conn = ctx.conn(side);
        let mut n = 0;
        loop {
            if bidi {
                match conn.accept_bi().await {
                    Ok((s, r)) => {
                        let c = ctx.clone();
                        ctx.spawn(format!("{}:bi-stream#{n}", SIDES[side]), side, Kind::Reader, move |k| acceptor_stream(c, side, true, Some(s), r, k));
                    }
                    Err(e) => return End::ConnErr(family(&e)),
                }
            } else {
                match conn.accept_uni().await {
                    Ok(r) => {
                        let c = ctx.clone();
                        ctx.spawn(format!("{}:uni-stream#{n}", SIDES[side]), side, Kind::Reader, move |k| acceptor_stream(c, side, false, None, r, k));
                    }
                    Err(e) => return End::ConnErr(family(&e)),
                }
            }
            n += 1;
        }
    })
}

// ------------------------------------------------------------------------------------------------
// datagrams

fn dgram_sender(ctx: Rc<Ctx>, side: usize) -> ActorFut {
    Box::pin(async move {
        let conn = ctx.conn(side);
        let max = conn.max_datagram_size().unwrap_or(0);
        let group = ctx.case.dgram_burst[side].max(1) as usize;
        for (j, raw) in ctx.case.dgrams[side].iter().enumerate() {
            let mut len = dgram_len(*raw).min(max.saturating_sub(8));
            if group > 1 {
                // small enough for a whole group to travel in one packet
                len = len.min(4 + (*raw as usize % 150));
            }
            if len < 4 {
                continue;
            }
            let d = Bytes::from(datagram(side, j, len));
            let r = if group > 1 { conn.send_datagram(d) } else { conn.send_datagram_wait(d).await };
            match r {
                Ok(()) => {}
                Err(compio_quic::SendDatagramError::ConnectionLost(e)) => return End::ConnErr(family(&e)),
                Err(e) => return End::Bad("datagram/send-error".into(), format!("send_datagram({len} bytes, max {max}): {e}")),
            }
            if (j + 1) % group == 0 {
                // let the group leave before the next one is queued
                if NO_PACE.with(|c| c.get()) {
                    yield_now().await;
                } else {
                    let mut sleep = std::pin::pin!(compio_runtime::time::sleep(Duration::from_micros(400)));
                    std::future::poll_fn(|cx| if NO_PACE.with(|c| c.get()) { Poll::Ready(()) } else { sleep.as_mut().poll(cx) }).await;
                }
            }
        }
        End::Done
    })
}

/// `quota` datagrams, then the reader ends; 0 = until the connection closes
fn dgram_receiver(ctx: Rc<Ctx>, side: usize, quota: u8) -> ActorFut {
    Box::pin(async move {
        let conn = ctx.conn(side);
        let mut taken = 0u32;
        loop {
            if quota > 0 && taken >= quota as u32 {
                return End::Done;
            }
            match conn.recv_datagram().await {
                Ok(d) => {
                    // [sender side, index lo, index hi, len check] + position coded body
                    if d.len() < 4 {
                        return End::Bad("datagram/not-sent".into(), format!("a datagram of {} bytes arrived, none that short was sent", d.len()));
                    }
                    let j = d[1] as usize | (d[2] as usize) << 8;
                    let sender = 1 - side;
                    if d[0] as usize != sender || j >= ctx.case.dgrams[sender].len() {
                        return End::Bad("datagram/not-sent".into(), format!("datagram header {:?} matches nothing the peer sent", &d[..4]));
                    }
                    if datagram(sender, j, d.len()) != d[..] {
                        return End::Bad("datagram/corrupt".into(), format!("datagram #{j} ({} bytes) differs from what was sent", d.len()));
                    }
                    taken += 1;
                    if !ctx.dgram_seen.borrow_mut()[side].insert(j) {
                        return End::Bad("datagram/duplicate".into(), format!("datagram #{j} delivered twice"));
                    }
                    let mut c = ctx.dgrams_ok.get();
                    c[side] += 1;
                    ctx.dgrams_ok.set(c);
                }
                Err(e) => return End::ConnErr(family(&e)),
            }
        }
    })
}

// ------------------------------------------------------------------------------------------------
// probes: futures that are pending when the close happens

fn probe(ctx: Rc<Ctx>, side: usize, p: Probe, kind: Rc<Cell<Kind>>) -> Option<ActorFut> {
    let conn = ctx.conn(side);
    let limit = |bidi: bool| {
        let c = if side == 0 { &ctx.case.cfg[1] } else { &ctx.case.cfg[0] };
        (if bidi { c.max_bidi } else { c.max_uni }) as usize
    };
    Some(match p {
        Probe::OpenWaitAtLimit { bidi } => {
            // take every stream the peer allows (non-waiting), then wait for one more
            let mut held: Vec<(SendStream, Option<RecvStream>)> = vec![];
            for _ in 0..limit(bidi) + 1 {
                if bidi {
                    match conn.open_bi() {
                        Ok((s, r)) => held.push((s, Some(r))),
                        Err(_) => break,
                    }
                } else {
                    match conn.open_uni() {
                        Ok(s) => held.push((s, None)),
                        Err(_) => break,
                    }
                }
                let id = held.last().unwrap().0.id().index();
                ctx.table.borrow_mut().insert((side, bidi, id), Entry::ProbeHeld);
            }
            if held.len() > limit(bidi) {
                return None; // the limit was not reached (credits returned meanwhile): no probe
            }
            kind.set(Kind::OpenWait);
            Box::pin(async move {
                // (if credit arrives after all, the extra stream is dropped unwritten like the held ones)
                let r = if bidi {
                    conn.open_bi_wait().await.map(|(s, _r)| {
                        ctx.table.borrow_mut().insert((side, bidi, s.id().index()), Entry::ProbeHeld);
                    })
                } else {
                    conn.open_uni_wait().await.map(|s| {
                        ctx.table.borrow_mut().insert((side, bidi, s.id().index()), Entry::ProbeHeld);
                    })
                };
                drop(held);
                match r {
                    Ok(()) => End::Done,
                    Err(e) => End::ConnErr(family(&e)),
                }
            })
        }
        Probe::IdleStream { bidi } => {
            // a stream whose reader on the peer stays pending and whose `stopped()` stays pending here
            let (mut s, r) = if bidi {
                match conn.open_bi() {
                    Ok((s, r)) => (s, Some(r)),
                    Err(_) => return None,
                }
            } else {
                match conn.open_uni() {
                    Ok(s) => (s, None),
                    Err(_) => return None,
                }
            };
            ctx.table.borrow_mut().insert((side, bidi, s.id().index()), Entry::ProbeIdle);
            let mut c = ctx.probe_streams.get();
            c[0] += 1;
            ctx.probe_streams.set(c);
            kind.set(Kind::Stopped);
            Box::pin(async move {
                let compio_buf::BufResult(w, _) = s.write_all(vec![0xA5u8]).await;
                if let Err(e) = w {
                    return io_family(&e);
                }
                let _keep = r;
                match s.stopped().await {
                    Ok(x) => End::Bad("stopped".into(), format!("stopped() yields {x:?} although the stream was neither finished nor stopped")),
                    Err(compio_quic::StoppedError::ConnectionLost(e)) => End::ConnErr(family(&e)),
                    Err(e) => End::Bad("stopped-error".into(), format!("{e}")),
                }
            })
        }
        Probe::BlockedWrite => {
            // only meaningful when the peer's stream window is small enough to be filled quickly
            let peer = if side == 0 { &ctx.case.cfg[1] } else { &ctx.case.cfg[0] };
            let win = peer.stream_window().min(peer.conn_window());
            if win > 64 * 1024 {
                return None;
            }
            let mut s = match conn.open_uni() {
                Ok(s) => s,
                Err(_) => return None,
            };
            ctx.table.borrow_mut().insert((side, false, s.id().index()), Entry::ProbeBlocked);
            let mut c = ctx.probe_streams.get();
            c[0] += 1;
            ctx.probe_streams.set(c);
            kind.set(Kind::BlockedWrite);
            Box::pin(async move {
                let total = (win as usize) * 3 + 70_000;
                let compio_buf::BufResult(w, _) = s.write_all(vec![0x5Au8; total]).await;
                match w {
                    Ok(()) => End::Bad("flow-control".into(), format!("{total} bytes were accepted on a stream whose reader never read and whose window is {win}")),
                    Err(e) => io_family(&e),
                }
            })
        }
        Probe::Closed => {
            kind.set(Kind::Closed);
            Box::pin(async move {
                let e = conn.closed().await;
                End::ConnErr(family(&e))
            })
        }
    })
}

const SIDES: [&str; 2] = ["client", "server"];

/// poll an actor; a panic inside compio-quic becomes a violation with a stable signature
fn poll_actor(a: &mut Actor, cx: &mut Context<'_>) -> Poll<End> {
    let kind = a.kind.get();
    let fut = a.fut.as_mut().unwrap();
    match std::panic::catch_unwind(std::panic::AssertUnwindSafe(|| fut.as_mut().poll(cx))) {
        Ok(p) => p,
        Err(e) => {
            let msg = e.downcast_ref::<String>().cloned().or_else(|| e.downcast_ref::<&str>().map(|s| s.to_string())).unwrap_or_default();
            if kind == Kind::Closed && msg.contains("unwrap_err") {
                // known finding: Connection::closed() takes the driver's JoinHandle; a second concurrent call finds
                // none and unwraps the error of a connection that is still open
                return Poll::Ready(End::Bad("closed/second-concurrent-call-panics".into(), format!("closed() on a clone while another closed() is pending: {}", msg.chars().take(120).collect::<String>())));
            }
            let head: String = msg.chars().take_while(|c| *c != ':').take(60).collect();
            Poll::Ready(End::Bad(format!("panic/{}/{}", kind.name(), head), format!("panicked while polled: {}", msg.chars().take(300).collect::<String>())))
        }
    }
}

// ------------------------------------------------------------------------------------------------
// the harness future

const WATCHDOG: Duration = Duration::from_secs(90);
/// no actor was polled for this long although work is outstanding: apply the rescue stimuli
const STALL: Duration = Duration::from_secs(8);

struct Pems {
    ca: Vec<u8>,
    leaf: Vec<u8>,
    key: Vec<u8>,
}

fn transport(c: &TCfg) -> TransportConfig {
    let mut t = TransportConfig::default();
    t.receive_window(VarInt::from_u32(c.conn_window().min(u32::MAX as u64) as u32));
    t.stream_receive_window(VarInt::from_u32(c.stream_window().min(u32::MAX as u64) as u32));
    t.send_window(c.send_window());
    t.max_concurrent_uni_streams(VarInt::from_u32(c.max_uni as u32));
    t.max_concurrent_bidi_streams(VarInt::from_u32(c.max_bidi as u32));
    t.max_idle_timeout(Some(Duration::from_secs(30).try_into().unwrap()));
    t.initial_rtt(Duration::from_millis(20));
    t
}

enum Verdict {
    Pass { labels: Vec<String>, nontrivial: bool },
    Violation(String, String),
    Inconclusive(String),
}

async fn run_case(case: QCase, pems: &Pems) -> Verdict {
    // ---- endpoints with the fixture certificates
    let provider = Arc::new(rustls::crypto::ring::default_provider());
    let leaf = CertificateDer::from_pem_slice(&pems.leaf).expect("leaf pem");
    let ca = CertificateDer::from_pem_slice(&pems.ca).expect("ca pem");
    let key = PrivateKeyDer::from_pem_slice(&pems.key).expect("key pem");
    let scfg = rustls::ServerConfig::builder_with_provider(provider.clone())
        .with_protocol_versions(&[&rustls::version::TLS13])
        .expect("tls13")
        .with_no_client_auth()
        .with_single_cert(vec![leaf], key)
        .expect("server cert");
    let mut server_config = ServerBuilder::new_with_rustls_server_config(scfg).build();
    server_config.transport_config(Arc::new(transport(&case.cfg[1])));
    let mut roots = rustls::RootCertStore::empty();
    roots.add(ca).expect("ca");
    let ccfg = rustls::ClientConfig::builder_with_provider(provider).with_protocol_versions(&[&rustls::version::TLS13]).expect("tls13").with_root_certificates(roots).with_no_client_auth();
    let mut client_config = ClientBuilder::new_with_rustls_client_config(ccfg).build();
    client_config.transport_config(Arc::new(transport(&case.cfg[0])));

    let server = match Endpoint::server("127.0.0.1:0", server_config).await {
        Ok(e) => e,
        Err(e) => return Verdict::Inconclusive(format!("bind server: {e}")),
    };
    let client = match Endpoint::client("127.0.0.1:0").await {
        Ok(e) => e,
        Err(e) => return Verdict::Inconclusive(format!("bind client: {e}")),
    };
    let server_addr = server.local_addr().expect("addr");

    let main = Arc::new(Flag { set: AtomicBool::new(true), main: Mutex::new(None) });
    let n = case.streams.len();
    let ctx = Rc::new(Ctx {
        case: case.clone(),
        conns: RefCell::new([None, None]),
        table: RefCell::new(HashMap::new()),
        spawn: RefCell::new(vec![]),
        bytes_read: Cell::new(0),
        got: RefCell::new(vec![[0; 2]; n]),
        complete: RefCell::new(vec![[false; 2]; n]),
        dgrams_ok: Cell::new([0; 2]),
        dgram_seen: RefCell::new([Default::default(), Default::default()]),
        closed_seen: Cell::new(false),
        probe_streams: Cell::new([0; 2]),
        main: main.clone(),
    });

    // ---- handshake (both sides at once), guarded by the watchdog only
    let hs = async {
        let c = async { client.connect(server_addr, "localhost", Some(client_config)).map_err(|e| format!("connect: {e}"))?.await.map_err(|e| format!("client handshake: {e}")) };
        let s = async {
            match server.wait_incoming().await {
                Some(i) => i.await.map_err(|e| format!("server handshake: {e}")),
                None => Err("wait_incoming yielded None".to_string()),
            }
        };
        let (c, s) = futures_util::future::join(c, s).await;
        Ok::<_, String>((c?, s?))
    };
    let (cc, sc) = match compio_runtime::time::timeout(WATCHDOG, hs).await {
        Err(_) => return Verdict::Inconclusive("handshake did not finish within the watchdog".into()),
        Ok(Err(e)) => return Verdict::Violation("C16/handshake/error".into(), e),
        Ok(Ok(p)) => p,
    };
    *ctx.conns.borrow_mut() = [Some(cc), Some(sc)];

    // ---- actors
    let mut actors: Vec<Actor> = vec![];
    let add = |actors: &mut Vec<Actor>, name: String, side: usize, kind: Rc<Cell<Kind>>, fut: ActorFut| {
        actors.push(Actor { name, side, kind, fut: Some(fut), flag: Arc::new(Flag { set: AtomicBool::new(true), main: Mutex::new(None) }), end: None, polls: 0, rescued: false });
    };
    let mk = |k: Kind| Rc::new(Cell::new(k));
    // a server-side wait_incoming that stays pending until the endpoint is closed is not a connection
    // future; the accept loops, datagram receivers and closed() watchers are always there
    for side in 0..2 {
        add(&mut actors, format!("{}:accept_uni", SIDES[side]), side, mk(Kind::Accept), accept_loop(ctx.clone(), side, false));
        add(&mut actors, format!("{}:accept_bi", SIDES[side]), side, mk(Kind::Accept), accept_loop(ctx.clone(), side, true));
        let q0 = case.dgram_readers[side].first().copied().unwrap_or(0);
        add(&mut actors, format!("{}:recv_datagram#0(quota {q0})", SIDES[side]), side, mk(Kind::RecvDatagram), dgram_receiver(ctx.clone(), side, q0));
        let k = mk(Kind::Closed);
        let f = probe(ctx.clone(), side, Probe::Closed, k.clone()).unwrap();
        add(&mut actors, format!("{}:closed", SIDES[side]), side, k, f);
    }
    let watcher = [3usize, 7usize]; // indices of the two closed() watchers above
    // further datagram readers, every one its own actor = its own waker
    for side in 0..2 {
        for (r, q) in case.dgram_readers[side].iter().enumerate().skip(1) {
            add(&mut actors, format!("{}:recv_datagram#{r}(quota {q})", SIDES[side]), side, mk(Kind::RecvDatagram), dgram_receiver(ctx.clone(), side, *q));
        }
    }
    let transfer_start = actors.len();
    for (i, s) in case.streams.iter().enumerate() {
        let side = if s.by_client { 0 } else { 1 };
        let k = mk(Kind::OpenWait);
        add(&mut actors, format!("{}:open-stream[{i}]", SIDES[side]), side, k.clone(), opener(ctx.clone(), i, k));
    }
    for side in 0..2 {
        if !case.dgrams[side].is_empty() {
            add(&mut actors, format!("{}:datagram-sender", SIDES[side]), side, mk(Kind::DgramSend), dgram_sender(ctx.clone(), side));
        }
    }
    let transfer_end = actors.len();
    let mut timer: Option<ActorFut> = Some(Box::pin(async {
        compio_runtime::time::sleep(WATCHDOG).await;
        End::Done
    }));
    let timer_flag = Arc::new(Flag { set: AtomicBool::new(true), main: Mutex::new(None) });
    let mut stall: ActorFut = Box::pin(async {
        compio_runtime::time::sleep(STALL).await;
        End::Done
    });
    let stall_flag = Arc::new(Flag { set: AtomicBool::new(true), main: Mutex::new(None) });

    #[derive(PartialEq, Clone, Copy, Debug)]
    enum St {
        Running,
        ProbesUp,
        Closing,
    }
    let mut st = St::Running;
    let total_expected: u64 = case.streams.iter().map(|s| s.len() as u64 + if s.bidi { s.resp_len() as u64 } else { 0 }).sum();
    let threshold = match case.close.when {
        When::Before => 0,
        When::During(f) => total_expected * (f as u64) / 256,
        When::After => u64::MAX,
    };
    let mut pending_at_close: Vec<Kind> = vec![];
    // how long the close waits for the peer to take up the probe streams: decides when the close is issued,
    // never a verdict
    let mut grace: Option<ActorFut> = None;
    let grace_flag = Arc::new(Flag { set: AtomicBool::new(false), main: Mutex::new(None) });
    let mut grace_done = false;
    let mut judged = [false; 2];
    let mut stalled_rescue = false;
    let mut polled_since_stall = false;
    let mut failure: Option<(String, String)> = None;
    let mut inconclusive: Option<String> = None;
    let closer = if case.close.by_client { 0 } else { 1 };
    let code = 0x2a_u32;

    std::future::poll_fn(|cx| {
        *main.main.lock().unwrap() = Some(cx.waker().clone());
        loop {
            let mut progressed = false;
            // adopt actors spawned by accept loops
            for (name, side, kind, fut) in ctx.spawn.borrow_mut().drain(..) {
                actors.push(Actor { name, side, kind, fut: Some(fut), flag: Arc::new(Flag { set: AtomicBool::new(true), main: Mutex::new(None) }), end: None, polls: 0, rescued: false });
                progressed = true;
            }
            for a in actors.iter_mut() {
                if a.fut.is_some() && a.flag.set.swap(false, Ordering::SeqCst) {
                    *a.flag.main.lock().unwrap() = Some(cx.waker().clone());
                    let w = Waker::from(a.flag.clone());
                    let mut acx = Context::from_waker(&w);
                    a.polls += 1;
                    progressed = true;
                    polled_since_stall = true;
                    if let Poll::Ready(e) = poll_actor(a, &mut acx) {
                        a.fut = None;
                        a.end = Some(e);
                    }
                }
            }
            // a definite violation reported by an actor ends the case
            if failure.is_none() {
                for a in actors.iter() {
                    if let Some(End::Bad(sig, detail)) = &a.end {
                        failure = Some((format!("C16/{sig}"), format!("{}: {detail}", a.name)));
                        break;
                    }
                    // a connection error before anybody closed anything
                    if let (Some(End::ConnErr(f)), true) = (&a.end, st != St::Closing) {
                        if f == "TimedOut" {
                            // the idle timeout is a wall-clock event (a starved process can produce it): never a verdict
                            inconclusive = Some(format!("{} hit the 30 s idle timeout before the close", a.name));
                            return Poll::Ready(());
                        }
                        failure = Some((format!("C16/connection-lost-before-close/{f}"), format!("{} failed with {f} although nobody had closed the connection", a.name)));
                        break;
                    }
                }
            }
            if failure.is_some() {
                return Poll::Ready(());
            }
            // ---- state machine
            match st {
                St::Running => {
                    let transfer_done = actors[transfer_start..transfer_end].iter().all(|a| a.fut.is_none())
                        && actors[transfer_end..].iter().all(|a| a.fut.is_none())
                        && ctx.spawn.borrow().is_empty()
                        && (0..n).all(|i| ctx.complete.borrow()[i][0] && (!case.streams[i].bidi || ctx.complete.borrow()[i][1]));
                    if ctx.bytes_read.get() >= threshold || transfer_done {
                        // set up the probe futures and poll each once
                        for side in 0..2 {
                            for (j, p) in case.probes[side].iter().enumerate() {
                                let k = mk(Kind::Timer);
                                if let Some(f) = probe(ctx.clone(), side, *p, k.clone()) {
                                    actors.push(Actor { name: format!("{}:probe[{j}]:{p:?}", SIDES[side]), side, kind: k, fut: Some(f), flag: Arc::new(Flag { set: AtomicBool::new(true), main: Mutex::new(None) }), end: None, polls: 0, rescued: false });
                                }
                            }
                        }
                        st = St::ProbesUp;
                        progressed = true;
                    }
                }
                St::ProbesUp => {
                    // the pass above polled every new probe once (a blocked writer fills its window without a
                    // round trip, so it is pending by now).  Give the peer the chance to take up the probe streams
                    // (bounded by harness passes, not by time), then close whatever else is in flight
                    let ps = ctx.probe_streams.get();
                    let grace_over = match grace.as_mut() {
                        None => {
                            grace = Some(Box::pin(async {
                                compio_runtime::time::sleep(Duration::from_millis(40)).await;
                                End::Done
                            }));
                            grace_flag.set.store(true, Ordering::SeqCst);
                            false
                        }
                        Some(g) => {
                            if grace_flag.set.swap(false, Ordering::SeqCst) {
                                *grace_flag.main.lock().unwrap() = Some(cx.waker().clone());
                                let w = Waker::from(grace_flag.clone());
                                g.as_mut().poll(&mut Context::from_waker(&w)).is_ready()
                            } else {
                                false
                            }
                        }
                    };
                    grace_done |= grace_over;
                    if grace.is_some() && !grace_done && ps[0] != ps[1] {
                        // (first visit arms the timer: poll it right away so that its waker is registered)
                        progressed |= grace_flag.set.load(Ordering::SeqCst);
                    }
                    if ps[0] == ps[1] || grace_done {
                        // rescue rule for datagram readers: every flagged actor has just been polled, so a reader
                        // that is pending *and not woken* implies an empty receive queue.  One redundant poll of
                        // each: a reader that now gets a datagram was left asleep with a datagram queued.
                        let mut stranded = vec![];
                        for a in actors.iter_mut().filter(|a| a.fut.is_some() && a.kind.get() == Kind::RecvDatagram && !a.flag.set.load(Ordering::SeqCst)) {
                            let before = ctx.dgrams_ok.get()[a.side];
                            let w = Waker::from(a.flag.clone());
                            if let Poll::Ready(e) = poll_actor(a, &mut Context::from_waker(&w)) {
                                a.fut = None;
                                a.end = Some(e);
                            }
                            if ctx.dgrams_ok.get()[a.side] != before {
                                stranded.push(a.name.clone());
                            }
                        }
                        if !stranded.is_empty() {
                            failure = Some((
                                "C16/datagram/reader-not-woken-with-datagram-queued".into(),
                                format!("{} pending in recv_datagram() without a wake-up although a datagram was queued (it received one on a redundant poll)", stranded.join(", ")),
                            ));
                            return Poll::Ready(());
                        }
                        pending_at_close = actors.iter().filter(|a| a.fut.is_some() && a.polls > 0).map(|a| a.kind.get()).collect();
                        match case.close.what {
                            What::Connection => ctx.conn(closer).close(VarInt::from_u32(code), b"c16"),
                            What::Endpoint => (if closer == 0 { &client } else { &server }).close(VarInt::from_u32(code), b"c16"),
                        }
                        ctx.closed_seen.set(true);
                        NO_PACE.with(|c| c.set(true));
                        // one poll of every actor (redundant for all but those inside a pacing sleep, see `pace`)
                        for a in actors.iter() {
                            a.flag.set.store(true, Ordering::SeqCst);
                        }
                        st = St::Closing;
                        progressed = true;
                    }
                }
                St::Closing => {
                    for side in 0..2 {
                        // demonstrably closed on this side: its closed() resolved, or the stored close reason is there
                        // (then a still pending closed() is judged like every other future)
                        let closed_here = actors[watcher[side]].fut.is_none() || ctx.conn(side).close_reason().is_some();
                        if judged[side] || !closed_here || progressed {
                            continue;
                        }
                        // a full pass found nothing runnable: every future of this side must be complete
                        judged[side] = true;
                        let mut stranded = vec![];
                        for a in actors.iter_mut().filter(|a| a.side == side && a.fut.is_some()) {
                            // rescue rule: one redundant poll
                            let w = Waker::from(a.flag.clone());
                            let mut acx = Context::from_waker(&w);
                            a.polls += 1;
                            match poll_actor(a, &mut acx) {
                                Poll::Ready(e) => {
                                    a.fut = None;
                                    a.end = Some(e);
                                    a.rescued = true;
                                    stranded.push(format!("{} [{}] completed only when polled again", a.name, a.kind.get().name()));
                                    if failure.is_none() {
                                        failure = Some((format!("C16/close/not-woken/{}", a.kind.get().name()), String::new()));
                                    }
                                }
                                Poll::Pending => {
                                    stranded.push(format!("{} [{}] still pending after a redundant poll", a.name, a.kind.get().name()));
                                    if failure.is_none() {
                                        failure = Some((format!("C16/close/stranded/{}", a.kind.get().name()), String::new()));
                                    }
                                }
                            }
                        }
                        if let Some((sig, d)) = &mut failure {
                            if d.is_empty() {
                                *d = format!("{} side, connection closed ({:?} by {}): {}", SIDES[side], case.close.what, SIDES[closer], stranded.join("; "));
                                let _ = sig;
                            }
                            return Poll::Ready(());
                        }
                    }
                    if judged[0] && judged[1] {
                        return Poll::Ready(());
                    }
                }
            }
            if progressed {
                continue;
            }
            // ---- nothing runnable: timers
            if let Some(t) = timer.as_mut() {
                if timer_flag.set.swap(false, Ordering::SeqCst) {
                    *timer_flag.main.lock().unwrap() = Some(cx.waker().clone());
                    let w = Waker::from(timer_flag.clone());
                    if t.as_mut().poll(&mut Context::from_waker(&w)).is_ready() {
                        timer = None;
                        let waiting: Vec<String> = actors.iter().filter(|a| a.fut.is_some()).map(|a| format!("{}[{}]", a.name, a.kind.get().name())).collect();
                        inconclusive = Some(format!("watchdog in state {st:?}; pending: {}", waiting.join(", ")));
                        return Poll::Ready(());
                    }
                }
            }
            if stall_flag.set.swap(false, Ordering::SeqCst) {
                *stall_flag.main.lock().unwrap() = Some(cx.waker().clone());
                let w = Waker::from(stall_flag.clone());
                if stall.as_mut().poll(&mut Context::from_waker(&w)).is_ready() {
                    if polled_since_stall || st == St::Closing {
                        // things are moving (or we are waiting for the drain period): re-arm
                        polled_since_stall = false;
                    } else if !stalled_rescue {
                        // rescue rule while transferring: a redundant poll of every pending actor and a
                        // redundant wake of both connection drivers
                        stalled_rescue = true;
                        let before = ctx.bytes_read.get();
                        let mut woke = vec![];
                        for a in actors.iter_mut().filter(|a| a.fut.is_some()) {
                            let w = Waker::from(a.flag.clone());
                            let was = a.kind.get();
                            if let Poll::Ready(e) = poll_actor(a, &mut Context::from_waker(&w)) {
                                a.fut = None;
                                a.end = Some(e);
                                woke.push(format!("{}[{}]", a.name, was.name()));
                            } else if a.kind.get() != was {
                                woke.push(format!("{}[{}]", a.name, was.name()));
                            }
                        }
                        if !woke.is_empty() || ctx.bytes_read.get() != before {
                            failure = Some(("C16/transfer/lost-wake".into(), format!("no actor ran for {STALL:?}; a redundant poll made progress: {}", woke.join(", "))));
                            return Poll::Ready(());
                        }
                        for side in 0..2 {
                            let c = &case.cfg[side];
                            ctx.conn(side).set_max_concurrent_uni_streams(VarInt::from_u32(c.max_uni as u32));
                        }
                    }
                    stall = Box::pin(async {
                        compio_runtime::time::sleep(STALL).await;
                        End::Done
                    });
                    stall_flag.set.store(true, Ordering::SeqCst);
                    continue;
                }
            }
            return Poll::Pending;
        }
    })
    .await;

    // ---- verdict
    let transfer_rescued = stalled_rescue && failure.is_none() && inconclusive.is_none();
    let mut labels: Vec<String> = vec![];
    let verdict = if let Some((sig, detail)) = failure {
        Verdict::Violation(sig, detail)
    } else if let Some(why) = inconclusive {
        Verdict::Inconclusive(why)
    } else if transfer_rescued {
        Verdict::Violation("C16/transfer/stalled-until-driver-woken".into(), format!("no actor ran for {STALL:?}; a redundant wake of the connection drivers resumed the transfer"))
    } else {
        // every actor completed; check their ends against the close
        let mut bad = None;
        for a in &actors {
            match &a.end {
                Some(End::ConnErr(f)) => {
                    // (closing an endpoint closes its connection locally on that side as well)
                    let ok = if a.side == closer { f == "LocallyClosed" } else { f == "ApplicationClosed" || f == "TimedOut" || f == "Reset" };
                    if !ok {
                        bad = Some((format!("C16/close/error-family/{}/{f}", if a.side == closer { "closer" } else { "peer" }), format!("{} ended with {f}", a.name)));
                        break;
                    }
                    labels.push(format!("after-close:{}:{f}", a.kind.get().name()));
                }
                Some(End::Done) | Some(End::Bad(..)) => {}
                None => {}
            }
        }
        // data oracle for complete transfers (close after the transfer): everything arrived
        if bad.is_none() && matches!(case.close.when, When::After) {
            for i in 0..n {
                let s = &case.streams[i];
                let c = ctx.complete.borrow()[i];
                if !c[0] || (s.bidi && !c[1]) {
                    bad = Some(("C16/stream/incomplete".into(), format!("stream {i} was not delivered completely before the close after the transfer: {:?} of {}/{}", ctx.got.borrow()[i], s.len(), s.resp_len())));
                    break;
                }
            }
        }
        match bad {
            Some((s, d)) => Verdict::Violation(s, d),
            None => {
                let mut kinds: Vec<Kind> = pending_at_close.clone();
                kinds.sort();
                kinds.dedup();
                for k in &kinds {
                    labels.push(format!("pending-at-close:{}", k.name()));
                }
                labels.sort();
                labels.dedup();
                let when = match case.close.when {
                    When::Before => "before",
                    When::During(_) => "during",
                    When::After => "after",
                };
                labels.push(format!("close:{when}/{:?}/by-{}", case.close.what, SIDES[closer]));
                let small = |c: &TCfg, len: usize| (c.stream_window().min(c.conn_window()) as usize) < len;
                let windowed = case.streams.iter().filter(|s| small(&case.cfg[if s.by_client { 1 } else { 0 }], s.len())).count();
                if windowed >= 2 {
                    labels.push("streams>=2-with-window<payload".into());
                }
                if case.streams.len() >= 2 {
                    labels.push("concurrent-streams".into());
                }
                let d = ctx.dgrams_ok.get();
                if d[0] + d[1] > 0 {
                    labels.push("datagrams-delivered".into());
                }
                for side in 0..2 {
                    if case.dgram_readers[side].len() >= 2 && case.dgram_burst[1 - side] >= 2 && case.dgrams[1 - side].len() >= 2 {
                        labels.push("datagram-burst-to>=2-readers".into());
                        break;
                    }
                }
                let stream_kinds = kinds.iter().filter(|k| !matches!(k, Kind::Accept | Kind::RecvDatagram | Kind::Closed)).count();
                let nontrivial = windowed >= 2 || stream_kinds >= 2;
                Verdict::Pass { labels, nontrivial }
            }
        }
    };
    // ---- teardown: everything is dropped, both endpoints shut down (must not hang either)
    drop(actors);
    *ctx.conns.borrow_mut() = [None, None];
    ctx.table.borrow_mut().clear();
    drop(ctx);
    if !matches!(verdict, Verdict::Pass { .. }) {
        // unfinished futures were dropped above (dropping a pending closed() cancels the connection driver,
        // after which shutdown() cannot finish): leave the rest to the runtime drop
        return verdict;
    }
    let down = async {
        let a = client.shutdown().await;
        let b = server.shutdown().await;
        (a, b)
    };
    match compio_runtime::time::timeout(WATCHDOG, down).await {
        Ok(_) => verdict,
        Err(_) => match verdict {
            Verdict::Pass { .. } => Verdict::Inconclusive("Endpoint::shutdown did not finish within the watchdog".into()),
            v => v,
        },
    }
}

fn run(case: &QCase, pems: &Pems) -> Outcome {
    let case = &case::bound(case.clone());
    NO_PACE.with(|c| c.set(false));
    let mut pb = compio_driver::ProactorBuilder::new();
    pb.driver_type(if case.iour { compio_driver::DriverType::IoUring } else { compio_driver::DriverType::Poll });
    let rt = match compio_runtime::RuntimeBuilder::new().with_proactor(pb).build() {
        Ok(rt) => rt,
        Err(e) => return Outcome::inconclusive(format!("runtime build: {e}")),
    };
    let v = rt.block_on(run_case(case.clone(), pems));
    drop(rt);
    match v {
        Verdict::Pass { mut labels, nontrivial } => {
            labels.push(format!("driver:{}", if case.iour { "io-uring" } else { "poll" }));
            Outcome::pass_owned(nontrivial, labels)
        }
        Verdict::Violation(s, d) => Outcome::violation(s, d),
        Verdict::Inconclusive(w) => Outcome::inconclusive(w),
    }
}

// ------------------------------------------------------------------------------------------------
// part "openers": every blocked `open_*_wait` is woken when the peer grants stream credit

#[derive(Debug, Clone, serde::Serialize, serde::Deserialize)]
struct OpenersCase {
    iour: bool,
    /// the peer's initial stream limit
    limit: u8,
    /// openers beyond the limit (each its own task = its own waker), blocked in `open_*_wait`
    blocked: u8,
    /// the peer raises its limit by that many streams with one call (one MAX_STREAMS frame)
    raise: u8,
    bidi: bool,
    by_client: bool,
}

fn openers_strategy() -> impl vcore::proptest::strategy::Strategy<Value = OpenersCase> + Clone {
    use vcore::proptest::prelude::*;
    (any::<bool>(), 1u8..=3, 2u8..=5, 2u8..=5, any::<bool>(), any::<bool>()).prop_map(|(iour, limit, blocked, raise, bidi, by_client)| OpenersCase { iour, limit, blocked, raise: raise.min(blocked), bidi, by_client })
}

async fn run_openers_case(case: OpenersCase, pems: &Pems) -> Verdict {
    let provider = Arc::new(rustls::crypto::ring::default_provider());
    let leaf = CertificateDer::from_pem_slice(&pems.leaf).expect("leaf pem");
    let ca = CertificateDer::from_pem_slice(&pems.ca).expect("ca pem");
    let key = PrivateKeyDer::from_pem_slice(&pems.key).expect("key pem");
    let scfg = rustls::ServerConfig::builder_with_provider(provider.clone()).with_protocol_versions(&[&rustls::version::TLS13]).expect("tls13").with_no_client_auth().with_single_cert(vec![leaf], key).expect("server cert");
    let tcfg = || {
        let mut t = TransportConfig::default();
        t.max_concurrent_uni_streams(VarInt::from_u32(case.limit as u32));
        t.max_concurrent_bidi_streams(VarInt::from_u32(case.limit as u32));
        Arc::new(t)
    };
    let mut server_config = ServerBuilder::new_with_rustls_server_config(scfg).build();
    server_config.transport_config(tcfg());
    let mut roots = rustls::RootCertStore::empty();
    roots.add(ca).expect("ca");
    let ccfg = rustls::ClientConfig::builder_with_provider(provider).with_protocol_versions(&[&rustls::version::TLS13]).expect("tls13").with_root_certificates(roots).with_no_client_auth();
    let mut client_config = ClientBuilder::new_with_rustls_client_config(ccfg).build();
    client_config.transport_config(tcfg());
    let server = match Endpoint::server("127.0.0.1:0", server_config).await {
        Ok(e) => e,
        Err(e) => return Verdict::Inconclusive(format!("bind server: {e}")),
    };
    let client = match Endpoint::client("127.0.0.1:0").await {
        Ok(e) => e,
        Err(e) => return Verdict::Inconclusive(format!("bind client: {e}")),
    };
    let server_addr = server.local_addr().expect("addr");
    let hs = async {
        let c = async { client.connect(server_addr, "localhost", Some(client_config)).map_err(|e| format!("connect: {e}"))?.await.map_err(|e| format!("client handshake: {e}")) };
        let s = async {
            match server.wait_incoming().await {
                Some(i) => i.await.map_err(|e| format!("server handshake: {e}")),
                None => Err("wait_incoming yielded None".to_string()),
            }
        };
        let (c, s) = futures_util::future::join(c, s).await;
        Ok::<_, String>((c?, s?))
    };
    let (cc, sc) = match compio_runtime::time::timeout(WATCHDOG, hs).await {
        Err(_) => return Verdict::Inconclusive("handshake did not finish within the watchdog".into()),
        Ok(Err(e)) => return Verdict::Inconclusive(format!("handshake: {e}")),
        Ok(Ok(p)) => p,
    };
    let (opener, granter) = if case.by_client { (cc.clone(), sc.clone()) } else { (sc.clone(), cc.clone()) };
    let opened = Rc::new(Cell::new(0u32));
    let failed = Rc::new(Cell::new(0u32));
    let total = case.limit as u32 + case.blocked as u32;
    let mut tasks = vec![];
    for _ in 0..total {
        let (conn, opened, failed, bidi) = (opener.clone(), opened.clone(), failed.clone(), case.bidi);
        tasks.push(compio_runtime::spawn(async move {
            // the stream is held open (never finished) for the rest of the case
            let _held: (SendStream, Option<RecvStream>) = if bidi {
                match conn.open_bi_wait().await {
                    Ok((s, r)) => (s, Some(r)),
                    Err(_) => {
                        failed.set(failed.get() + 1);
                        return;
                    }
                }
            } else {
                match conn.open_uni_wait().await {
                    Ok(s) => (s, None),
                    Err(_) => {
                        failed.set(failed.get() + 1);
                        return;
                    }
                }
            };
            opened.set(opened.get() + 1);
            std::future::pending::<()>().await;
        }));
    }
    let wait_for = |want: u32, limit: Duration| {
        let opened = opened.clone();
        async move {
            let t0 = std::time::Instant::now();
            while opened.get() < want && t0.elapsed() < limit {
                compio_runtime::time::sleep(Duration::from_millis(2)).await;
            }
            opened.get()
        }
    };
    let first = wait_for(case.limit as u32, Duration::from_secs(10)).await;
    // let the others reach their blocked state
    compio_runtime::time::sleep(Duration::from_millis(10)).await;
    if first != case.limit as u32 || opened.get() != case.limit as u32 || failed.get() != 0 {
        return Verdict::Inconclusive(format!("{} of {} streams open before the grant ({} failed)", opened.get(), case.limit, failed.get()));
    }
    let new_limit = VarInt::from_u32(case.limit as u32 + case.raise as u32);
    if case.bidi {
        granter.set_max_concurrent_bi_streams(new_limit);
    } else {
        granter.set_max_concurrent_uni_streams(new_limit);
    }
    let want = case.limit as u32 + case.raise as u32;
    let got = wait_for(want, Duration::from_secs(10)).await;
    let verdict = if got < want {
        Verdict::Violation(
            format!("C16/open-wait/credit-granted-but-opener-not-woken/{}", if case.bidi { "bi" } else { "uni" }),
            format!("the peer raised its stream limit from {} to {want} while {} openers were blocked in open_*_wait, each in its own task; 10 s later only {got} streams are open", case.limit, case.blocked),
        )
    } else if opened.get() > want {
        Verdict::Violation("C16/open-wait/more-streams-than-credit".into(), format!("{} streams open with a limit of {want}", opened.get()))
    } else {
        Verdict::Pass { labels: vec![format!("raise:{}", case.raise), format!("blocked:{}", case.blocked), if case.bidi { "bidi".into() } else { "uni".into() }, format!("driver:{}", if case.iour { "io-uring" } else { "poll" })], nontrivial: case.raise >= 2 }
    };
    drop(tasks);
    cc.close(VarInt::from_u32(0), b"c16o");
    sc.close(VarInt::from_u32(0), b"c16o");
    drop((opener, granter, cc, sc));
    if matches!(verdict, Verdict::Pass { .. }) {
        let down = async {
            let a = client.shutdown().await;
            let b = server.shutdown().await;
            (a, b)
        };
        let _ = compio_runtime::time::timeout(WATCHDOG, down).await;
    }
    verdict
}

fn run_openers(case: &OpenersCase, pems: &Pems) -> Outcome {
    let mut pb = compio_driver::ProactorBuilder::new();
    pb.driver_type(if case.iour { compio_driver::DriverType::IoUring } else { compio_driver::DriverType::Poll });
    let rt = match compio_runtime::RuntimeBuilder::new().with_proactor(pb).build() {
        Ok(rt) => rt,
        Err(e) => return Outcome::inconclusive(format!("runtime build: {e}")),
    };
    let v = rt.block_on(run_openers_case(case.clone(), pems));
    drop(rt);
    match v {
        Verdict::Pass { labels, nontrivial } => Outcome::pass_owned(nontrivial, labels),
        Verdict::Violation(s, d) => Outcome::violation(s, d),
        Verdict::Inconclusive(w) => Outcome::inconclusive(w),
    }
}

fn main() {
    let mut s = Session::new();
    let dir = s.args.verif_dir.join("fixtures").join("tls");
    let rd = |n: &str| match std::fs::read(dir.join(n)) {
        Ok(b) => b,
        Err(e) => {
            eprintln!("c16: cannot read fixture {}: {e}", dir.join(n).display());
            std::process::exit(2);
        }
    };
    let pems = Pems { ca: rd("ca.cert.pem"), leaf: rd("leaf.cert.pem"), key: rd("leaf.key.pem") };
    let mut p = Part::new(
        "C16",
        "quic",
        "case = {driver; per side transport config {receive window, stream receive window, send window in {tiny 16-1000, small 1-100 KiB, \
         default}, max concurrent uni/bidi streams 1-4}; 0-5 concurrent streams {opener, uni|bidi, payload 0-200 KiB position coded per \
         stream (+ response for bidi), cyclic write ops (write, write_all, write_chunks, write_all_chunks with generated sizes), cyclic read \
         ops (read(cap), read_chunk(max), read_chunks(n), read_to_end), writer/reader pacing (eager, yield, short sleeps), finish or \
         implicit finish by drop}; 0-6 datagrams per side interleaved; probe futures per side set up just before the close \
         (open_*_wait at the stream limit, idle stream with pending read + pending stopped(), write blocked on a never-read stream + \
         pending received_reset(), extra closed()); close point {before | during at a generated fraction of the bytes | after the \
         transfer} x {Connection::close | Endpoint::close} x {client | server}}. Every future is an actor polled by the harness. Oracle: \
         per QUIC stream bytes read == bytes written in order, end of stream exactly after the last byte, no foreign bytes; datagrams \
         received are a duplicate-free subset of those sent, each intact; once closed() resolved on a side every future of that side is \
         complete, with LocallyClosed on the closing side and ApplicationClosed/TimedOut on the peer (a future that completes only on \
         a redundant re-poll or stays pending is the violation); a stalled transfer is judged by the rescue rule. Non-trivial = >= 2 \
         streams whose payload exceeds the receiver's window, or >= 2 different stream-level future kinds pending at the close.",
    );
    p.quick_cases = 96;
    p.thorough_cases = 1500;
    p.threads = 6;
    p.max_shrink_iters = 8;
    p.regressions = case::regressions();
    p.assumptions = vec![
        "loopback UDP delivers CONNECTION_CLOSE; if it does not, the peer side ends by idle timeout (30 s) and the case is still judged",
        "quinn-proto, rustls are trusted; the check targets compio-quic's driver task and waker bookkeeping",
    ];
    let pems2 = Pems { ca: pems.ca.clone(), leaf: pems.leaf.clone(), key: pems.key.clone() };
    s.run_part(p, case::strategy(), move |c| run(c, &pems));
    let mut p = Part::new(
        "C16",
        "openers",
        "case = {driver; stream limit 1-3 on both sides; limit + (2-5) tasks of one side each calling open_uni_wait | open_bi_wait and holding its stream open, so that 2-5 openers are \
         blocked, every one with its own waker; the peer then raises its limit by 2-5 streams with one set_max_concurrent_*_streams call}. Oracle: limit + raise streams are open \
         (checked every 2 ms, judged after 10 s), never more than the limit. Non-trivial = the grant covers >= 2 blocked openers.",
    );
    p.quick_cases = 40;
    p.thorough_cases = 800;
    p.threads = 4;
    p.max_shrink_iters = 6;
    p.replay_repeats = 2;
    p.regressions = vec![("grant-two-to-three-blocked-uni", OpenersCase { iour: true, limit: 1, blocked: 3, raise: 2, bidi: false, by_client: true })];
    if s.args.shard.0 != 0 {
        p.regressions.clear();
    }
    s.run_part(p, openers_strategy(), move |c| run_openers(c, &pems2));
    s.finish();
}
