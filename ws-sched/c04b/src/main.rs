//! C04 part (b) — task and join-handle lifecycle across threads, schedules owned by shuttle
//! (DESIGN.md §3 C04 (b)).
//!
//! The real `compio_executor::Executor` (unmodified, `--cfg loom` on the shuttle-backed stand-in)
//! runs on the *executor thread*; join handles are moved to *handle threads* that poll them to the
//! end, poll once and drop, drop, `cancel().await` or detach; *waker threads* take the waker a task
//! published at its first poll and wake it (by value, by reference, through a clone; optionally once
//! more after the task is long gone).  The executor thread ticks until everything is finished, or
//! drops the executor after a generated number of ticks while all of that is in flight.
//!
//! Oracle (counters kept in std atomics — never a scheduling point):
//! * a future is polled and dropped only on the executor thread, dropped exactly once, never polled
//!   after it returned / panicked / was dropped, and at most one poll starts after its handle's
//!   drop has returned;
//! * every output value and every panic payload that was created is delivered to at most one
//!   handle and dropped exactly once in total (delivered ones by the receiver);
//! * a handle that was pending when its task **completed** (returned or panicked) gets woken by the
//!   executor — resolving only through the harness' end-of-run kick is a lost wake-up;
//! * after the executor is gone every handle poll is `Ready`, wakers are no-ops;
//! * no thread stays blocked (shuttle deadlock), nothing spins for ever, no panic / debug assertion
//!   fires in the code under test.

use std::{
    future::Future,
    pin::Pin,
    sync::{
        atomic::{AtomicBool, AtomicU64, AtomicUsize, Ordering},
        Arc,
    },
    task::{Context, Poll, Wake, Waker},
};

use compio_executor::{Executor, ExecutorConfig, JoinError, JoinHandle};
use sched_common::{explore, mix, Budget, FailKind, Verdict, WakeCounter};
use serde::{Deserialize, Serialize};
use vcore::{
    proptest::{collection::vec, prelude::*},
    Outcome, Part, Session, Tier,
};

const SIG_JOIN_LOST: &str = "C04/join/remote-handle-not-woken-on-completion";
const SIG_UAF_FINISHED: &str = "C04/teardown/shared-freed-under-remote-schedule-of-finished-task";
const SIG_CANCEL_LOST: &str = "C04/cancel/remote-handle-drop-never-takes-effect";
const SIG_CANCEL_IDLE: &str = "C04/cancel/remote-handle-drop-while-executor-idle-never-takes-effect";
const SIG_UAF_LIVE: &str = "C04/teardown/shared-freed-under-remote-schedule-of-live-task";
const SIG_UAF_LIVE_TWO: &str = "C04/teardown/shared-freed-under-two-concurrent-remote-schedules";

// freed blocks stay intact while an execution runs, so that a use-after-free in the executor's
// teardown is observed (ExeWaker below) instead of corrupting the harness
#[global_allocator]
static ALLOC: sched_common::quarantine::Quarantine = sched_common::quarantine::Quarantine;

// ------------------------------------------------------------------------------------------------
// case

#[derive(Debug, Clone, Copy, Serialize, Deserialize, PartialEq)]
pub enum End {
    Return,
    Panic,
}

#[derive(Debug, Clone, Copy, Serialize, Deserialize, PartialEq)]
pub enum RemoteWake {
    None,
    Wake,
    WakeByRef,
    /// clone on the waker thread, wake both
    CloneWakeBoth,
}

#[derive(Debug, Clone, Copy, Serialize, Deserialize, PartialEq)]
pub enum HandleProg {
    /// the handle stays on the executor thread and is polled there after every tick
    Keep,
    /// another thread polls it until it resolves
    RemotePoll,
    RemotePollOnceThenDrop,
    /// dropped on another thread after `yields` yields
    RemoteDrop { yields: u8 },
    /// `handle.cancel().await` on another thread
    RemoteCancel { yields: u8 },
    RemoteDetach,
}

#[derive(Debug, Clone, Serialize, Deserialize)]
pub struct TaskSpec {
    /// self-wakes before anything else
    pub yields: u8,
    /// then wait for a message from the waker thread
    pub park: bool,
    pub end: End,
    pub remote_wake: RemoteWake,
    /// the waker thread keeps one more clone and wakes it at the very end (task finished or executor gone)
    pub stale_wake: bool,
    pub handle: HandleProg,
    /// `RemotePoll`: after a `Pending` the handle thread polls again with the *same* waker this many
    /// times without having been woken (spurious wake-ups), before it really waits
    #[serde(default)]
    pub repolls: u8,
    /// remote drop / cancel / poll-then-drop: the harness holds the executor thread idle (nothing hot,
    /// not ticking) from before the remote call until it has returned; the task's waker thread, if
    /// any, wakes only afterwards.  The task is then still parked when its handle goes away, and the
    /// race of "run between schedule() and set_cancelled()" cannot occur.
    #[serde(default)]
    pub quiet_cancel: bool,
}

impl TaskSpec {
    fn cancels_remotely(&self) -> bool {
        matches!(self.handle, HandleProg::RemoteDrop { .. } | HandleProg::RemoteCancel { .. } | HandleProg::RemotePollOnceThenDrop)
    }
}

#[derive(Debug, Clone, Copy, Serialize, Deserialize, PartialEq)]
pub enum ExecEnd {
    /// tick (sleeping on the executor's waker when idle) until every future is gone
    UntilIdle,
    /// drop the executor after this many ticks, whatever is in flight
    DropAfter { ticks: u8 },
}

#[derive(Debug, Clone, Serialize, Deserialize)]
pub struct XCase {
    pub sched_seed: u64,
    pub schedules: u16,
    pub max_interval: u32,
    pub tasks: Vec<TaskSpec>,
    pub end: ExecEnd,
    /// handles kept on the executor thread are dropped before (true) or after the executor
    pub kept_dropped_first: bool,
    /// harness: before dropping the executor, wait until no remote operation that began before its
    /// task finished is still running (set by the generator while the corresponding finding is open)
    #[serde(default)]
    pub teardown_waits: bool,
}

fn task_strategy() -> impl Strategy<Value = TaskSpec> + Clone {
    (0u8..=2, any::<bool>(), 0u8..4, 0u8..6, any::<bool>(), 0u8..12, 0u8..3, 0u8..4, any::<bool>()).prop_map(|(yields, park, end, rw, stale_wake, h, y, repolls, quiet_cancel)| {
        let end = if end == 3 { End::Panic } else { End::Return };
        let mut remote_wake = match rw {
            0 | 1 => RemoteWake::None,
            2 | 3 => RemoteWake::Wake,
            4 => RemoteWake::WakeByRef,
            _ => RemoteWake::CloneWakeBoth,
        };
        if park && remote_wake == RemoteWake::None {
            // a parked task needs somebody to wake it
            remote_wake = RemoteWake::Wake;
        }
        let handle = match h {
            0 | 1 => HandleProg::Keep,
            2..=5 => HandleProg::RemotePoll,
            6 => HandleProg::RemotePollOnceThenDrop,
            7 | 8 => HandleProg::RemoteDrop { yields: y },
            9 | 10 => HandleProg::RemoteCancel { yields: y },
            _ => HandleProg::RemoteDetach,
        };
        // two of four remote waiters re-poll spuriously (1 or 2 times)
        let repolls = if handle == HandleProg::RemotePoll { repolls.saturating_sub(1) } else { 0 };
        TaskSpec { yields, park, end, remote_wake, stale_wake, handle, repolls, quiet_cancel }
    })
}

#[derive(Clone, Copy)]
struct Known {
    join_lost: bool,
    cancel_lost: bool,
    uaf_finished: bool,
}

fn case_strategy(tier: Tier, known: Known) -> impl Strategy<Value = XCase> + Clone {
    let allow_remote_poll_race = !known.join_lost;
    let schedules: u16 = if tier == Tier::Thorough { 200 } else { 40 };
    (any::<u64>(), 0usize..3, vec(task_strategy(), 1..=3), 0u8..8, any::<bool>()).prop_map(move |(sched_seed, mi, mut tasks, e, kept_dropped_first)| {
        let end = if e < 4 { ExecEnd::UntilIdle } else { ExecEnd::DropAfter { ticks: e - 4 } };
        if !allow_remote_poll_race {
            // known finding: a remote poll racing with completion can miss its wake-up — such handles
            // are excluded by construction (they would need a poll while the task is still running)
            for t in tasks.iter_mut() {
                if matches!(t.handle, HandleProg::RemotePoll) {
                    t.handle = HandleProg::RemotePollOnceThenDrop;
                }
            }
        }
        if known.cancel_lost {
            // known finding: a parked task whose handle is dropped / cancelled remotely can get stuck -
            // excluded by construction: such tasks do not park (they still yield)
            for t in tasks.iter_mut() {
                // (kept: the sub-class in which the executor thread is held idle during the remote call -
                // there the race cannot happen and the cancel must take effect)
                if t.park && t.cancels_remotely() && !t.quiet_cancel {
                    t.park = false;
                }
            }
        }
        XCase { sched_seed, schedules, max_interval: [1, 2, 61][mi], tasks, end, kept_dropped_first, teardown_waits: known.uaf_finished }
    })
}

// ------------------------------------------------------------------------------------------------
// instrumentation

fn tid() -> usize {
    usize::from(shuttle::thread::current().id())
}

struct TaskStats {
    polls: AtomicU64,
    /// the future returned Ready or panicked
    finished: AtomicBool,
    fut_drops: AtomicU64,
    out_created: AtomicU64,
    out_drops: AtomicU64,
    out_delivered: AtomicU64,
    payload_created: AtomicU64,
    payload_drops: AtomicU64,
    payload_delivered: AtomicU64,
    handle_dropped: AtomicBool,
    /// the remote thread is through with the handle (dropped, cancelled, or resolved)
    handle_op_done: AtomicBool,
    polls_after_handle_drop: AtomicU64,
    msg: AtomicU64,
}

struct XStats {
    t: Vec<TaskStats>,
    exe_tid: AtomicUsize,
    exe_gone: AtomicBool,
    verdict: Arc<Verdict>,
    /// a handle / waker operation started while the task had been polled and was not finished
    overlaps: AtomicU64,
    /// handle pending at teardown that nobody woke (observation, not asserted)
    unwoken_at_teardown: AtomicU64,
    spurious_repolls: AtomicU64,
    /// remote cancels that ran while the executor thread was held idle and the task was parked
    quiet_cancels_of_parked: AtomicU64,
    gate: Gate,
    /// per task: remote operations that may be inside `Remote::schedule` right now
    busy: Vec<AtomicUsize>,
    /// per task: a handle thread that cancels and a waker thread both exist
    two_remote_schedulers: Vec<bool>,
    /// remote threads that have finished their work (a thread waiting for a handle to resolve has not)
    remote_done: AtomicUsize,
    /// which task the remote thread (by shuttle thread id) is currently operating on
    cur_op: std::sync::Mutex<std::collections::HashMap<usize, usize>>,
    /// `drop(executor)` has returned: `Shared` is freed
    exe_freed: AtomicBool,
    /// per task: its future was already gone when `drop(executor)` began
    gone_at_teardown: std::sync::Mutex<Vec<bool>>,
}

impl XStats {
    fn note(&self, sig: &str, detail: String) {
        self.verdict.note(sig, detail);
    }

    /// a remote thread announces the task its next handle / waker operation concerns
    fn op(&self, i: usize) {
        self.cur_op.lock().unwrap().insert(tid(), i);
        if self.mid_flight(i) {
            self.overlaps.fetch_add(1, Ordering::SeqCst);
        }
    }

    /// run an operation that may call `Remote::schedule` on task `i`
    fn scheduling<R>(&self, i: usize, f: impl FnOnce() -> R) -> R {
        self.busy[i].fetch_add(1, Ordering::SeqCst);
        let r = f();
        self.busy[i].fetch_sub(1, Ordering::SeqCst);
        r
    }

    fn mid_flight(&self, i: usize) -> bool {
        let t = &self.t[i];
        t.polls.load(Ordering::SeqCst) > 0 && !t.finished.load(Ordering::SeqCst) && t.fut_drops.load(Ordering::SeqCst) == 0
    }
}

/// Harness gate for `quiet_cancel`: (open?, gated remote calls that have returned)
struct Gate {
    m: shuttle::sync::Mutex<(bool, usize)>,
    cv: shuttle::sync::Condvar,
}

impl Gate {
    fn wait_open(&self) {
        let mut g = self.m.lock().unwrap();
        while !g.0 {
            g = self.cv.wait(g).unwrap();
        }
    }

    fn open(&self) {
        self.m.lock().unwrap().0 = true;
        self.cv.notify_all();
    }

    fn done(&self) {
        self.m.lock().unwrap().1 += 1;
        self.cv.notify_all();
    }

    fn wait_done(&self, n: usize) {
        let mut g = self.m.lock().unwrap();
        while g.1 < n {
            g = self.cv.wait(g).unwrap();
        }
    }

    /// block until `f()` holds (re-evaluated whenever the gate is signalled)
    fn wait_until(&self, f: impl Fn() -> bool) {
        let mut g = self.m.lock().unwrap();
        while !f() {
            g = self.cv.wait(g).unwrap();
        }
    }

    fn signal(&self) {
        let g = self.m.lock().unwrap();
        drop(g);
        self.cv.notify_all();
    }
}

struct Out {
    i: usize,
    st: Arc<XStats>,
}

impl Drop for Out {
    fn drop(&mut self) {
        self.st.t[self.i].out_drops.fetch_add(1, Ordering::SeqCst);
    }
}

struct Payload {
    i: usize,
    st: Arc<XStats>,
}

impl Drop for Payload {
    fn drop(&mut self) {
        self.st.t[self.i].payload_drops.fetch_add(1, Ordering::SeqCst);
    }
}

/// where a task publishes its waker for the waker thread
struct Slot {
    m: shuttle::sync::Mutex<Option<Waker>>,
    cv: shuttle::sync::Condvar,
}

struct TaskFut {
    i: usize,
    yields_left: u8,
    park: bool,
    end: End,
    st: Arc<XStats>,
    slot: Arc<Slot>,
    published: bool,
}

impl Future for TaskFut {
    type Output = Out;

    fn poll(mut self: Pin<&mut Self>, cx: &mut Context<'_>) -> Poll<Out> {
        let st = self.st.clone();
        let t = &st.t[self.i];
        if tid() != st.exe_tid.load(Ordering::SeqCst) {
            st.note("C04/future/polled-off-home-thread", format!("task {} polled on thread {}", self.i, tid()));
        }
        if t.finished.load(Ordering::SeqCst) || t.fut_drops.load(Ordering::SeqCst) > 0 {
            st.note("C04/future/polled-after-finished", format!("task {} polled although it had already finished or been dropped", self.i));
        }
        if t.handle_dropped.load(Ordering::SeqCst) && t.polls_after_handle_drop.fetch_add(1, Ordering::SeqCst) >= 1 {
            st.note("C04/future/polled-after-handle-drop", format!("task {}: a second poll started after the drop of its JoinHandle had returned", self.i));
        }
        t.polls.fetch_add(1, Ordering::SeqCst);
        if !self.published {
            self.published = true;
            *self.slot.m.lock().unwrap() = Some(cx.waker().clone());
            self.slot.cv.notify_all();
        }
        if self.yields_left > 0 {
            self.yields_left -= 1;
            cx.waker().wake_by_ref();
            return Poll::Pending;
        }
        if self.park && t.msg.load(Ordering::SeqCst) == 0 {
            return Poll::Pending;
        }
        t.finished.store(true, Ordering::SeqCst);
        match self.end {
            End::Return => {
                t.out_created.fetch_add(1, Ordering::SeqCst);
                Poll::Ready(Out { i: self.i, st: st.clone() })
            }
            End::Panic => {
                t.payload_created.fetch_add(1, Ordering::SeqCst);
                std::panic::panic_any(Payload { i: self.i, st: st.clone() })
            }
        }
    }
}

impl Drop for TaskFut {
    fn drop(&mut self) {
        let t = &self.st.t[self.i];
        if t.fut_drops.fetch_add(1, Ordering::SeqCst) >= 1 {
            self.st.note("C04/future/dropped-twice", format!("task {}", self.i));
        }
        if tid() != self.st.exe_tid.load(Ordering::SeqCst) {
            self.st.note("C04/future/dropped-off-home-thread", format!("task {} dropped on thread {}", self.i, tid()));
        }
        // a waker thread still waiting for this task's first poll can stop waiting
        if !std::thread::panicking() {
            let g = self.slot.m.lock().unwrap();
            drop(g);
            self.slot.cv.notify_all();
        }
    }
}

/// The waker handed to the executor (`ExecutorConfig::waker`, in compio the driver's waker).  It is
/// only reachable through the executor's `Shared` allocation, so an invocation after
/// `drop(executor)` has returned means `Shared` was used after it was freed.
struct ExeWaker {
    wc: Arc<WakeCounter>,
    st: Arc<XStats>,
}

impl Wake for ExeWaker {
    fn wake(self: Arc<Self>) {
        self.wake_by_ref()
    }

    fn wake_by_ref(self: &Arc<Self>) {
        let st = &self.st;
        if st.exe_freed.load(Ordering::SeqCst) {
            let me = tid();
            let task = st.cur_op.lock().unwrap().get(&me).copied();
            let finished = task.is_some_and(|i| st.gone_at_teardown.lock().unwrap().get(i).copied().unwrap_or(false));
            // two threads that can be inside Remote::schedule of that task at once (handle drop / cancel + waker thread)?
            let two = task.is_some_and(|i| st.two_remote_schedulers.get(i).copied().unwrap_or(false));
            st.note(
                if finished { SIG_UAF_FINISHED } else if two { SIG_UAF_LIVE_TWO } else { SIG_UAF_LIVE },
                format!(
                    "thread {me} (operating on task {task:?}) invoked the executor's waker through the executor's shared state after drop(executor) had returned and freed it: Remote::schedule was still in progress; the task's future was {} when the teardown began",
                    if finished { "already gone (completed / cancelled and removed from the queue, so clear() had nothing to wait for)" } else { "still in the queue" }
                ),
            );
            return;
        }
        self.wc.clone().wake();
    }
}

/// waker of a handle thread: counts *real* wake-ups separately from the harness' end-of-run kick
struct JoinWaker {
    wc: Arc<WakeCounter>,
    real: AtomicU64,
}

impl Wake for JoinWaker {
    fn wake(self: Arc<Self>) {
        self.wake_by_ref()
    }

    fn wake_by_ref(self: &Arc<Self>) {
        self.real.fetch_add(1, Ordering::SeqCst);
        self.wc.clone().wake();
    }
}

fn account(st: &XStats, i: usize, r: Result<Out, JoinError>) -> &'static str {
    match r {
        Ok(out) => {
            if out.i != i {
                st.note("C04/join/wrong-result", format!("handle of task {i} received the output of task {}", out.i));
            }
            if st.t[i].out_delivered.fetch_add(1, Ordering::SeqCst) >= 1 {
                st.note("C04/join/result-delivered-twice", format!("task {i}"));
            }
            "ok"
        }
        Err(JoinError::Panicked(p)) => {
            match p.downcast::<Payload>() {
                Ok(pl) => {
                    if pl.i != i {
                        st.note("C04/join/wrong-result", format!("handle of task {i} received the panic of task {}", pl.i));
                    }
                    if st.t[i].payload_delivered.fetch_add(1, Ordering::SeqCst) >= 1 {
                        st.note("C04/join/result-delivered-twice", format!("task {i} (panic)"));
                    }
                }
                Err(other) => {
                    let msg = other.downcast_ref::<&str>().map(|s| s.to_string()).or_else(|| other.downcast_ref::<String>().cloned()).unwrap_or_default();
                    st.note("C04/join/foreign-panic", format!("task {i} reported a panic that is not the scripted one: {msg}"));
                }
            }
            "panicked"
        }
        Err(JoinError::Cancelled) => "cancelled",
    }
}

/// Drive a join handle (or `cancel()` future) to the end on a handle thread.
fn drive<F: Future>(st: &Arc<XStats>, i: usize, fut: F, completion_must_wake: bool, mut spurious: u8) -> (F::Output, bool) {
    let wc = WakeCounter::new();
    let jw = Arc::new(JoinWaker { wc: wc.clone(), real: AtomicU64::new(0) });
    HANDLE_KICKS.with(|k| k.borrow_mut().push(wc.clone()));
    let waker = Waker::from(jw.clone());
    let mut cx = Context::from_waker(&waker);
    let mut fut = std::pin::pin!(fut);
    // the poll about to happen was triggered by the harness' end-of-run kick alone: the handle had
    // returned Pending, really waited, and no real wake-up arrived since before that Pending poll
    let mut kicked_only = false;
    loop {
        let before = wc.count();
        let real_before = jw.real.load(Ordering::SeqCst);
        let gone_before = st.exe_gone.load(Ordering::SeqCst);
        match fut.as_mut().poll(&mut cx) {
            Poll::Ready(r) => {
                // (a Ready found by a spurious re-poll proves nothing: the executor's wake may still be on its way)
                if kicked_only && completion_must_wake {
                    return (r, true);
                }
                if kicked_only {
                    st.unwoken_at_teardown.fetch_add(1, Ordering::SeqCst);
                }
                return (r, false);
            }
            Poll::Pending => {
                if gone_before {
                    st.note("C04/join/pending-after-executor-dropped", format!("handle of task {i} is still pending although the executor had been dropped before the poll started"));
                }
                if spurious > 0 {
                    // a spurious wake-up: poll again with the same waker without having been woken
                    spurious -= 1;
                    st.spurious_repolls.fetch_add(1, Ordering::SeqCst);
                    shuttle::thread::yield_now();
                    kicked_only = false;
                    continue;
                }
                wc.wait_beyond(before);
                kicked_only = jw.real.load(Ordering::SeqCst) == real_before;
            }
        }
    }
}

thread_local! {
    // per OS thread = per execution (all shuttle threads of one execution share it)
    static HANDLE_KICKS: std::cell::RefCell<Vec<Arc<WakeCounter>>> = const { std::cell::RefCell::new(Vec::new()) };
}

// ------------------------------------------------------------------------------------------------
// one execution

/// A remote thread; when its work is done it says so and nudges the executor thread's sleep (a
/// harness signal that bypasses the executor).  The closure returns true if it already did that.
fn spawn_remote(st: &Arc<XStats>, ew: &Arc<WakeCounter>, f: impl FnOnce() -> bool + Send + 'static) -> shuttle::thread::JoinHandle<()> {
    let (st, ew) = (st.clone(), ew.clone());
    shuttle::thread::spawn(move || {
        if !f() {
            st.remote_done.fetch_add(1, Ordering::SeqCst);
            ew.wake();
        }
    })
}

fn execution(case: &XCase, verdict: &Arc<Verdict>, cov: &Arc<Coverage>, wait_for_ops_on_finished_tasks: bool) {
    sched_common::quarantine::begin();
    HANDLE_KICKS.with(|k| k.borrow_mut().clear());
    let n = case.tasks.len();
    let st = Arc::new(XStats {
        t: (0..n)
            .map(|_| TaskStats {
                polls: AtomicU64::new(0),
                finished: AtomicBool::new(false),
                fut_drops: AtomicU64::new(0),
                out_created: AtomicU64::new(0),
                out_drops: AtomicU64::new(0),
                out_delivered: AtomicU64::new(0),
                payload_created: AtomicU64::new(0),
                payload_drops: AtomicU64::new(0),
                payload_delivered: AtomicU64::new(0),
                handle_dropped: AtomicBool::new(false),
                handle_op_done: AtomicBool::new(false),
                polls_after_handle_drop: AtomicU64::new(0),
                msg: AtomicU64::new(0),
            })
            .collect(),
        exe_tid: AtomicUsize::new(tid()),
        exe_gone: AtomicBool::new(false),
        verdict: verdict.clone(),
        overlaps: AtomicU64::new(0),
        unwoken_at_teardown: AtomicU64::new(0),
        spurious_repolls: AtomicU64::new(0),
        quiet_cancels_of_parked: AtomicU64::new(0),
        gate: Gate { m: shuttle::sync::Mutex::new((false, 0)), cv: shuttle::sync::Condvar::new() },
        busy: (0..n).map(|_| AtomicUsize::new(0)).collect(),
        two_remote_schedulers: case.tasks.iter().map(|t| t.remote_wake != RemoteWake::None && matches!(t.handle, HandleProg::RemoteDrop { .. } | HandleProg::RemoteCancel { .. } | HandleProg::RemotePollOnceThenDrop)).collect(),
        remote_done: AtomicUsize::new(0),
        cur_op: Default::default(),
        exe_freed: AtomicBool::new(false),
        gone_at_teardown: Default::default(),
    });
    let ew = WakeCounter::new();
    // kept alive by this thread until the end of the execution, whatever the executor does with its copy
    let exe_waker = Arc::new(ExeWaker { wc: ew.clone(), st: st.clone() });
    let exe = Executor::with_config(ExecutorConfig { sync_queue_size: 64, local_queue_size: 8, max_interval: case.max_interval, waker: Some(Waker::from(exe_waker.clone())) });
    let slots: Vec<Arc<Slot>> = (0..n).map(|_| Arc::new(Slot { m: shuttle::sync::Mutex::new(None), cv: shuttle::sync::Condvar::new() })).collect();
    let mut kept: Vec<(usize, Option<JoinHandle<Out>>)> = vec![];
    let mut threads = vec![];
    for (i, spec) in case.tasks.iter().enumerate() {
        let h = exe.spawn(TaskFut { i, yields_left: spec.yields, park: spec.park, end: spec.end, st: st.clone(), slot: slots[i].clone(), published: false });
        let stc = st.clone();
        let must_wake = case.end == ExecEnd::UntilIdle;
        let repolls = spec.repolls;
        let quiet = spec.quiet_cancel && spec.cancels_remotely();
        // prologue / epilogue of a remote thread that lets go of a handle
        let enter = move |stc: &XStats| {
            if quiet {
                stc.gate.wait_open();
                if stc.mid_flight(i) {
                    stc.quiet_cancels_of_parked.fetch_add(1, Ordering::SeqCst);
                }
            }
        };
        let leave = move |stc: &XStats| {
            stc.t[i].handle_op_done.store(true, Ordering::SeqCst);
            if quiet { stc.gate.done() } else { stc.gate.signal() }
        };
        match spec.handle {
            HandleProg::Keep => kept.push((i, Some(h))),
            HandleProg::RemotePoll => threads.push(spawn_remote(&st, &ew, move || {
                stc.op(i);
                let (r, lost) = drive(&stc, i, h, true, repolls);
                let completed = matches!(r, Ok(_) | Err(JoinError::Panicked(_)));
                let what = account(&stc, i, r);
                if lost && completed {
                    stc.note(SIG_JOIN_LOST, format!("the JoinHandle of task {i} was pending on another thread, the task {what}, and the handle was never woken (it resolved only when the harness kicked it at the end of the run)"));
                } else if lost {
                    stc.unwoken_at_teardown.fetch_add(1, Ordering::SeqCst);
                }
                if what == "cancelled" && must_wake {
                    stc.note("C04/join/cancelled-without-cancel", format!("task {i} was never cancelled and the executor ran to idle, yet its handle reports Cancelled"));
                }
                false
            })),
            HandleProg::RemotePollOnceThenDrop => threads.push(spawn_remote(&st, &ew, move || {
                enter(&stc);
                stc.op(i);
                let wc = WakeCounter::new();
                let waker = wc.waker();
                let mut cx = Context::from_waker(&waker);
                let mut h = h;
                match Pin::new(&mut h).poll(&mut cx) {
                    Poll::Ready(r) => {
                        account(&stc, i, r);
                    }
                    Poll::Pending => {
                        stc.op(i);
                        stc.scheduling(i, || drop(h));
                        stc.t[i].handle_dropped.store(true, Ordering::SeqCst);
                    }
                }
                leave(&stc);
                false
            })),
            HandleProg::RemoteDrop { yields } => threads.push(spawn_remote(&st, &ew, move || {
                for _ in 0..yields {
                    shuttle::thread::yield_now();
                }
                enter(&stc);
                stc.op(i);
                stc.scheduling(i, || drop(h));
                stc.t[i].handle_dropped.store(true, Ordering::SeqCst);
                leave(&stc);
                false
            })),
            HandleProg::RemoteCancel { yields } => threads.push(spawn_remote(&st, &ew, move || {
                for _ in 0..yields {
                    shuttle::thread::yield_now();
                }
                enter(&stc);
                stc.op(i);
                let (r, _) = stc.scheduling(i, || drive(&stc, i, h.cancel(), false, 0));
                stc.t[i].handle_dropped.store(true, Ordering::SeqCst);
                if let Some(out) = r {
                    account(&stc, i, Ok(out));
                }
                leave(&stc);
                false
            })),
            HandleProg::RemoteDetach => threads.push(spawn_remote(&st, &ew, move || {
                stc.op(i);
                h.detach();
                false
            })),
        }
        if spec.remote_wake != RemoteWake::None {
            let (stc, slot, kind, stale, ewc) = (st.clone(), slots[i].clone(), spec.remote_wake, spec.stale_wake, ew.clone());
            threads.push(spawn_remote(&st, &ew, move || {
                // wait for the task's first poll (or for the executor to be gone)
                let w = {
                    let mut g = slot.m.lock().unwrap();
                    while g.is_none() && !stc.exe_gone.load(Ordering::SeqCst) && stc.t[i].fut_drops.load(Ordering::SeqCst) == 0 {
                        g = slot.cv.wait(g).unwrap();
                    }
                    g.take()
                };
                let Some(w) = w else { return false };
                let keep = stale.then(|| w.clone());
                if quiet {
                    // the handle goes away while the task is still parked; the wake comes afterwards
                    stc.gate.wait_until(|| stc.t[i].handle_op_done.load(Ordering::SeqCst) || stc.exe_gone.load(Ordering::SeqCst));
                }
                stc.op(i);
                stc.t[i].msg.fetch_add(1, Ordering::SeqCst);
                stc.scheduling(i, || match kind {
                    RemoteWake::Wake => w.wake(),
                    RemoteWake::WakeByRef => {
                        w.wake_by_ref();
                        drop(w);
                    }
                    RemoteWake::CloneWakeBoth => {
                        let c = w.clone();
                        w.wake();
                        c.wake();
                    }
                    RemoteWake::None => {}
                });
                let mut counted = false;
                if let Some(k) = keep {
                    // stale use: wait until the run is over, then wake a waker of a finished task / dead executor
                    stc.remote_done.fetch_add(1, Ordering::SeqCst);
                    ewc.clone().wake();
                    counted = true;
                    let mut g = slot.m.lock().unwrap();
                    while !stc.exe_gone.load(Ordering::SeqCst) {
                        g = slot.cv.wait(g).unwrap();
                    }
                    drop(g);
                    let polls = stc.t[i].polls.load(Ordering::SeqCst);
                    k.wake_by_ref();
                    let c = k.clone();
                    drop(k);
                    c.wake();
                    if stc.t[i].polls.load(Ordering::SeqCst) != polls {
                        stc.note("C04/waker/stale-waker-polled-task", format!("task {i} was polled through a waker used after the executor was dropped"));
                    }
                }
                counted
            }));
        }
    }

    if threads.is_empty() {
        // a case whose handles all stay local still needs a second thread for the PCT scheduler
        threads.push(spawn_remote(&st, &ew, || {
            shuttle::thread::yield_now();
            false
        }));
    }

    // ---------------- the executor thread
    let ewaker = ew.waker();
    let mut ecx = Context::from_waker(&ewaker);
    let mut ticks = 0u32;
    let gated = case.tasks.iter().filter(|t| t.quiet_cancel && t.cancels_remotely()).count();
    let mut gate_opened = false;
    loop {
        let before = ew.count();
        if let ExecEnd::DropAfter { ticks: n } = case.end {
            if ticks >= n as u32 {
                break;
            }
        }
        exe.tick();
        ticks += 1;
        for (i, h) in kept.iter_mut() {
            if let Some(jh) = h {
                if let Poll::Ready(r) = Pin::new(jh).poll(&mut ecx) {
                    account(&st, *i, r);
                    *h = None;
                }
            }
        }
        if !gate_opened && !exe.has_task() {
            // The executor is idle (nothing hot).  Hold it here - not ticking - while the `quiet_cancel`
            // remote calls run, and resume only after all of them have returned.
            gate_opened = true;
            st.gate.open();
            st.gate.wait_done(gated);
            continue;
        }
        if case.end == ExecEnd::UntilIdle {
            let all_gone = st.t.iter().all(|t| t.fut_drops.load(Ordering::SeqCst) >= 1);
            if all_gone && kept.iter().all(|(_, h)| h.is_none()) {
                break;
            }
            if !exe.has_task() {
                if st.remote_done.load(Ordering::SeqCst) >= threads.len() && ew.count() == before {
                    // Nothing is runnable, every other thread has finished its work, yet a future is still
                    // alive (or a kept handle unresolved): the executor thread would sleep for ever.
                    for (i, t) in st.t.iter().enumerate() {
                        if t.fut_drops.load(Ordering::SeqCst) == 0 {
                            if t.handle_dropped.load(Ordering::SeqCst) {
                                // with the executor held idle during the remote call nothing can run the task
                                // between schedule() and set_cancelled(): a different defect than the listed race
                                let sig = if case.tasks[i].quiet_cancel && case.tasks[i].cancels_remotely() { SIG_CANCEL_IDLE } else { SIG_CANCEL_LOST };
                                st.note(sig, format!("task {i}: its JoinHandle was dropped / cancelled on another thread, but the executor never runs the task again, so its future (polled {} times, parked) is neither polled nor dropped until the executor itself is dropped", t.polls.load(Ordering::SeqCst)));
                            } else {
                                st.note("C04/executor/idle-with-unfinished-task", format!("task {i} (polled {} times, message sent: {}) is neither runnable nor finished and nobody is left to wake it", t.polls.load(Ordering::SeqCst), t.msg.load(Ordering::SeqCst)));
                            }
                        }
                    }
                    if !verdict.is_set() {
                        st.note("C04/join/kept-handle-never-resolves", "all futures are gone but a handle kept on the executor thread is still pending".into());
                    }
                    break;
                }
                ew.wait_beyond(before);
            }
        }
        if ticks > 3000 {
            st.note("C04/executor/never-idle", "3000 ticks without finishing".into());
            break;
        }
        if verdict.is_set() {
            break;
        }
    }
    if !gate_opened {
        // the loop ended before the executor was ever idle: the gated calls now simply race with the rest
        st.gate.open();
    }
    for (i, _) in kept.iter() {
        if st.mid_flight(*i) {
            st.overlaps.fetch_add(1, Ordering::SeqCst);
        }
    }
    if case.kept_dropped_first {
        for (i, h) in kept.drain(..) {
            if h.is_some() {
                drop(h);
                st.t[i].handle_dropped.store(true, Ordering::SeqCst);
            }
        }
    }
    if st.t.iter().enumerate().any(|(i, _)| st.mid_flight(i)) {
        cov.exec_dropped_mid_flight.fetch_add(1, Ordering::Relaxed);
    }
    if wait_for_ops_on_finished_tasks {
        // Known finding excluded by construction: do not tear the executor down while a remote
        // operation that began before its task finished may still be inside Remote::schedule.
        let mut spins = 0;
        while st.t.iter().zip(st.busy.iter()).any(|(t, b)| t.fut_drops.load(Ordering::SeqCst) >= 1 && b.load(Ordering::SeqCst) > 0) && spins < 10_000 {
            shuttle::thread::yield_now();
            spins += 1;
        }
    }
    *st.gone_at_teardown.lock().unwrap() = st.t.iter().map(|t| t.fut_drops.load(Ordering::SeqCst) >= 1).collect();
    drop(exe);
    st.exe_freed.store(true, Ordering::SeqCst);
    for (i, t) in st.t.iter().enumerate() {
        if t.fut_drops.load(Ordering::SeqCst) != 1 {
            st.note("C04/future/drop-count-after-executor-drop", format!("task {i}: future dropped {} times once the executor is gone", t.fut_drops.load(Ordering::SeqCst)));
        }
    }
    // handles that outlive the executor: resolve at once (Ready) and wake nothing
    for (i, h) in kept.drain(..) {
        if let Some(mut jh) = h {
            match Pin::new(&mut jh).poll(&mut ecx) {
                Poll::Ready(r) => {
                    account(&st, i, r);
                }
                Poll::Pending => st.note("C04/join/pending-after-executor-dropped", format!("kept handle of task {i}")),
            }
        }
    }
    // end of run: tell everybody, kick pending handle threads (redundant if nothing was lost)
    st.exe_gone.store(true, Ordering::SeqCst);
    st.gate.signal();
    for s in &slots {
        let g = s.m.lock().unwrap();
        drop(g);
        s.cv.notify_all();
    }
    let kicks: Vec<Arc<WakeCounter>> = HANDLE_KICKS.with(|k| k.borrow().clone());
    for k in kicks {
        k.wake();
    }
    for t in threads {
        t.join().unwrap();
    }
    // a handle thread may have registered its kick after the first round
    let kicks: Vec<Arc<WakeCounter>> = HANDLE_KICKS.with(|k| k.borrow().clone());
    drop(kicks);
    drop(slots);
    for (i, t) in st.t.iter().enumerate() {
        let (oc, od, odl) = (t.out_created.load(Ordering::SeqCst), t.out_drops.load(Ordering::SeqCst), t.out_delivered.load(Ordering::SeqCst));
        let (pc, pd) = (t.payload_created.load(Ordering::SeqCst), t.payload_drops.load(Ordering::SeqCst));
        if oc != od || odl > oc {
            st.note("C04/output/drop-count", format!("task {i}: outputs created {oc}, dropped {od}, delivered {odl}"));
        }
        if pc != pd {
            st.note("C04/output/panic-payload-drop-count", format!("task {i}: panic payloads created {pc}, dropped {pd}"));
        }
        if case.end == ExecEnd::UntilIdle && case.tasks[i].handle == HandleProg::RemoteDetach && !t.finished.load(Ordering::SeqCst) {
            st.note("C04/detach/not-run-to-completion", format!("task {i} was detached and the executor ran to idle, but the task never finished"));
        }
    }
    cov.overlaps.fetch_add(st.overlaps.load(Ordering::SeqCst), Ordering::Relaxed);
    cov.unwoken_at_teardown.fetch_add(st.unwoken_at_teardown.load(Ordering::SeqCst), Ordering::Relaxed);
    cov.spurious_repolls.fetch_add(st.spurious_repolls.load(Ordering::SeqCst), Ordering::Relaxed);
    cov.quiet_cancels_of_parked.fetch_add(st.quiet_cancels_of_parked.load(Ordering::SeqCst), Ordering::Relaxed);
    if verdict.is_set() {
        panic!("oracle verdict recorded");
    }
    drop(exe_waker);
    drop(st);
    let double_frees = sched_common::quarantine::release();
    if double_frees > 0 {
        verdict.note("C04/memory/double-free", format!("{double_frees} heap block(s) were freed twice during the execution"));
        panic!("oracle verdict recorded");
    }
}

#[derive(Default)]
struct Coverage {
    overlaps: AtomicU64,
    exec_dropped_mid_flight: AtomicU64,
    unwoken_at_teardown: AtomicU64,
    spurious_repolls: AtomicU64,
    quiet_cancels_of_parked: AtomicU64,
}

// ------------------------------------------------------------------------------------------------
// interpreter

fn run_case(case: &XCase) -> Outcome {
    let wait_for_ops_on_finished_tasks = case.teardown_waits;
    if case.tasks.is_empty() || case.max_interval == 0 {
        return Outcome::inconclusive("malformed case");
    }
    let verdict = Verdict::new();
    let cov = Arc::new(Coverage::default());
    let budget = Budget { random: case.schedules as usize, pct: (case.schedules / 2) as usize, pct_depth: 3, max_steps: 40_000 };
    let (c, v, cv) = (Arc::new(case.clone()), verdict.clone(), cov.clone());
    let ex = explore(mix(case.sched_seed), budget, move || execution(&c, &v, &cv, wait_for_ops_on_finished_tasks));
    if let Some(f) = ex.failure {
        if let Some((sig, detail)) = verdict.take() {
            return Outcome::violation(sig, format!("{detail}; {}", f.describe()));
        }
        return match f.kind {
            FailKind::Deadlock => Outcome::violation("C04/deadlock", f.describe()),
            FailKind::StepBound => Outcome::violation("C04/livelock/step-bound", f.describe().chars().take(700).collect::<String>()),
            FailKind::Panic => Outcome::violation(format!("panic@{}:{}", f.file.rsplit_once(':').map(|x| x.0).unwrap_or(&f.file), sched_common::strip_digits(&f.message)), f.describe()),
        };
    }
    let mut labels = vec![format!("max_interval:{}", case.max_interval), format!("tasks:{}", case.tasks.len()), format!("end:{}", if case.end == ExecEnd::UntilIdle { "until-idle" } else { "executor-dropped-early" })];
    for t in &case.tasks {
        labels.push(format!("handle:{}", match t.handle {
            HandleProg::Keep => "kept-local",
            HandleProg::RemotePoll => "remote-poll",
            HandleProg::RemotePollOnceThenDrop => "remote-poll-then-drop",
            HandleProg::RemoteDrop { .. } => "remote-drop",
            HandleProg::RemoteCancel { .. } => "remote-cancel",
            HandleProg::RemoteDetach => "remote-detach",
        }));
        if t.end == End::Panic {
            labels.push("task-panics".into());
        }
        if t.remote_wake != RemoteWake::None {
            labels.push("remote-waker".into());
        }
        if t.stale_wake && t.remote_wake != RemoteWake::None {
            labels.push("stale-waker-use".into());
        }
    }
    labels.sort();
    labels.dedup();
    if cov.overlaps.load(Ordering::Relaxed) > 0 {
        labels.push("op-while-task-mid-flight".into());
    }
    if cov.exec_dropped_mid_flight.load(Ordering::Relaxed) > 0 {
        labels.push("executor-dropped-while-task-mid-flight".into());
    }
    if cov.spurious_repolls.load(Ordering::Relaxed) > 0 {
        labels.push("remote-handle-repolled-with-same-waker".into());
    }
    if cov.quiet_cancels_of_parked.load(Ordering::Relaxed) > 0 {
        labels.push("remote-cancel-of-parked-task-while-executor-idle".into());
    }
    if cov.unwoken_at_teardown.load(Ordering::Relaxed) > 0 {
        labels.push("observation:remote-handle-not-woken-by-executor-teardown".into());
    }
    SCHEDULES.fetch_add(ex.schedules, Ordering::Relaxed);
    let nontrivial = cov.overlaps.load(Ordering::Relaxed) + cov.exec_dropped_mid_flight.load(Ordering::Relaxed) > 0;
    Outcome::pass_owned(nontrivial, labels)
}

static SCHEDULES: AtomicU64 = AtomicU64::new(0);

fn ts(yields: u8, park: bool, end: End, remote_wake: RemoteWake, stale_wake: bool, handle: HandleProg) -> TaskSpec {
    TaskSpec { yields, park, end, remote_wake, stale_wake, handle, repolls: 0, quiet_cancel: false }
}

fn main() {
    let mut s = Session::new();
    sched_common::init();
    let known_sigs = s.known_signatures("C04");
    let known = Known { join_lost: known_sigs.contains(SIG_JOIN_LOST), cancel_lost: known_sigs.contains(SIG_CANCEL_LOST), uaf_finished: known_sigs.contains(SIG_UAF_FINISHED) };
    let allow_remote_poll_race = !known.join_lost;
    let mut p = Part::new(
        "C04",
        "cross-thread-under-shuttle",
        "case = max_interval {1,2,61} x 1-3 tasks, each {0-2 self-wakes, optional park until a message from a waker thread, return or panic} \
         x what happens to its JoinHandle {kept and polled on the executor thread, polled to the end on another thread, polled once then \
         dropped there, dropped there, cancel().await there, detached there} x optional waker thread {wake, wake_by_ref, clone and wake both; \
         optionally a stale wake after everything is over} x {a remote waiter re-polls 0-2 times with the same waker without having been woken} x \
         {a remote drop / cancel runs while the harness holds the executor thread idle, the waker thread waking only afterwards} x executor thread {ticks until every future is gone (sleeping on its waker), or \
         drops the executor after 0-3 ticks; kept handles dropped before or after it} x 40 random + 20 PCT(depth 3) shuttle schedules per case \
         (thorough 200 + 100), seeds stored in the case. Non-trivial = in at least one explored schedule a handle / waker operation or the \
         executor drop happened while a task had been polled and was not finished; distinct = distinct serialised case.",
    );
    p.quick_cases = 2400;
    p.thorough_cases = 10_000;
    p.threads = 8;
    p.max_shrink_iters = 300;
    p.assumptions = vec![
        "shuttle explores sequentially consistent interleavings only; reorderings permitted by the Acquire/Release/Relaxed orderings of the task state word are out of reach",
        "UnsafeCell access races are not detected (the loom stand-in has no access tracking); use-after-free only shows if it crashes or corrupts a counter",
        "a remote JoinHandle that is pending when the executor is torn down is not woken by compio (Task::drop drops the stored waker); this is recorded as an observation, not asserted, because the property sheet does not promise it",
        "schedules are sampled (random + PCT), not enumerated; the sync queue is 64 (full-queue behaviour belongs to C03)",
    ];
    let mut excluded = vec![];
    if known.cancel_lost {
        excluded.push("parked task whose JoinHandle is dropped / cancelled on another thread (cancel can be lost) - known finding, regression case only; such tasks do not park, except in the sub-class where the harness holds the executor thread idle during the remote call (there the race cannot occur and the cancel must take effect)");
    }
    if known.uaf_finished {
        excluded.push("executor dropped while a remote operation that began before its task finished is still inside Remote::schedule (use-after-free of Shared) - known finding, regression case only; the executor thread waits for those operations before the teardown");
    }
    if !allow_remote_poll_race {
        excluded.push("JoinHandle polled to the end on another thread (can miss the completion wake-up) - known finding, regression case only; such handles are polled once and dropped instead");
    }
    p.extra = vcore::serde_json::json!({ "schedules_per_case": if s.tier() == Tier::Thorough { 300 } else { 60 }, "excluded_by_construction": excluded });
    p.regressions = vec![
        // the repo's own loom scenarios, with waking handles instead of busy polling
        ("join-while-complete", XCase { sched_seed: 21, schedules: 2000, max_interval: 61, tasks: vec![ts(0, false, End::Return, RemoteWake::None, false, HandleProg::RemotePoll)], end: ExecEnd::UntilIdle, kept_dropped_first: true, teardown_waits: false }),
        ("concurrent-cancel-and-run", XCase { sched_seed: 22, schedules: 600, max_interval: 61, tasks: vec![ts(1, false, End::Return, RemoteWake::None, false, HandleProg::RemoteDrop { yields: 0 })], end: ExecEnd::UntilIdle, kept_dropped_first: true, teardown_waits: false }),
        ("cross-thread-wake-kept-handle", XCase { sched_seed: 23, schedules: 600, max_interval: 61, tasks: vec![ts(0, true, End::Return, RemoteWake::Wake, false, HandleProg::Keep)], end: ExecEnd::UntilIdle, kept_dropped_first: true, teardown_waits: false }),
        ("executor-dropped-under-remote-wakers", XCase { sched_seed: 24, schedules: 600, max_interval: 1, tasks: vec![ts(1, true, End::Return, RemoteWake::CloneWakeBoth, true, HandleProg::RemoteCancel { yields: 1 }), ts(0, true, End::Panic, RemoteWake::WakeByRef, true, HandleProg::RemoteDetach)], end: ExecEnd::DropAfter { ticks: 1 }, kept_dropped_first: false, teardown_waits: false }),
        // known finding: cancel scheduled before it is marked
        ("remote-drop-of-parked-task", XCase { sched_seed: 26, schedules: 2000, max_interval: 1, tasks: vec![ts(0, true, End::Return, RemoteWake::Wake, false, HandleProg::RemotePollOnceThenDrop)], end: ExecEnd::UntilIdle, kept_dropped_first: false, teardown_waits: true }),
        // the same scenarios with the teardown race excluded must hold
        ("concurrent-cancel-and-run-teardown-waits", XCase { sched_seed: 27, schedules: 600, max_interval: 61, tasks: vec![ts(1, false, End::Return, RemoteWake::None, false, HandleProg::RemoteDrop { yields: 0 })], end: ExecEnd::UntilIdle, kept_dropped_first: true, teardown_waits: true }),
        // a JoinHandle re-polled on another thread with the same waker (spurious wake-ups) while the task completes
        ("remote-repoll-same-waker", XCase { sched_seed: 28, schedules: 2000, max_interval: 61, tasks: vec![TaskSpec { repolls: 2, ..ts(0, false, End::Return, RemoteWake::None, false, HandleProg::RemotePoll) }, TaskSpec { repolls: 1, ..ts(1, false, End::Panic, RemoteWake::None, false, HandleProg::RemotePoll) }], end: ExecEnd::UntilIdle, kept_dropped_first: true, teardown_waits: true }),
        // handle of a parked task dropped / cancelled on another thread while the executor thread is idle:
        // the next ticks must drop the future
        ("remote-drop-of-parked-task-executor-idle", XCase { sched_seed: 29, schedules: 300, max_interval: 2, tasks: vec![TaskSpec { quiet_cancel: true, ..ts(0, true, End::Return, RemoteWake::Wake, false, HandleProg::RemoteDrop { yields: 0 }) }, TaskSpec { quiet_cancel: true, ..ts(1, true, End::Return, RemoteWake::WakeByRef, false, HandleProg::RemoteCancel { yields: 1 }) }, TaskSpec { quiet_cancel: true, ..ts(0, true, End::Panic, RemoteWake::Wake, false, HandleProg::RemotePollOnceThenDrop) }], end: ExecEnd::UntilIdle, kept_dropped_first: true, teardown_waits: true }),
        ("panic-and-remote-drop", XCase { sched_seed: 25, schedules: 600, max_interval: 2, tasks: vec![ts(1, false, End::Panic, RemoteWake::None, false, HandleProg::RemoteDrop { yields: 1 }), ts(2, false, End::Return, RemoteWake::None, false, HandleProg::Keep)], end: ExecEnd::UntilIdle, kept_dropped_first: false, teardown_waits: false }),
    ];
    let tier = s.tier();
    s.run_part(p, case_strategy(tier, known), run_case);
    sched_common::report_schedules(&mut s, "C04", "cross-thread-under-shuttle", SCHEDULES.load(Ordering::Relaxed), "cases that hit a listed known finding stop at their first failing schedule and are not counted");
    s.finish();
}
