//! C15, WebSocket half: `compio_ws` client and server on one compio runtime, each on one end of a
//! Unix socketpair; a proxy thread sits between the two pairs and forwards in generated chunk
//! sizes with generated stalls, the compio ends have a tiny `SO_SNDBUF`.  Plain and over TLS
//! (`TlsStream<PollFd<Socket>>`).  Judged per step with a watchdog and the rescue rule, never by
//! timing alone.

use std::{
    cell::Cell,
    future::Future,
    io::{Read, Write},
    os::fd::AsRawFd,
    rc::Rc,
    sync::{
        atomic::{AtomicBool, Ordering},
        Arc,
    },
    time::Duration,
};

use compio_driver::{DriverType, ProactorBuilder};
use compio_runtime::fd::PollFd;
use compio_ws::{
    tungstenite::{
        protocol::{frame::coding::CloseCode, CloseFrame},
        Error as WsError, Message,
    },
    WebSocketStream,
};
use serde::{Deserialize, Serialize};
use socket2::{Domain, Socket, Type};
use vcore::{
    mono_range,
    proptest::{collection::vec, prelude::*},
    Outcome,
};

use crate::certs::{acceptor, connector, Backend};

// ------------------------------------------------------------------------------------------------
// case

#[derive(Debug, Clone, Copy, Serialize, Deserialize, PartialEq)]
pub enum Kind {
    Text,
    Binary,
    Ping,
    Pong,
    /// the receiver-to-be first sends `queued` small messages that stay unread; then the sender `feed`s one
    /// large message (queued in the stream, not flushed) and reads the small ones while its own flush is
    /// still in progress; the peer reads the large one at the same time
    Burst,
}

#[derive(Debug, Clone, Serialize, Deserialize)]
pub struct Step {
    pub from_client: bool,
    pub kind: Kind,
    /// raw draw, mapped into 0..=102400 for data and 0..=125 for control frames (skewed to small)
    pub len: u16,
    /// `Burst` only: raw draw -> 1..=8 (1..=40 over an uncapped proxy) small messages waiting for the sender of the large one
    #[serde(default)]
    pub queued: u8,
}

#[derive(Debug, Clone, Copy, Serialize, Deserialize)]
pub struct PEv {
    /// forward at most this many bytes in one go (>= 1)
    pub chunk: u16,
    /// then leave this direction alone for that many microseconds
    pub stall_us: u16,
}

#[derive(Debug, Clone, Copy, Serialize, Deserialize, PartialEq)]
pub enum WsTls {
    Plain,
    Native,
    Rustls,
}

#[derive(Debug, Clone, Serialize, Deserialize)]
pub struct WsCase {
    pub iour: bool,
    pub tls: WsTls,
    /// SO_SNDBUF of the client / server socket: 0 = leave the default, otherwise the kernel minimum
    /// (a request of 1 byte) — writes of more than a few KiB become partial and would-block
    pub tiny_sndbuf: [bool; 2],
    /// proxy schedule client->server and server->client, cyclic for the first 256 forwards of a direction
    pub proxy: [Vec<PEv>; 2],
    /// bytes the proxy buffers per direction before it stops reading from the sender (back-pressure):
    /// 0 = 4 MiB, otherwise mapped into 4 KiB..=128 KiB and the proxy's own sockets get the minimum SO_SNDBUF
    #[serde(default)]
    pub proxy_cap: [u16; 2],
    pub steps: Vec<Step>,
    pub client_closes: bool,
    pub close_with_frame: bool,
}

pub fn strategy() -> impl Strategy<Value = WsCase> + Clone {
    let kind = prop_oneof![3 => Just(Kind::Text), 3 => Just(Kind::Binary), 3 => Just(Kind::Ping), 1 => Just(Kind::Pong), 2 => Just(Kind::Burst)];
    let step = (any::<bool>(), kind, any::<u16>(), any::<u8>()).prop_map(|(from_client, kind, len, queued)| Step { from_client, kind, len, queued });
    let cap = || prop_oneof![1 => Just(0u16), 2 => 1u16..=65535];
    let pev = (prop_oneof![2 => 1u16..8, 3 => 8u16..512, 3 => 512u16..8192, 2 => 8192u16..=65535], prop_oneof![3 => Just(0u16), 2 => 1u16..300, 1 => 300u16..3000])
        .prop_map(|(chunk, stall_us)| PEv { chunk, stall_us });
    let tls = prop_oneof![2 => Just(WsTls::Plain), 1 => Just(WsTls::Native), 1 => Just(WsTls::Rustls)];
    (any::<bool>(), tls, any::<[bool; 2]>(), vec(pev.clone(), 0..6), vec(pev, 0..6), (cap(), cap()), vec(step, 0..8), any::<bool>(), any::<bool>())
        .prop_map(|(iour, tls, tiny_sndbuf, p0, p1, (c0, c1), steps, client_closes, close_with_frame)| WsCase {
            iour,
            tls,
            tiny_sndbuf,
            proxy: [p0, p1],
            proxy_cap: [c0, c1],
            steps,
            client_closes,
            close_with_frame,
        })
        .sboxed()
}

impl Step {
    pub fn len(&self) -> usize {
        match self.kind {
            Kind::Ping | Kind::Pong => mono_range(self.len, 0, 125),
            // larger than what the socket buffers and the proxy take at once
            Kind::Burst => mono_range(self.len, 48 * 1024, 384 * 1024),
            // skew: three quarters of the draws stay below 2 KiB, the rest go up to 100 KiB
            _ => {
                if self.len < 49152 {
                    mono_range((self.len as u32 * 4 / 3) as u16, 0, 2048)
                } else {
                    mono_range(((self.len - 49152) as u32 * 4) as u16, 2049, 102400)
                }
            }
        }
    }

    fn message(&self, ix: usize) -> Message {
        let n = self.len();
        match self.kind {
            Kind::Text => {
                let s: String = (0..n).map(|i| (b'a' + ((i * 7 + ix * 3) % 26) as u8) as char).collect();
                Message::Text(s.into())
            }
            Kind::Binary | Kind::Burst => Message::Binary(bytes(ix, n).into()),
            Kind::Ping => Message::Ping(bytes(ix, n).into()),
            Kind::Pong => Message::Pong(bytes(ix, n).into()),
        }
    }
}

impl Step {
    /// up to 8 small messages when the path to their reader is capped (they must fit into the socket
    /// buffers while nobody reads), up to 40 when the proxy buffers without limit
    fn queued(&self, capped: bool) -> usize {
        mono_range(self.queued as u16 * 257, 1, if capped { 8 } else { 40 })
    }

    /// the j-th small message waiting for the sender of a `Burst`
    fn small(&self, ix: usize, j: usize) -> Message {
        let n = (ix * 31 + j * 37 + self.queued as usize) % 180;
        if j % 2 == 0 {
            Message::Text((0..n).map(|i| (b'A' + ((i + j * 5 + ix) % 26) as u8) as char).collect::<String>().into())
        } else {
            Message::Binary(bytes(ix * 16 + j + 1, n).into())
        }
    }
}

pub fn proxy_cap_bytes(raw: u16) -> usize {
    if raw == 0 {
        4 << 20
    } else {
        mono_range(raw, 4096, 128 * 1024)
    }
}

fn bytes(ix: usize, n: usize) -> Vec<u8> {
    (0..n).map(|i| ((i as u32).wrapping_mul(131).wrapping_add(ix as u32 * 29 + 5) ^ (i as u32 >> 7)) as u8).collect()
}

// ------------------------------------------------------------------------------------------------
// proxy thread

struct Proxy {
    stop: Arc<AtomicBool>,
    no_stall: Arc<AtomicBool>,
    wake: std::os::unix::net::UnixStream,
    handle: Option<std::thread::JoinHandle<ProxyStats>>,
}

#[derive(Default, Debug)]
struct ProxyStats {
    forwards: [u64; 2],
    bytes: [u64; 2],
    partial: [u64; 2],
    stalls: [u64; 2],
    blocked: [u64; 2],
}

impl Proxy {
    /// `a` faces the client, `b` faces the server.
    fn start(a: Socket, b: Socket, sched: [Vec<PEv>; 2], cap: [usize; 2]) -> std::io::Result<Proxy> {
        a.set_nonblocking(true)?;
        b.set_nonblocking(true)?;
        let (wake_tx, wake_rx) = std::os::unix::net::UnixStream::pair()?;
        wake_rx.set_nonblocking(true)?;
        let stop = Arc::new(AtomicBool::new(false));
        let no_stall = Arc::new(AtomicBool::new(false));
        let (stop2, no_stall2) = (stop.clone(), no_stall.clone());
        let handle = std::thread::Builder::new().name("c15-ws-proxy".into()).spawn(move || proxy_loop(a, b, wake_rx, sched, cap, stop2, no_stall2))?;
        Ok(Proxy { stop, no_stall, wake: wake_tx, handle: Some(handle) })
    }

    fn hurry(&self) {
        self.no_stall.store(true, Ordering::SeqCst);
        let _ = (&self.wake).write(&[1]);
    }

    fn finish(mut self) -> ProxyStats {
        self.stop.store(true, Ordering::SeqCst);
        let _ = (&self.wake).write(&[1]);
        self.handle.take().map(|h| h.join().unwrap_or_default()).unwrap_or_default()
    }
}

fn proxy_loop(a: Socket, b: Socket, mut wake: std::os::unix::net::UnixStream, sched: [Vec<PEv>; 2], cap: [usize; 2], stop: Arc<AtomicBool>, no_stall: Arc<AtomicBool>) -> ProxyStats {
    use std::{collections::VecDeque, time::Instant};
    let socks = [a, b]; // direction d: read socks[d], write socks[1-d]
    let mut q: [VecDeque<u8>; 2] = [VecDeque::new(), VecDeque::new()];
    let mut eof = [false; 2];
    let mut shut = [false; 2];
    let mut next_ok = [Instant::now(); 2];
    let mut ix = [0usize; 2];
    let mut st = ProxyStats::default();
    let mut buf = vec![0u8; 65536];
    loop {
        if stop.load(Ordering::SeqCst) {
            return st;
        }
        let now = Instant::now();
        let hurry = no_stall.load(Ordering::SeqCst);
        let mut fds = [
            libc::pollfd { fd: socks[0].as_raw_fd(), events: 0, revents: 0 },
            libc::pollfd { fd: socks[1].as_raw_fd(), events: 0, revents: 0 },
            libc::pollfd { fd: wake.as_raw_fd(), events: libc::POLLIN, revents: 0 },
        ];
        let mut timeout_ms: i32 = 200;
        for d in 0..2 {
            if !eof[d] && q[d].len() < cap[d] {
                fds[d].events |= libc::POLLIN;
            }
            if !q[d].is_empty() {
                if hurry || next_ok[d] <= now {
                    fds[1 - d].events |= libc::POLLOUT;
                } else {
                    let ms = next_ok[d].duration_since(now).as_micros().div_ceil(1000) as i32;
                    timeout_ms = timeout_ms.min(ms.max(1));
                }
            }
        }
        let r = unsafe { libc::poll(fds.as_mut_ptr(), 3, timeout_ms) };
        if r < 0 {
            continue;
        }
        if fds[2].revents != 0 {
            let mut t = [0u8; 16];
            let _ = wake.read(&mut t);
        }
        for d in 0..2 {
            // read side of direction d
            if fds[d].revents & (libc::POLLIN | libc::POLLHUP | libc::POLLERR) != 0 && !eof[d] {
                match (&socks[d]).read(&mut buf) {
                    Ok(0) => eof[d] = true,
                    Ok(n) => q[d].extend(&buf[..n]),
                    Err(e) if e.kind() == std::io::ErrorKind::WouldBlock || e.kind() == std::io::ErrorKind::Interrupted => {}
                    Err(_) => eof[d] = true,
                }
            }
            // write side of direction d is socks[1-d]
            if fds[1 - d].revents & libc::POLLOUT != 0 && !q[d].is_empty() {
                let scheduled = !hurry && ix[d] < 256 && !sched[d].is_empty();
                let ev = if scheduled { sched[d][ix[d] % sched[d].len()] } else { PEv { chunk: u16::MAX, stall_us: 0 } };
                let want = if scheduled { (ev.chunk.max(1) as usize).min(q[d].len()) } else { q[d].len().min(65536) };
                let (s1, s2) = q[d].as_slices();
                let chunk: Vec<u8> = s1.iter().chain(s2).take(want).copied().collect();
                match (&socks[1 - d]).write(&chunk) {
                    Ok(n) => {
                        q[d].drain(..n);
                        st.forwards[d] += 1;
                        st.bytes[d] += n as u64;
                        if n < want {
                            st.partial[d] += 1;
                        }
                        ix[d] += 1;
                        if scheduled && ev.stall_us > 0 {
                            st.stalls[d] += 1;
                            next_ok[d] = Instant::now() + Duration::from_micros(ev.stall_us as u64);
                        }
                    }
                    Err(e) if e.kind() == std::io::ErrorKind::WouldBlock || e.kind() == std::io::ErrorKind::Interrupted => st.blocked[d] += 1,
                    Err(_) => {
                        // the receiver is gone: discard
                        q[d].clear();
                        eof[d] = true;
                    }
                }
            }
            if eof[d] && q[d].is_empty() && !shut[d] {
                shut[d] = true;
                let _ = socks[1 - d].shutdown(std::net::Shutdown::Write);
            }
        }
    }
}

// ------------------------------------------------------------------------------------------------
// interpreter

type Ws = WebSocketStream<Socket>;

/// A long way above anything observed (a whole case takes well under a second even on the loaded
/// machine); a hit is never a verdict by itself, see `rescue`.
const WATCHDOG: Duration = Duration::from_secs(20);
const RESCUE: Duration = Duration::from_millis(1500);

enum StepErr {
    /// definite violation (shape, detail)
    Bad(String, String),
    /// watchdog expired in (what)
    Hung(&'static str),
}

async fn guarded<T>(what: &'static str, d: Duration, f: impl Future<Output = T>) -> Result<T, StepErr> {
    compio_runtime::time::timeout(d, f).await.map_err(|_| StepErr::Hung(what))
}

fn ws_err(what: &str, e: WsError) -> StepErr {
    let shape = match &e {
        WsError::ConnectionClosed => "ConnectionClosed".to_string(),
        WsError::AlreadyClosed => "AlreadyClosed".to_string(),
        WsError::Io(e) => format!("Io:{:?}", e.kind()),
        WsError::Protocol(_) => "Protocol".to_string(),
        WsError::Capacity(_) => "Capacity".to_string(),
        other => format!("{other:?}").chars().take_while(|c| c.is_ascii_alphanumeric()).collect(),
    };
    StepErr::Bad(format!("{what}-error:{shape}"), format!("{what}: {e}"))
}

fn describe(m: &Message) -> String {
    match m {
        Message::Text(t) => format!("Text({} bytes)", t.len()),
        Message::Binary(b) => format!("Binary({} bytes)", b.len()),
        Message::Ping(b) => format!("Ping({} bytes)", b.len()),
        Message::Pong(b) => format!("Pong({} bytes)", b.len()),
        Message::Close(c) => format!("Close({:?})", c.as_ref().map(|c| (u16::from(c.code), c.reason.len()))),
        Message::Frame(_) => "Frame".into(),
    }
}

async fn expect(ws: &mut Ws, what: &'static str, want: &Message) -> Result<(), StepErr> {
    let got = guarded(what, WATCHDOG, ws.read()).await?.map_err(|e| ws_err(what, e))?;
    if &got != want {
        return Err(StepErr::Bad(format!("{what}-mismatch"), format!("{what}: got {}, want {}", describe(&got), describe(want))));
    }
    Ok(())
}

struct Progress {
    step: Cell<usize>,
    stage: Cell<&'static str>,
}

/// a definite violation wins over a watchdog
fn both(a: Result<(), StepErr>, b: Result<(), StepErr>) -> Result<(), StepErr> {
    match (a, b) {
        (Err(e @ StepErr::Bad(..)), _) | (_, Err(e @ StepErr::Bad(..))) => Err(e),
        (Err(e), _) | (_, Err(e)) => Err(e),
        _ => Ok(()),
    }
}

async fn conversation(case: &WsCase, c: &mut Ws, s: &mut Ws, pr: &Progress) -> Result<(), StepErr> {
    for (i, st) in case.steps.iter().enumerate() {
        pr.step.set(i);
        let m = st.message(i);
        let (x, y) = if st.from_client { (&mut *c, &mut *s) } else { (&mut *s, &mut *c) };
        if st.kind == Kind::Burst {
            // the small messages travel from y to x: direction 1 (server -> client) when x is the client
            let q = st.queued(case.proxy_cap[if st.from_client { 1 } else { 0 }] != 0);
            // y's small messages fit into the socket buffers: they wait there, x is not reading yet
            pr.stage.set("burst-queue");
            for j in 0..q {
                guarded("burst-queue", WATCHDOG, y.send(st.small(i, j))).await?.map_err(|e| ws_err("burst-queue", e))?;
            }
            // queued inside x's stream, not flushed
            pr.stage.set("burst-feed");
            guarded("burst-feed", WATCHDOG, futures_util::SinkExt::feed(&mut *x, m.clone())).await?.map_err(|e| ws_err("burst-feed", e))?;
            // x reads what is waiting for it while its own large message is still being flushed (every read
            // has to flush first); y reads the large message at the same time
            pr.stage.set("burst-read");
            let xr = async {
                for j in 0..q {
                    expect(x, "burst-read", &st.small(i, j)).await?;
                    if std::env::var("C15_TRACE").is_ok() {
                        eprintln!("  burst step {i}: queued message {j} read");
                    }
                }
                guarded("burst-flush", WATCHDOG, x.flush()).await?.map_err(|e| ws_err("burst-flush", e))
            };
            let yr = async {
                let r = expect(y, "burst-big-read", &m).await;
                if std::env::var("C15_TRACE").is_ok() {
                    eprintln!("  burst step {i}: large message read ({})", r.is_ok());
                }
                r
            };
            let (a, b) = futures_util::future::join(xr, yr).await;
            both(a, b)?;
            continue;
        }
        // send and read at the same time: the path between the two holds less than a large message
        pr.stage.set("send+read");
        let snd = async { guarded("send", WATCHDOG, x.send(m.clone())).await?.map_err(|e| ws_err("send", e)) };
        let rcv = expect(y, "read", &m);
        let (a, b) = futures_util::future::join(snd, rcv).await;
        both(a, b)?;
        if let Message::Ping(p) = &m {
            // the receiver's stream yielded the ping; the reply must already be on its way although the
            // receiver does not touch its stream again (compio-ws flushes before yielding an item)
            pr.stage.set("read-pong");
            expect(x, "read-pong", &Message::Pong(p.clone())).await?;
        }
    }
    pr.step.set(case.steps.len());
    let frame = case.close_with_frame.then(|| CloseFrame { code: CloseCode::Normal, reason: "done".into() });
    let (x, y) = if case.client_closes { (&mut *c, &mut *s) } else { (&mut *s, &mut *c) };
    pr.stage.set("close");
    guarded("close", WATCHDOG, x.close(frame.clone())).await?.map_err(|e| ws_err("close", e))?;
    pr.stage.set("read-close");
    expect(y, "read-close", &Message::Close(frame.clone())).await?;
    // the receiver's close reply is flushed before the close is yielded to it
    pr.stage.set("read-close-ack");
    expect(x, "read-close-ack", &Message::Close(frame.clone())).await?;
    Ok(())
}

/// after the close handshake every further read reports the normal end, on both sides; the server
/// side is dropped first (it closes the transport), then the client sees the end of the stream
async fn after_close(c: &mut Ws, s: Ws, pr: &Progress) -> Result<(), StepErr> {
    let mut s = s;
    pr.stage.set("server-read-after-close");
    match guarded("server-read-after-close", WATCHDOG, s.read()).await? {
        Err(WsError::ConnectionClosed) | Err(WsError::AlreadyClosed) => {}
        Err(e) => return Err(ws_err("server-read-after-close", e)),
        Ok(m) => return Err(StepErr::Bad("message-after-close".into(), format!("server read {} after the close handshake", describe(&m)))),
    }
    // the server ends the transport properly: TLS close_notify (if any) and shutdown of the write half
    pr.stage.set("server-transport-close");
    let mut inner = compio_buf::IntoInner::into_inner(s);
    guarded("server-transport-close", WATCHDOG, futures_util::AsyncWriteExt::close(&mut inner))
        .await?
        .map_err(|e| StepErr::Bad(format!("transport-close-error:{:?}", e.kind()), format!("closing the server transport: {e}")))?;
    drop(inner);
    pr.stage.set("client-read-after-close");
    match guarded("client-read-after-close", WATCHDOG, c.read()).await? {
        Err(WsError::ConnectionClosed) | Err(WsError::AlreadyClosed) => {}
        Err(e) => return Err(ws_err("client-read-after-close", e)),
        Ok(m) => return Err(StepErr::Bad("message-after-close".into(), format!("client read {} after the close handshake", describe(&m)))),
    }
    Ok(())
}

fn tiny(sock: &Socket) {
    // the kernel clamps this to its minimum (a few KiB)
    let _ = sock.set_send_buffer_size(1);
}

pub fn run(case: &WsCase, verif_dir: &std::path::Path) -> Outcome {
    let mut pb = ProactorBuilder::new();
    pb.driver_type(if case.iour { DriverType::IoUring } else { DriverType::Poll });
    let rt = match compio_runtime::RuntimeBuilder::new().with_proactor(pb).build() {
        Ok(rt) => rt,
        Err(e) => return Outcome::inconclusive(format!("runtime build: {e}")),
    };
    let pairs = (|| -> std::io::Result<_> {
        let (c, pa) = Socket::pair(Domain::UNIX, Type::STREAM, None)?;
        let (pb_, s) = Socket::pair(Domain::UNIX, Type::STREAM, None)?;
        Ok((c, pa, pb_, s))
    })();
    let (csock, pa, pb_, ssock) = match pairs {
        Ok(p) => p,
        Err(e) => return Outcome::inconclusive(format!("socketpair: {e}")),
    };
    if case.tiny_sndbuf[0] {
        tiny(&csock);
    }
    if case.tiny_sndbuf[1] {
        tiny(&ssock);
    }
    // tungstenite rejects an HTTP handshake that arrives in more than 64 reads of fewer than 128 bytes on
    // average ("attack attempt"); without TLS records underneath the proxy therefore forwards >= 8 bytes a time
    let mut sched = case.proxy.clone();
    if case.tls == WsTls::Plain {
        for d in sched.iter_mut() {
            for e in d.iter_mut() {
                e.chunk = e.chunk.max(8);
            }
        }
    }
    let cap = [proxy_cap_bytes(case.proxy_cap[0]), proxy_cap_bytes(case.proxy_cap[1])];
    // direction 0 (client -> server) leaves the proxy through `pb_`, direction 1 through `pa`
    if case.proxy_cap[0] != 0 {
        tiny(&pb_);
    }
    if case.proxy_cap[1] != 0 {
        tiny(&pa);
    }
    let proxy = match Proxy::start(pa, pb_, sched, cap) {
        Ok(p) => p,
        Err(e) => return Outcome::inconclusive(format!("proxy: {e}")),
    };
    let pr = Rc::new(Progress { step: Cell::new(0), stage: Cell::new("handshake") });
    let tls_name = match case.tls {
        WsTls::Plain => "plain",
        WsTls::Native => "native",
        WsTls::Rustls => "rustls",
    };

    let verdict: Result<(), (String, String, bool)> = rt.block_on(async {
        // ---- handshakes (TLS, then WebSocket), both sides at once
        let hs = async {
            let cfd = PollFd::new(csock).map_err(|e| format!("PollFd: {e}"))?;
            let sfd = PollFd::new(ssock).map_err(|e| format!("PollFd: {e}"))?;
            let client = async {
                match case.tls {
                    WsTls::Plain => compio_ws::client_async("ws://localhost/c15", cfd).await.map(|x| x.0).map_err(|e| format!("client_async: {e}")),
                    t => {
                        let b = if t == WsTls::Native { Backend::Native } else { Backend::Rustls };
                        let tls = connector(verif_dir, b, false).connect("localhost", cfd).await.map_err(|e| format!("tls connect: {e}"))?;
                        compio_ws::client_async("wss://localhost/c15", tls).await.map(|x| x.0).map_err(|e| format!("client_async: {e}"))
                    }
                }
            };
            let server = async {
                match case.tls {
                    WsTls::Plain => compio_ws::accept_async(sfd).await.map_err(|e| format!("accept_async: {e}")),
                    t => {
                        let b = if t == WsTls::Native { Backend::Native } else { Backend::Rustls };
                        let tls = acceptor(verif_dir, b, false).accept(sfd).await.map_err(|e| format!("tls accept: {e}"))?;
                        compio_ws::accept_async(tls).await.map_err(|e| format!("accept_async: {e}"))
                    }
                }
            };
            let (c, s): (Result<Ws, String>, Result<Ws, String>) = futures_util::future::join(client, server).await;
            Ok::<_, String>((c?, s?))
        };
        let (mut c, mut s) = match compio_runtime::time::timeout(WATCHDOG, hs).await {
            Err(_) => return Err(("C15/ws/handshake/hung".to_string(), "handshake did not finish within the watchdog".to_string(), true)),
            Ok(Err(e)) => return Err((format!("C15/ws/{tls_name}/handshake/error"), e, false)),
            Ok(Ok(p)) => p,
        };

        // ---- conversation, close, end
        let r = conversation(case, &mut c, &mut s, &pr).await;
        let r = match r {
            Ok(()) => after_close(&mut c, s, &pr).await,
            Err(StepErr::Hung(what)) => {
                // rescue rule: everything the transport holds is delivered at once, then the one
                // stimulus that is redundant if the layer flushed what it queued: flush the peer side(s)
                proxy.hurry();
                let rescue = async {
                    let _ = c.flush().await;
                    let _ = s.flush().await;
                    compio_runtime::time::sleep(Duration::from_millis(50)).await;
                    // has the awaited message arrived now?
                    let from_client = pr.step.get() < case.steps.len() && case.steps[pr.step.get()].from_client;
                    let closing = pr.step.get() >= case.steps.len();
                    let reader_is_client = match what {
                        "read" | "read-close" | "burst-big-read" => if closing { !case.client_closes } else { !from_client },
                        "read-pong" | "read-close-ack" | "burst-read" => if closing { case.client_closes } else { from_client },
                        _ => return false,
                    };
                    let rd = if reader_is_client { &mut c } else { &mut s };
                    matches!(rd.read().await, Ok(_))
                };
                let rescued = matches!(compio_runtime::time::timeout(RESCUE, rescue).await, Ok(true));
                return if rescued {
                    Err((format!("C15/ws/{tls_name}/{what}/hung-until-explicit-flush"), format!("step {} stage {what}: nothing arrived within the watchdog, an explicit flush() of the streams delivered it", pr.step.get()), false))
                } else {
                    Err((format!("C15/ws/{what}/hung"), format!("step {} stage {what}: watchdog, rescue did not help", pr.step.get()), true))
                };
            }
            Err(e) => Err(e),
        };
        match r {
            Ok(()) => Ok(()),
            Err(StepErr::Bad(shape, detail)) => Err((format!("C15/ws/{tls_name}/{shape}"), format!("step {}: {detail}", pr.step.get()), false)),
            Err(StepErr::Hung(what)) => Err((format!("C15/ws/{what}/hung"), format!("stage {what}: watchdog"), true)),
        }
    });
    let stats = proxy.finish();
    drop(rt);
    match verdict {
        Err((sig, detail, true)) => Outcome::inconclusive(format!("{sig}: {detail}")),
        Err((sig, detail, false)) => Outcome::violation(sig, detail),
        Ok(()) => {
            let mut labels = vec![format!("transport:{tls_name}"), format!("driver:{}", if case.iour { "io-uring" } else { "poll" })];
            let big = case.steps.iter().any(|s| matches!(s.kind, Kind::Text | Kind::Binary) && s.len() > 8192);
            let pings = case.steps.iter().filter(|s| s.kind == Kind::Ping).count();
            if big {
                labels.push("message>8K".into());
            }
            if pings > 0 {
                labels.push("ping-pong".into());
            }
            if case.steps.iter().any(|s| s.kind == Kind::Burst) {
                labels.push("burst:read-while-own-flush-pending".into());
            }
            if case.proxy_cap[0] != 0 || case.proxy_cap[1] != 0 {
                labels.push("proxy-back-pressure-cap".into());
            }
            if case.tiny_sndbuf[0] || case.tiny_sndbuf[1] {
                labels.push("tiny-sndbuf".into());
            }
            let split = stats.forwards[0] + stats.forwards[1] > (case.steps.len() as u64 + 4) * 2;
            if split {
                labels.push("proxy-fragmented".into());
            }
            if stats.stalls[0] + stats.stalls[1] > 0 {
                labels.push("proxy-stalled".into());
            }
            if stats.partial[0] + stats.partial[1] + stats.blocked[0] + stats.blocked[1] > 0 {
                labels.push("proxy-backpressure".into());
            }
            // non-trivial: the proxy really fragmented or stalled the byte stream and at least one message crossed
            let nontrivial = !case.steps.is_empty() && (split || stats.stalls[0] + stats.stalls[1] > 0);
            Outcome::pass_owned(nontrivial, labels)
        }
    }
}

// ------------------------------------------------------------------------------------------------
// fixed cases

pub fn regressions() -> Vec<(&'static str, WsCase)> {
    let burst = |from_client, len, queued| Step { from_client, kind: Kind::Burst, len, queued };
    // (a) default socket buffers, unthrottled proxy: the ~300 KiB message needs one or two flush rounds while
    //     eight small messages are waiting; (b) tiny buffers and a capped, stalling proxy: many rounds
    let base = |tls, iour, tight: bool| WsCase {
        iour,
        tls,
        tiny_sndbuf: [tight, tight],
        proxy: if tight { [vec![PEv { chunk: 3000, stall_us: 200 }, PEv { chunk: 70, stall_us: 0 }], vec![PEv { chunk: 900, stall_us: 100 }]] } else { [vec![PEv { chunk: 8192, stall_us: 300 }], vec![PEv { chunk: 8192, stall_us: 300 }]] },
        proxy_cap: if tight { [1, 20000] } else { [0, 0] },
        steps: vec![
            burst(true, if tight { 20000 } else { 50000 }, 255),
            Step { from_client: false, kind: Kind::Ping, len: 30000, queued: 0 },
            burst(false, if tight { 65535 } else { 52000 }, 255),
            Step { from_client: true, kind: Kind::Text, len: 60000, queued: 0 },
        ],
        client_closes: true,
        close_with_frame: true,
    };
    vec![
        ("bursts-plain", base(WsTls::Plain, true, false)),
        ("bursts-plain-poll", base(WsTls::Plain, false, false)),
        ("bursts-rustls", base(WsTls::Rustls, false, false)),
        ("bursts-native", base(WsTls::Native, true, false)),
        ("bursts-under-back-pressure-plain", base(WsTls::Plain, true, true)),
        ("bursts-under-back-pressure-rustls", base(WsTls::Rustls, false, true)),
    ]
}
