#![no_main]
//! libFuzzer target for C12: the input is decoded with `arbitrary::Unstructured` into an
//! `AdapterCase` (`iolib::arb::adapter_case`) and run through the same interpreter as the check.
//! An unlisted violation aborts (crash artifact; `c12 --from-bytes <artifact>` converts it to a
//! JSON replay).  Counters are dumped at exit into $VERIF_FUZZ_STATS.
use arbitrary::Unstructured;
use iolib::{
    arb::adapter_case,
    c12,
    fuzz::{fuzz_one, Target},
};
use libfuzzer_sys::fuzz_target;

static TARGET: Target = Target {
    id: "C12",
    part: "fuzz-c12_adapters",
    rule: "libFuzzer input decoded with arbitrary::Unstructured into the AdapterCase type of the check (flavour, base, max, two inner schedules, 1-24 ops); same \
           interpreter and non-triviality rule as part adapters; distinct = distinct decoded case",
};

fuzz_target!(|data: &[u8]| {
    let mut u = Unstructured::new(data);
    let Ok(case) = adapter_case(&mut u) else { return };
    fuzz_one(&TARGET, "adapters", &case, || c12::run_adapter(&case));
});
