//! A crate *named* `synchrony` exposing exactly what `compio-driver/src/fd.rs` imports
//! (`sync::{atomic::AtomicBool, shared::Shared, waker_slot::WakerSlot}`), built on **shuttle** so
//! that every step of the take/drop protocol is a scheduling point owned by the harness.
//!
//! Faithfulness to the real crate (synchrony 0.1.9, `sync` flavour):
//! * `Shared` is `std::sync::Arc` there.  Here it is a wrapper around `std::sync::Arc` that inserts a
//!   scheduling point *before* each of `clone`, `drop` (the decrement), `strong_count` and
//!   `try_unwrap`; each of those is one atomic read-modify-write / load in std, so the wrapper
//!   exposes exactly the sequentially consistent interleavings of the real thing — no more.
//!   (shuttle's own `Arc` is `std::sync::Arc` without scheduling points, i.e. it would *hide*
//!   interleavings.)
//! * `WakerSlot` is `futures_util::task::AtomicWaker` there: `register` and `wake`(= take + wake)
//!   are linearizable — a `wake` concurrent with a `register` either takes the previous waker or
//!   results in the new waker being woken.  A mutex-guarded `Option<Waker>` has exactly those two
//!   outcomes, so it neither adds nor removes behaviours.
//! * `AtomicBool` is `std::sync::atomic::AtomicBool` there, shuttle's here (every access a
//!   scheduling point, sequentially consistent).
//!
//! Every operation is also appended to a per-OS-thread trace (all shuttle threads of one execution
//! run on one OS thread) that the harness uses to *classify* a hang; the trace never influences
//! behaviour.

pub mod trace {
    use std::cell::RefCell;

    #[derive(Debug, Clone, Copy, PartialEq, Eq)]
    pub enum Op {
        Clone,
        /// `Shared::strong_count` returned `n`
        CountRead { n: usize },
        /// a reference was released; `before` = strong count just before the decrement
        Dec { before: usize },
        TryUnwrap { ok: bool },
        WaitsSwap { prev: bool },
        WaitsLoad { val: bool },
        Register,
        /// `WakerSlot::wake`/`take`: was a waker present?
        Wake { had: bool },
        /// harness markers
        PollStart,
        PollEnd { ready: bool },
    }

    #[derive(Debug, Clone, Copy, PartialEq, Eq)]
    pub struct Ev {
        pub thread: usize,
        pub op: Op,
    }

    thread_local! {
        static TRACE: RefCell<Vec<Ev>> = const { RefCell::new(Vec::new()) };
    }

    pub fn me() -> usize {
        usize::from(shuttle::thread::current().id())
    }

    pub fn push(op: Op) {
        let ev = Ev { thread: me(), op };
        TRACE.with(|t| t.borrow_mut().push(ev));
    }

    pub fn reset() {
        TRACE.with(|t| t.borrow_mut().clear());
    }

    pub fn snapshot() -> Vec<Ev> {
        TRACE.with(|t| t.borrow().clone())
    }
}

fn sched_point() {
    shuttle_engine::runtime::thread::switch();
}

pub mod sync {
    pub mod atomic {
        use std::sync::atomic::Ordering;

        use crate::trace::{push, Op};

        /// shuttle's `AtomicBool` plus tracing.
        #[derive(Debug)]
        pub struct AtomicBool(shuttle::sync::atomic::AtomicBool);

        impl AtomicBool {
            pub fn new(v: bool) -> Self {
                Self(shuttle::sync::atomic::AtomicBool::new(v))
            }

            pub fn load(&self, o: Ordering) -> bool {
                let val = self.0.load(o);
                push(Op::WaitsLoad { val });
                val
            }

            pub fn swap(&self, v: bool, o: Ordering) -> bool {
                let prev = self.0.swap(v, o);
                push(Op::WaitsSwap { prev });
                prev
            }

            pub fn store(&self, v: bool, o: Ordering) {
                self.0.store(v, o)
            }
        }
    }

    pub mod shared {
        use std::{fmt, ops::Deref, sync::Arc};

        use crate::{
            sched_point,
            trace::{push, Op},
        };

        pub struct Shared<T: ?Sized>(Option<Arc<T>>);

        impl<T> Shared<T> {
            pub fn new(v: T) -> Self {
                Self(Some(Arc::new(v)))
            }

            pub fn try_unwrap(mut this: Self) -> Result<T, Self> {
                sched_point();
                let arc = this.0.take().expect("live");
                match Arc::try_unwrap(arc) {
                    Ok(v) => {
                        push(Op::TryUnwrap { ok: true });
                        Ok(v)
                    }
                    Err(arc) => {
                        push(Op::TryUnwrap { ok: false });
                        this.0 = Some(arc);
                        Err(this)
                    }
                }
            }
        }

        impl<T: ?Sized> Shared<T> {
            pub fn strong_count(this: &Self) -> usize {
                sched_point();
                let n = Arc::strong_count(this.0.as_ref().expect("live"));
                push(Op::CountRead { n });
                n
            }
        }

        impl<T: ?Sized> Clone for Shared<T> {
            fn clone(&self) -> Self {
                sched_point();
                push(Op::Clone);
                Self(self.0.clone())
            }
        }

        impl<T: ?Sized> Drop for Shared<T> {
            fn drop(&mut self) {
                if let Some(arc) = self.0.take() {
                    // never switch while unwinding: the execution is being torn down
                    if !std::thread::panicking() {
                        sched_point();
                        push(Op::Dec { before: Arc::strong_count(&arc) });
                    }
                    drop(arc);
                }
            }
        }

        impl<T: ?Sized> Deref for Shared<T> {
            type Target = T;

            fn deref(&self) -> &T {
                self.0.as_ref().expect("live")
            }
        }

        impl<T: ?Sized + fmt::Debug> fmt::Debug for Shared<T> {
            fn fmt(&self, f: &mut fmt::Formatter<'_>) -> fmt::Result {
                self.0.fmt(f)
            }
        }
    }

    pub mod waker_slot {
        use std::task::Waker;

        use crate::trace::{push, Op};

        #[derive(Debug)]
        pub struct WakerSlot(shuttle::sync::Mutex<Option<Waker>>);

        impl Default for WakerSlot {
            fn default() -> Self {
                Self::new()
            }
        }

        impl WakerSlot {
            pub fn new() -> Self {
                Self(shuttle::sync::Mutex::new(None))
            }

            pub fn register(&self, waker: &Waker) {
                let mut g = self.0.lock().unwrap();
                push(Op::Register);
                if g.as_ref().is_some_and(|w| w.will_wake(waker)) {
                    return;
                }
                *g = Some(waker.clone());
            }

            pub fn take(&self) -> Option<Waker> {
                let w = self.0.lock().unwrap().take();
                push(Op::Wake { had: w.is_some() });
                w
            }

            pub fn wake(&self) {
                if let Some(w) = self.take() {
                    w.wake()
                }
            }
        }
    }
}

/// The harness only ever compiles the `sync` flavour; the alias keeps `use synchrony::unsync as sync`
/// compiling should `fd.rs` be included without the feature.
pub mod unsync {
    pub use crate::sync::*;
}
