//! Tracking allocator for the pool's buffers: live table, double-free detection, quarantine with canary.
use std::{cell::RefCell, collections::BTreeMap, mem::MaybeUninit, ptr::NonNull};

use compio_driver::BufferAllocator;

#[derive(Default)]
struct AllocState {
    /// address -> length of every live pool buffer
    live: BTreeMap<usize, u32>,
    /// released buffers are kept (canary-filled) until the case is over: a late write by the OS or by
    /// a stale handle shows up as a broken canary instead of silent heap corruption
    quarantine: Vec<(usize, u32)>,
    allocs: u64,
    frees: u64,
    bad: Option<(String, String)>,
}

thread_local! {
    static STATE: RefCell<AllocState> = RefCell::new(AllocState::default());
}

const CANARY: u8 = 0xDD;

pub struct Tracked;

impl BufferAllocator for Tracked {
    fn allocate(len: u32) -> NonNull<MaybeUninit<u8>> {
        let b: Box<[u8]> = vec![0xA5u8; len as usize].into_boxed_slice();
        let p = Box::into_raw(b) as *mut u8;
        STATE.with(|s| {
            let mut s = s.borrow_mut();
            s.live.insert(p as usize, len);
            s.allocs += 1;
        });
        NonNull::new(p as *mut MaybeUninit<u8>).unwrap()
    }

    unsafe fn deallocate(ptr: NonNull<MaybeUninit<u8>>, len: u32) {
        let a = ptr.as_ptr() as usize;
        STATE.with(|s| {
            let mut s = s.borrow_mut();
            match s.live.remove(&a) {
                Some(l) if l == len => {
                    unsafe { std::ptr::write_bytes(a as *mut u8, CANARY, len as usize) };
                    s.quarantine.push((a, len));
                    s.frees += 1;
                }
                Some(l) => {
                    s.quarantine.push((a, l));
                    s.bad.get_or_insert(("C07/dealloc-wrong-length".into(), format!("pool buffer {a:#x} allocated with length {l} released with length {len}")));
                }
                None => {
                    s.bad.get_or_insert(("C07/double-free".into(), format!("pool buffer {a:#x} (len {len}) released although it is not live")));
                }
            }
        });
    }
}

pub struct Stats {
    pub live: usize,
}

pub fn stats() -> Stats {
    STATE.with(|s| Stats { live: s.borrow().live.len() })
}

/// The live pool buffer that contains `[addr, addr+len)`, if any.
pub fn allocation_of(addr: usize, len: usize) -> Option<usize> {
    STATE.with(|s| {
        let s = s.borrow();
        let (a, l) = s.live.range(..=addr).next_back()?;
        (addr + len <= a + *l as usize).then_some(*a)
    })
}

pub fn reset() {
    STATE.with(|s| *s.borrow_mut() = AllocState::default());
}

/// End of case: quarantine canaries intact, then really free; leaked buffers are freed too and reported.
pub fn finish() -> Result<(), (String, String)> {
    STATE.with(|s| {
        let mut s = s.borrow_mut();
        let mut res = Ok(());
        for (a, l) in std::mem::take(&mut s.quarantine) {
            let sl = unsafe { std::slice::from_raw_parts(a as *const u8, l as usize) };
            if let Some(at) = sl.iter().position(|b| *b != CANARY) {
                res = Err(("C07/write-after-release".to_string(), format!("released pool buffer {a:#x}: byte {at} was written after the release")));
            }
            drop(unsafe { Box::from_raw(std::ptr::slice_from_raw_parts_mut(a as *mut u8, l as usize)) });
        }
        let leaked = s.live.len();
        for (a, l) in std::mem::take(&mut s.live) {
            drop(unsafe { Box::from_raw(std::ptr::slice_from_raw_parts_mut(a as *mut u8, l as usize)) });
        }
        if let Some(b) = s.bad.take() {
            return Err(b);
        }
        if leaked > 0 && res.is_ok() {
            res = Err(("C07/buffers-not-freed".into(), format!("{leaked} of {} pool allocations were never released", s.allocs)));
        }
        res
    })
}
