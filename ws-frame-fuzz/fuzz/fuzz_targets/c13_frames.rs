#![no_main]
//! libFuzzer target for C13: the input is decoded with `arbitrary::Unstructured` into the check's
//! case types (`c13core::unstructured::decode`) and run through the same interpreters; a
//! violation (or a panic inside the code under test) aborts the process, which libFuzzer records
//! as a crash artifact.  Counters are dumped at exit into $VERIF_FUZZ_STATS.
use std::{
    collections::HashSet,
    sync::{Mutex, OnceLock},
};

use c13core::{frames::Excl, unstructured};
use libfuzzer_sys::fuzz_target;
use vcore::Outcome;

#[derive(Default)]
struct Stats {
    runs: u64,
    undecodable: u64,
    nontrivial: HashSet<u64>,
    labels: std::collections::BTreeMap<String, u64>,
    samples: Vec<vcore::serde_json::Value>,
}

static STATS: OnceLock<Mutex<Stats>> = OnceLock::new();
static EXCL: OnceLock<Excl> = OnceLock::new();

extern "C" fn dump() {
    let Some(path) = std::env::var_os("VERIF_FUZZ_STATS") else { return };
    let Some(st) = STATS.get() else { return };
    let Ok(st) = st.lock() else { return };
    let j = vcore::serde_json::json!({
        "property_id": "C13",
        "part": "fuzz-c13_frames",
        "evaluations": st.runs,
        "undecodable_inputs": st.undecodable,
        "distinct_nontrivial": st.nontrivial.len(),
        "hashes": [],
        "rule": "libFuzzer input decoded with arbitrary::Unstructured: byte 0 selects hostile (rest of the input is the peer stream verbatim) | round trip | cmsg; same interpreters and \
                 non-triviality rules as the parts roundtrip/hostile/cmsg; distinct = distinct decoded case",
        "samples": st.samples,
        "label_histogram": st.labels,
        "violations": 0,
    });
    let _ = std::fs::write(path, j.to_string());
}

fn hash(s: &str) -> u64 {
    use std::hash::{Hash, Hasher};
    let mut h = std::collections::hash_map::DefaultHasher::new();
    s.hash(&mut h);
    h.finish()
}

fuzz_target!(|data: &[u8]| {
    let stats = STATS.get_or_init(|| {
        unsafe { libc::atexit(dump) };
        Mutex::new(Stats::default())
    });
    let excl = *EXCL.get_or_init(|| Excl::load(std::path::Path::new(&std::env::var("VERIF_DIR").unwrap_or_else(|_| "/verif".into()))));
    let Ok(input) = unstructured::decode(data) else {
        stats.lock().unwrap().undecodable += 1;
        return;
    };
    // panics of the code under test propagate: libFuzzer reports them as crashes
    let outcome = unstructured::run(&input, excl);
    let mut st = stats.lock().unwrap();
    st.runs += 1;
    match outcome {
        Outcome::Pass { nontrivial, labels } => {
            for l in labels {
                if !l.starts_with("framer:") || l.starts_with("framer:len8") {
                    *st.labels.entry(l).or_default() += 1;
                }
            }
            if nontrivial {
                let text = vcore::serde_json::to_string(&input).unwrap_or_default();
                if st.nontrivial.insert(hash(&text)) && st.samples.len() < 3 {
                    st.samples.push(vcore::serde_json::to_value(&input).unwrap_or_default());
                }
            }
        }
        Outcome::Inconclusive { .. } => {}
        Outcome::Violation { signature, detail } => {
            drop(st);
            eprintln!("C13 violation: {signature}\n  {detail}\n  case: {}", vcore::serde_json::to_string(&input).unwrap_or_default());
            std::process::abort();
        }
    }
});
