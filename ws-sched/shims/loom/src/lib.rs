//! A crate *named* `loom` that forwards to **shuttle**, so that code written against loom's API
//! (`compio-executor`, `compio-send-wrapper` under `--cfg loom`) is scheduled by shuttle's
//! randomised schedulers without being modified.
//!
//! Only what those two crates use is provided.  `cell::UnsafeCell` is a plain cell (no access
//! tracking, unlike real loom): data races on it are *not* detected here.

pub use shuttle::{hint, sync, thread, thread_local};

pub mod cell {
    pub use std::cell::Cell;

    #[derive(Debug)]
    #[repr(transparent)]
    pub struct UnsafeCell<T: ?Sized>(std::cell::UnsafeCell<T>);

    impl<T> UnsafeCell<T> {
        pub fn new(value: T) -> Self {
            Self(std::cell::UnsafeCell::new(value))
        }

        pub fn into_inner(self) -> T {
            self.0.into_inner()
        }
    }

    impl<T: ?Sized> UnsafeCell<T> {
        #[inline(always)]
        pub fn with<F, R>(&self, f: F) -> R
        where
            F: FnOnce(*const T) -> R,
        {
            f(self.0.get())
        }

        #[inline(always)]
        pub fn with_mut<F, R>(&self, f: F) -> R
        where
            F: FnOnce(*mut T) -> R,
        {
            f(self.0.get())
        }
    }
}
