//! C12 — blocking-style and poll-style adapters are lossless FIFO pipes (DESIGN.md §3 C12).
use iolib::c12;
use vcore::{Part, Session};

mod regress;

fn main() {
    let mut s = Session::new();
    // `c12 --from-bytes <libFuzzer artifact>`: convert to a JSON replay file and run it
    if let Some(bytes) = iolib::fuzz::from_bytes_arg(&s.args.rest) {
        let case = iolib::arb::adapter_case(&mut arbitrary::Unstructured::new(&bytes)).expect("decoding never fails");
        let path = iolib::fuzz::write_replay(&s.args.verif_dir, "C12", "adapters", &case);
        eprintln!("replay file: {}", path.display());
        s.args.replay = Some(path);
    }
    let mut p = Part::new("C12", "adapters", regress::RULE);
    p.quick_cases = 60_000;
    p.thorough_cases = 3_000_000;
    p.threads = 6;
    p.assumptions = regress::assumptions();
    p.regressions = regress::cases();
    s.run_part(p, c12::case_strategy(), c12::run_adapter);
    s.finish();
}
