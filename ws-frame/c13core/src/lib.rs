//! C13 — framing and ancillary codecs: round trip and hostile-input safety (DESIGN.md §3 C13).
//! Case types, interpreters, generators and the byte decoder shared by the `c13` check binary and
//! the libFuzzer target `c13_frames`.
pub mod cmsg;
pub mod frames;
pub mod gen;
pub mod mock;
pub mod unstructured;
