//! C11 part `loops`: the looping helpers of compio-io (`read_exact(_at)`, `read_to_end(_at)`,
//! `read_to_string(_at)`, `read_vectored_exact(_at)`, default `read_vectored(_at)`, `append`, `take`,
//! `write_all(_at)`, `write_vectored_all(_at)`, default `write_vectored(_at)`, `copy_with_size`) over
//! script-driven mock sources and sinks.
//!
//! Oracle: the mock records every call (window offered, position, result).  The reference is the
//! statement of the rustdoc applied to that trace: bytes delivered before the helper's stop
//! condition, in order, land in the destination window; nothing is requested after the stop
//! condition or beyond what is still needed (a byte taken from the source and not stored is lost);
//! `Interrupted` is retried; the first other error / premature `Ok(0)` surfaces as that kind /
//! `UnexpectedEof` / `WriteZero`; content outside the window is preserved.
use std::{io, mem::MaybeUninit};

use arrayvec::ArrayVec;
use compio_buf::{BufResult, IntoInner, IoBuf, IoBufExt, IoBufMut, IoBufMutExt, ReserveError, ReserveExactError, SetLen, Slice};
use compio_io::{AsyncRead, AsyncReadAt, AsyncReadAtExt, AsyncReadExt, AsyncWrite, AsyncWriteAt, AsyncWriteAtExt, AsyncWriteExt};
use serde::{Deserialize, Serialize};
use vcore::{
    mono_range,
    proptest::{collection::vec, option, prelude::*},
    Outcome,
};

use crate::{
    exec::block_on,
    mock::{shared, Call, CallKind, Shared, Sink, SinkAt, Src, SrcAt},
    pat::{errkind_strategy, payload_strategy, prefill, script_strategy, ErrKind, Payload, PayloadKind, Res, Xfer},
};

// ------------------------------------------------------------------------------------------------
// case type

#[derive(Debug, Clone, Copy, Serialize, Deserialize, PartialEq)]
pub enum DstKind {
    Vec,
    /// `[u8; 24]` (always fully initialised)
    Array24,
    /// `ArrayVec<u8, 24>`
    ArrayVec24,
    /// `vec.slice(a..b)` / `vec.slice(a..)`; `a` is mapped into `0..=prefill`, `b` into `a..=cap+2`
    VecSlice { a: u16, b: Option<u16> },
}

#[derive(Debug, Clone, Copy, Serialize, Deserialize)]
pub struct DstShape {
    /// bytes already in the buffer
    pub prefill: u8,
    /// spare capacity after them
    pub spare: u8,
    pub kind: DstKind,
}

/// Vectored destination: member capacities plus the number of already initialised bytes, which
/// are laid out in the canonical filled-in-order state (first members full, one partly filled,
/// the rest empty) that `SetLen` for vectored buffers presumes (same assumption as C10/vectored).
#[derive(Debug, Clone, Serialize, Deserialize)]
pub struct Members {
    pub caps: Vec<u8>,
    /// raw draw mapped into `0..=total capacity`
    pub filled: u16,
}

/// Shape of the buffer handed to a write helper; its visible bytes are the payload.
#[derive(Debug, Clone, Copy, Serialize, Deserialize, PartialEq)]
pub enum SrcShape {
    Vec,
    /// `vec.slice(a..b)`; `a` mapped into `0..=len`, `b` into `a..=len+2`
    Slice { a: u16, b: Option<u16> },
}

/// A position: raw draw mapped into `0..=len+6`; `far` = `u64::MAX` (read side only).
#[derive(Debug, Clone, Copy, Serialize, Deserialize)]
pub struct Pos {
    pub raw: u16,
    pub far: bool,
}

#[derive(Debug, Clone, Serialize, Deserialize)]
pub enum Helper {
    ReadExact { dst: DstShape },
    ReadExactAt { dst: DstShape, pos: Pos },
    ReadToEnd { prefill: u8, spare: u8 },
    ReadToEndAt { prefill: u8, spare: u8, pos: Pos },
    ReadToString { prefill: u8, spare: u8 },
    ReadToStringAt { prefill: u8, spare: u8, pos: Pos },
    ReadVecExact { members: Members, native: bool },
    ReadVecExactAt { members: Members, native: bool, pos: Pos },
    /// one call of the trait's default `read_vectored` / `read_vectored_at`
    ReadVectored { members: Members, at: Option<Pos> },
    Append { dst: DstShape },
    TakeToEnd { limit: u16 },
    TakeExact { limit: u16, n: u8 },
    WriteAll { src: SrcShape },
    WriteAllAt { src: SrcShape, pos: u8 },
    /// payload cut into members of these lengths (the last member takes the rest)
    WriteVecAll { cuts: Vec<u8>, native: bool },
    WriteVecAllAt { cuts: Vec<u8>, native: bool, pos: u8 },
    /// one call of the trait's default `write_vectored` / `write_vectored_at`
    WriteVectored { cuts: Vec<u8>, at: Option<u8> },
    Copy { buf_size: u8, sink_script: Vec<Xfer>, flush_err: Option<ErrKind> },
}

#[derive(Debug, Clone, Serialize, Deserialize)]
pub struct HelperCase {
    pub helper: Helper,
    pub payload: Payload,
    pub script: Vec<Xfer>,
}

// ------------------------------------------------------------------------------------------------
// destination buffers: one enum that forwards the compio-buf traits

pub enum DstBuf {
    Vec(Vec<u8>),
    Arr([u8; 24]),
    Av(ArrayVec<u8, 24>),
    Sl(Slice<Vec<u8>>),
}

impl IoBuf for DstBuf {
    fn as_init(&self) -> &[u8] {
        match self {
            DstBuf::Vec(b) => b.as_init(),
            DstBuf::Arr(b) => b.as_init(),
            DstBuf::Av(b) => b.as_init(),
            DstBuf::Sl(b) => b.as_init(),
        }
    }
}

impl SetLen for DstBuf {
    unsafe fn set_len(&mut self, len: usize) {
        unsafe {
            match self {
                DstBuf::Vec(b) => SetLen::set_len(b, len),
                DstBuf::Arr(b) => SetLen::set_len(b, len),
                DstBuf::Av(b) => SetLen::set_len(b, len),
                DstBuf::Sl(b) => SetLen::set_len(b, len),
            }
        }
    }
}

impl IoBufMut for DstBuf {
    fn as_uninit(&mut self) -> &mut [MaybeUninit<u8>] {
        match self {
            DstBuf::Vec(b) => b.as_uninit(),
            DstBuf::Arr(b) => b.as_uninit(),
            DstBuf::Av(b) => b.as_uninit(),
            DstBuf::Sl(b) => b.as_uninit(),
        }
    }

    fn reserve(&mut self, len: usize) -> Result<(), ReserveError> {
        match self {
            DstBuf::Vec(b) => IoBufMut::reserve(b, len),
            DstBuf::Arr(b) => IoBufMut::reserve(b, len),
            DstBuf::Av(b) => IoBufMut::reserve(b, len),
            DstBuf::Sl(b) => IoBufMut::reserve(b, len),
        }
    }

    fn reserve_exact(&mut self, len: usize) -> Result<(), ReserveExactError> {
        match self {
            DstBuf::Vec(b) => IoBufMut::reserve_exact(b, len),
            DstBuf::Arr(b) => IoBufMut::reserve_exact(b, len),
            DstBuf::Av(b) => IoBufMut::reserve_exact(b, len),
            DstBuf::Sl(b) => IoBufMut::reserve_exact(b, len),
        }
    }
}

pub fn vec_with(prefill_len: usize, spare: usize) -> Vec<u8> {
    let mut v = Vec::with_capacity(prefill_len + spare);
    v.extend_from_slice(&prefill(prefill_len));
    v
}

/// The destination, the model of its root content, and the window `[a, a+n)` a read fills.
pub struct Dst {
    pub buf: DstBuf,
    /// root content before the read
    pub pre: Vec<u8>,
    /// window start inside the root
    pub a: usize,
    /// window length (the buffer's `buf_capacity()`)
    pub n: usize,
    /// the root reports a fixed length (arrays)
    pub fixed: bool,
    pub label: &'static str,
}

pub fn build_dst(s: &DstShape) -> Dst {
    let (p, sp) = (s.prefill as usize, s.spare as usize);
    let mut d = match s.kind {
        DstKind::Vec => Dst { buf: DstBuf::Vec(vec_with(p, sp)), pre: prefill(p), a: 0, n: 0, fixed: false, label: "dst:vec" },
        DstKind::Array24 => {
            let pre = prefill(24);
            let mut arr = [0u8; 24];
            arr.copy_from_slice(&pre);
            Dst { buf: DstBuf::Arr(arr), pre, a: 0, n: 0, fixed: true, label: "dst:array" }
        }
        DstKind::ArrayVec24 => {
            let p = p.min(24);
            let mut av = ArrayVec::<u8, 24>::new();
            av.try_extend_from_slice(&prefill(p)).unwrap();
            Dst { buf: DstBuf::Av(av), pre: prefill(p), a: 0, n: 0, fixed: false, label: "dst:arrayvec" }
        }
        DstKind::VecSlice { a, b } => {
            let v = vec_with(p, sp);
            let cap = v.capacity();
            let a = mono_range(a, 0, p);
            let sl = match b {
                Some(b) => v.slice(a..mono_range(b, a, cap + 2)),
                None => v.slice(a..),
            };
            Dst { buf: DstBuf::Sl(sl), pre: prefill(p), a, n: 0, fixed: false, label: "dst:slice" }
        }
    };
    d.n = d.buf.buf_capacity();
    d
}

impl DstBuf {
    pub fn root(self) -> Vec<u8> {
        match self {
            DstBuf::Vec(v) => v,
            DstBuf::Arr(a) => a.to_vec(),
            DstBuf::Av(a) => a.to_vec(),
            DstBuf::Sl(s) => s.into_inner(),
        }
    }
}

// ------------------------------------------------------------------------------------------------
// trace judges

#[derive(Debug, Clone, Copy, PartialEq, Eq)]
pub enum End {
    /// all bytes that were needed have been transferred
    Complete,
    /// the mock answered `Ok(0)` to a non-empty request
    Zero,
    Failed(io::ErrorKind),
    /// the helper stopped calling although none of the above happened
    Running,
}

pub struct Verdict {
    pub moved: usize,
    pub end: End,
    pub calls: usize,
}

pub fn viol(tag: &str, what: &str, detail: String) -> Outcome {
    Outcome::violation(format!("C11/{tag}/{what}"), detail)
}

/// Judge the read calls a helper made.  `need`: bytes the helper has to obtain (`None` = until
/// EOF); `limit(moved)`: the largest window the helper may offer when `moved` bytes are in.
pub fn judge_reads(tag: &str, calls: &[Call], need: Option<usize>, pos0: Option<u64>, limit: &dyn Fn(usize) -> usize) -> Result<Verdict, Outcome> {
    let mut moved = 0usize;
    let mut end = End::Running;
    let mut n = 0;
    for (i, c) in calls.iter().enumerate() {
        if c.kind != CallKind::Read {
            continue;
        }
        n += 1;
        if end != End::Running || need == Some(moved) {
            return Err(viol(tag, "call-after-stop", format!("read call #{i} {c:?} after the helper's stop condition (moved {moved}, end {end:?}): bytes it takes from the source are lost")));
        }
        if c.offered == 0 {
            if c.avail > 0 {
                return Err(viol(
                    tag,
                    "zero-capacity-read",
                    format!("read call #{i} offered an empty window while data is still wanted and the source still holds {} bytes; its Ok(0) cannot be told from EOF", c.avail),
                ));
            }
            // the source is exhausted anyway: Ok(0) is a truthful EOF
            end = End::Zero;
            continue;
        }
        if c.offered > limit(moved) {
            return Err(viol(tag, "over-read", format!("read call #{i} offered a window of {} bytes but only {} may still be stored (moved {moved})", c.offered, limit(moved))));
        }
        if let (Some(p0), Some(p)) = (pos0, c.pos) {
            let want = p0.wrapping_add(moved as u64);
            if p != want {
                return Err(viol(tag, "wrong-position", format!("read call #{i} at position {p}, expected {want} (start {p0} + {moved} moved)")));
            }
        }
        match c.res {
            Ok(0) => end = End::Zero,
            Ok(k) => moved += k,
            Err(io::ErrorKind::Interrupted) => {}
            Err(k) => end = End::Failed(k),
        }
    }
    if end == End::Running && need == Some(moved) {
        end = End::Complete;
    }
    Ok(Verdict { moved, end, calls: n })
}

/// Judge the write calls a helper made for `data` (stream: `pos0 = None`).
pub fn judge_writes(tag: &str, calls: &[Call], data: &[u8], pos0: Option<u64>) -> Result<Verdict, Outcome> {
    let mut moved = 0usize;
    let mut end = End::Running;
    let mut n = 0;
    for (i, c) in calls.iter().enumerate() {
        if c.kind != CallKind::Write {
            continue;
        }
        n += 1;
        if end != End::Running || moved == data.len() {
            return Err(viol(tag, "call-after-stop", format!("write call #{i} (len {}) after the helper's stop condition (moved {moved}/{}, end {end:?})", c.offered, data.len())));
        }
        if c.offered == 0 {
            return Err(viol(tag, "zero-length-write", format!("write call #{i} offered no bytes while {} are still unwritten; its Ok(0) reads as WriteZero", data.len() - moved)));
        }
        if moved + c.offered > data.len() || c.data != data[moved..moved + c.offered] {
            return Err(viol(tag, "wrong-bytes-offered", format!("write call #{i} offered {:?}, expected a prefix of the unwritten rest {:?} (moved {moved})", c.data, &data[moved..])));
        }
        if let (Some(p0), Some(p)) = (pos0, c.pos) {
            let want = p0 + moved as u64;
            if p != want {
                return Err(viol(tag, "wrong-position", format!("write call #{i} at position {p}, expected {want}")));
            }
        }
        match c.res {
            Ok(0) => end = End::Zero,
            Ok(k) => moved += k,
            Err(io::ErrorKind::Interrupted) => {}
            Err(k) => end = End::Failed(k),
        }
    }
    if end == End::Running && moved == data.len() {
        end = End::Complete;
    }
    Ok(Verdict { moved, end, calls: n })
}

/// Compare the helper's result with what the trace demands.  `ok` = value of a successful
/// result, `zero_kind` = error kind an `Ok(0)` turns into.
pub fn expect_result(tag: &str, v: &Verdict, got: Res, ok: usize, zero: Res) -> Result<(), Outcome> {
    let want = match v.end {
        End::Complete => Res::Ok(ok),
        End::Zero => zero,
        End::Failed(k) => Res::Err(k),
        End::Running => {
            return Err(viol(tag, "stopped-early", format!("the helper returned {got:?} after {} calls although {} bytes were moved and nothing ended the transfer", v.calls, v.moved)));
        }
    };
    if got != want {
        let what = match (got, want) {
            (Res::Ok(_), Res::Err(_)) => "error-swallowed",
            (Res::Err(io::ErrorKind::Interrupted), _) => "interrupted-not-retried",
            (Res::Err(_), Res::Ok(_)) => "spurious-error",
            (Res::Err(_), Res::Err(_)) => "wrong-error-kind",
            (Res::Ok(_), Res::Ok(_)) => "wrong-count",
        };
        return Err(viol(tag, what, format!("helper returned {got:?}, the trace demands {want:?} (moved {}, end {:?})", v.moved, v.end)));
    }
    Ok(())
}

/// Features of the transfer for the non-triviality rule.
pub fn trace_labels(calls: &[Call], labels: &mut Vec<String>) -> bool {
    let mut sizes: Vec<usize> = vec![];
    let mut errs = 0;
    let mut intr = 0;
    let mut xfers = 0;
    for c in calls {
        match c.res {
            Ok(n) if matches!(c.kind, CallKind::Read | CallKind::Write) && c.offered > 0 => {
                xfers += 1;
                if !sizes.contains(&n) {
                    sizes.push(n);
                }
            }
            Err(io::ErrorKind::Interrupted) => intr += 1,
            Err(_) => errs += 1,
            _ => {}
        }
    }
    if intr > 0 {
        labels.push("interrupted".into());
    }
    if errs > 0 {
        labels.push("error-injected".into());
    }
    if xfers >= 2 {
        labels.push("multi-call".into());
    }
    if sizes.contains(&0) {
        labels.push("ok0".into());
    }
    (xfers >= 2 && sizes.len() >= 2) || intr > 0 || errs > 0
}

// ------------------------------------------------------------------------------------------------
// interpreter

fn pos_of(p: Pos, len: usize) -> u64 {
    if p.far {
        u64::MAX
    } else {
        mono_range(p.raw, 0, len + 6) as u64
    }
}

/// Root content a read into the window must leave behind when `moved` bytes went in order into it.
fn check_window(tag: &str, d_pre: &[u8], a: usize, n: usize, fixed: bool, root: &[u8], delivered: &[u8], complete: bool) -> Result<(), Outcome> {
    // pre-existing content outside the window
    if root.len() < a.min(d_pre.len()) || root[..a] != d_pre[..a] {
        return Err(viol(tag, "prefix-overwritten", format!("bytes before the window changed: root {:?}, pre-image {:?}, window starts at {a}", root, d_pre)));
    }
    if d_pre.len() > a + n {
        let tail = &d_pre[a + n..];
        if root.len() < d_pre.len() || &root[a + n..d_pre.len()] != tail {
            return Err(viol(tag, "suffix-overwritten", format!("bytes after the window [{a},{}) changed: root {:?}, pre-image {:?}", a + n, root, d_pre)));
        }
    }
    if complete {
        let want_len = if fixed { d_pre.len() } else { d_pre.len().max(a + delivered.len()) };
        if root.len() != want_len {
            return Err(viol(tag, "wrong-length", format!("root length {} after the read, expected {want_len} (window at {a}, {} bytes delivered)", root.len(), delivered.len())));
        }
        if root[a..a + delivered.len()] != *delivered {
            return Err(viol(tag, "wrong-bytes", format!("window holds {:?}, the source delivered {:?}", &root[a..a + delivered.len()], delivered)));
        }
    }
    Ok(())
}

fn mk_members(ms: &Members) -> (Vec<Vec<u8>>, Vec<usize>) {
    let total: usize = ms.caps.iter().map(|c| *c as usize).sum();
    let mut left = mono_range(ms.filled, 0, total);
    let bufs: Vec<Vec<u8>> = ms
        .caps
        .iter()
        .map(|c| {
            let k = left.min(*c as usize);
            left -= k;
            vec_with(k, *c as usize - k)
        })
        .collect();
    let caps = bufs.iter().map(|b| b.capacity()).collect();
    (bufs, caps)
}

fn cut(data: &[u8], cuts: &[u8]) -> Vec<Vec<u8>> {
    let mut out = vec![];
    let mut rest = data;
    for c in cuts {
        let k = (*c as usize).min(rest.len());
        out.push(rest[..k].to_vec());
        rest = &rest[k..];
    }
    out.push(rest.to_vec());
    out
}

macro_rules! try_o {
    ($e:expr) => {
        match $e {
            Ok(v) => v,
            Err(o) => return o,
        }
    };
}

pub fn run_helper(case: &HelperCase) -> Outcome {
    let data = case.payload.bytes();
    let sh: Shared = shared(data.clone(), case.script.clone());
    let mut labels: Vec<String> = vec![];
    let unlimited = |_: usize| usize::MAX;

    match &case.helper {
        // ---------------------------------------------------------------- read_exact(_at)
        Helper::ReadExact { dst } | Helper::ReadExactAt { dst, .. } => {
            let at = if let Helper::ReadExactAt { pos, .. } = &case.helper { Some(pos_of(*pos, data.len())) } else { None };
            let tag = if at.is_some() { "read_exact_at" } else { "read_exact" };
            labels.push(tag.into());
            let d = build_dst(dst);
            labels.push(d.label.into());
            let n = d.n;
            let BufResult(res, buf) = match at {
                None => block_on(Src::<false>(sh.clone()).read_exact(d.buf)),
                Some(p) => block_on(SrcAt::<false>(sh.clone()).read_exact_at(d.buf, p)),
            };
            let st = sh.borrow();
            let v = try_o!(judge_reads(tag, &st.calls, Some(n), at, &|m| n - m));
            try_o!(expect_result(tag, &v, Res::of_unit(&res), 0, Res::Err(io::ErrorKind::UnexpectedEof)));
            let start = at.map(|p| p.min(data.len() as u64) as usize).unwrap_or(0);
            let delivered = &data[start..start + v.moved];
            let root = buf.root();
            try_o!(check_window(tag, &d.pre, d.a, n, d.fixed, &root, delivered, v.end == End::Complete));
            if at.is_none() && st.pos != v.moved {
                return viol(tag, "source-overconsumed", format!("source cursor {} but {} bytes were delivered", st.pos, v.moved));
            }
            if at == Some(u64::MAX) {
                labels.push("pos:max".into());
            } else if at.is_some_and(|p| p as usize > data.len()) {
                labels.push("pos:beyond-end".into());
            }
            if n == 0 {
                labels.push("cap0".into());
            }
            labels.push(format!("end:{}", end_label(v.end)));
            let nt = trace_labels(&st.calls, &mut labels);
            Outcome::pass_owned(nt, labels)
        }
        // ---------------------------------------------------------------- read_to_end(_at) / read_to_string(_at)
        Helper::ReadToEnd { prefill: pf, spare }
        | Helper::ReadToEndAt { prefill: pf, spare, .. }
        | Helper::ReadToString { prefill: pf, spare }
        | Helper::ReadToStringAt { prefill: pf, spare, .. } => {
            let (at, string) = match &case.helper {
                Helper::ReadToEnd { .. } => (None, false),
                Helper::ReadToEndAt { pos, .. } => (Some(pos_of(*pos, data.len())), false),
                Helper::ReadToString { .. } => (None, true),
                Helper::ReadToStringAt { pos, .. } => (Some(pos_of(*pos, data.len())), true),
                _ => unreachable!(),
            };
            let tag = match (at.is_some(), string) {
                (false, false) => "read_to_end",
                (true, false) => "read_to_end_at",
                (false, true) => "read_to_string",
                (true, true) => "read_to_string_at",
            };
            labels.push(tag.into());
            let pre = prefill(*pf as usize);
            let v0 = vec_with(*pf as usize, *spare as usize);
            if *pf > 0 {
                labels.push("prefilled".into());
            }
            if *spare == 0 {
                labels.push("spare0".into());
            }
            // run
            let (res, out, out_is_string): (io::Result<usize>, Vec<u8>, bool) = if string {
                let s0 = String::from_utf8(v0).expect("prefill is ASCII");
                let BufResult(res, s) = match at {
                    None => block_on(Src::<false>(sh.clone()).read_to_string(s0)),
                    Some(p) => block_on(SrcAt::<false>(sh.clone()).read_to_string_at(s0, p)),
                };
                if std::str::from_utf8(s.as_bytes()).is_err() {
                    return viol(tag, "string-not-utf8", format!("returned String holds invalid UTF-8: {:?}", s.as_bytes()));
                }
                (res, s.into_bytes(), true)
            } else {
                let BufResult(res, b) = match at {
                    None => block_on(Src::<false>(sh.clone()).read_to_end(v0)),
                    Some(p) => block_on(SrcAt::<false>(sh.clone()).read_to_end_at(v0, p)),
                };
                (res, b, false)
            };
            let st = sh.borrow();
            let v = try_o!(judge_reads(tag, &st.calls, None, at, &unlimited));
            let start = at.map(|p| p.min(data.len() as u64) as usize).unwrap_or(0);
            let delivered = &data[start..start + v.moved];
            let valid = std::str::from_utf8(delivered).is_ok();
            // the trace demands: EOF => Ok(total); for strings invalid UTF-8 => InvalidData
            let mut vv = Verdict { moved: v.moved, end: v.end, calls: v.calls };
            if vv.end == End::Zero {
                vv.end = if string && !valid { End::Failed(io::ErrorKind::InvalidData) } else { End::Complete };
            }
            try_o!(expect_result(tag, &vv, Res::of(&res), v.moved, Res::Ok(v.moved)));
            if at.is_none() && st.pos != v.moved {
                return viol(tag, "source-overconsumed", format!("source cursor {} but {} bytes were delivered", st.pos, v.moved));
            }
            if res.is_ok() {
                // "All bytes read from this source will be appended to the specified buffer"
                let mut want = pre.clone();
                want.extend_from_slice(delivered);
                if out != want {
                    // the unchanged tree's shape: the delivered bytes laid over the old content from offset 0
                    let mut overlay = pre.clone();
                    if overlay.len() < delivered.len() {
                        overlay.resize(delivered.len(), 0);
                    }
                    overlay[..delivered.len()].copy_from_slice(delivered);
                    let what = if !pre.is_empty() && !delivered.is_empty() && out == overlay {
                        "prefill-overwritten"
                    } else if !pre.is_empty() && (out.len() < pre.len() || out[..pre.len()] != pre[..]) {
                        "prefill-damaged"
                    } else if out.len() >= pre.len() && out[pre.len()..] != *delivered {
                        "wrong-bytes"
                    } else {
                        "wrong-content"
                    };
                    return viol(
                        tag,
                        what,
                        format!(
                            "buffer after Ok({}) is {:?}; pre-existing content {:?} followed by the {} delivered bytes {:?} was expected (appended, not overwritten)",
                            v.moved,
                            String::from_utf8_lossy(&out),
                            String::from_utf8_lossy(&pre),
                            delivered.len(),
                            String::from_utf8_lossy(delivered)
                        ),
                    );
                }
            } else if !out_is_string && !pre.is_empty() && v.moved == 0 && out != pre {
                // an error before any byte arrived must leave the buffer as it was
                return viol(tag, "prefill-lost-on-error", format!("no byte was delivered, yet the buffer changed from {:?} to {:?}", pre, out));
            }
            if string {
                labels.push(if valid { "utf8:valid".into() } else { "utf8:invalid".into() });
            }
            labels.push(format!("end:{}", end_label(v.end)));
            let nt = trace_labels(&st.calls, &mut labels);
            Outcome::pass_owned(nt, labels)
        }
        // ---------------------------------------------------------------- read_vectored_exact(_at)
        Helper::ReadVecExact { members, native } | Helper::ReadVecExactAt { members, native, .. } => {
            let at = if let Helper::ReadVecExactAt { pos, .. } = &case.helper { Some(pos_of(*pos, data.len())) } else { None };
            let tag = if at.is_some() { "read_vectored_exact_at" } else { "read_vectored_exact" };
            labels.push(tag.into());
            labels.push(if *native { "vectored:native".into() } else { "vectored:default".into() });
            let (bufs, caps) = mk_members(members);
            let pres: Vec<Vec<u8>> = bufs.clone();
            let total: usize = caps.iter().sum();
            if pres.iter().any(|m| !m.is_empty()) {
                labels.push("member-prefilled".into());
            }
            if caps.iter().any(|c| *c == 0) {
                labels.push("member-cap0".into());
            }
            let BufResult(res, out) = match (at, *native) {
                (None, false) => block_on(Src::<false>(sh.clone()).read_vectored_exact(bufs)),
                (None, true) => block_on(Src::<true>(sh.clone()).read_vectored_exact(bufs)),
                (Some(p), false) => block_on(SrcAt::<false>(sh.clone()).read_vectored_exact_at(bufs, p)),
                (Some(p), true) => block_on(SrcAt::<true>(sh.clone()).read_vectored_exact_at(bufs, p)),
            };
            let st = sh.borrow();
            let v = try_o!(judge_reads(tag, &st.calls, Some(total), at, &|m| total - m));
            try_o!(expect_result(tag, &v, Res::of_unit(&res), 0, Res::Err(io::ErrorKind::UnexpectedEof)));
            if at.is_none() && st.pos != v.moved {
                return viol(tag, "source-overconsumed", format!("source cursor {} but {} bytes were delivered", st.pos, v.moved));
            }
            if out.len() != caps.len() {
                return viol(tag, "members-changed", format!("{} members went in, {} came back", caps.len(), out.len()));
            }
            if v.end == End::Complete {
                let start = at.map(|p| p.min(data.len() as u64) as usize).unwrap_or(0);
                let mut off = start;
                for (i, (m, cap)) in out.iter().zip(&caps).enumerate() {
                    // a member without capacity is never touched; every other one is filled to its capacity
                    let want: Vec<u8> = if *cap == 0 { pres[i].clone() } else { data[off..off + cap].to_vec() };
                    if *m != want {
                        return viol(tag, "wrong-bytes", format!("member #{i} (capacity {cap}) holds {:?}, expected {:?} (stream offset {off})", m, want));
                    }
                    off += cap;
                }
            }
            labels.push(format!("end:{}", end_label(v.end)));
            let nt = trace_labels(&st.calls, &mut labels);
            Outcome::pass_owned(nt, labels)
        }
        // ---------------------------------------------------------------- default read_vectored(_at), one call
        Helper::ReadVectored { members, at } => {
            let at = at.map(|p| pos_of(p, data.len()));
            let tag = if at.is_some() { "read_vectored_at(default)" } else { "read_vectored(default)" };
            labels.push(tag.into());
            let (bufs, caps) = mk_members(members);
            let pres = bufs.clone();
            let BufResult(res, out) = match at {
                None => block_on(Src::<false>(sh.clone()).read_vectored(bufs)),
                Some(p) => block_on(SrcAt::<false>(sh.clone()).read_vectored_at(bufs, p)),
            };
            let st = sh.borrow();
            // "read only to first buffer in `buf` with non-zero capacity and return"
            let first = caps.iter().position(|c| *c > 0);
            let reads: Vec<&Call> = st.calls.iter().filter(|c| c.kind == CallKind::Read).collect();
            match first {
                None => {
                    if !reads.is_empty() || Res::of(&res) != Res::Ok(0) {
                        return viol(tag, "no-capacity", format!("no member has capacity: expected Ok(0) without a call, got {:?} after {} calls", Res::of(&res), reads.len()));
                    }
                }
                Some(ix) => {
                    if reads.len() != 1 || reads[0].offered != caps[ix] {
                        return viol(tag, "wrong-call", format!("expected exactly one read of {} bytes (member #{ix}), saw {:?}", caps[ix], reads));
                    }
                    if let (Some(p), Some(q)) = (at, reads[0].pos) {
                        if p != q {
                            return viol(tag, "wrong-position", format!("read at {q}, expected {p}"));
                        }
                    }
                    let want = match reads[0].res {
                        Ok(n) => Res::Ok(n),
                        Err(k) => Res::Err(k),
                    };
                    if Res::of(&res) != want {
                        return viol(tag, "result-not-forwarded", format!("mock answered {want:?}, helper returned {:?}", Res::of(&res)));
                    }
                    if out.len() != caps.len() {
                        return viol(tag, "members-changed", format!("{} members went in, {} came back", caps.len(), out.len()));
                    }
                    if let Ok(n) = reads[0].res {
                        let start = at.map(|p| p.min(data.len() as u64) as usize).unwrap_or(0);
                        for (i, m) in out.iter().enumerate() {
                            if i == ix {
                                let mut want = data[start..start + n].to_vec();
                                if pres[i].len() > n {
                                    want.extend_from_slice(&pres[i][n..]);
                                }
                                if *m != want {
                                    return viol(tag, "wrong-bytes", format!("member #{i} holds {:?}, expected {:?}", m, want));
                                }
                            } else if *m != pres[i] {
                                return viol(tag, "other-member-changed", format!("member #{i} changed from {:?} to {:?}", pres[i], m));
                            }
                        }
                    }
                }
            }
            let nt = trace_labels(&st.calls, &mut labels) || (first.is_some_and(|i| i > 0));
            if first.is_some_and(|i| i > 0) {
                labels.push("skips-cap0-member".into());
            }
            Outcome::pass_owned(nt, labels)
        }
        // ---------------------------------------------------------------- append
        Helper::Append { dst } => {
            let tag = "append";
            labels.push(tag.into());
            let d = build_dst(dst);
            labels.push(d.label.into());
            // append fills the uninitialised area: window = [a + visible len, a + n)
            let vis = d.buf.buf_len();
            let BufResult(res, buf) = block_on(Src::<false>(sh.clone()).append(d.buf));
            let st = sh.borrow();
            let reads: Vec<&Call> = st.calls.iter().filter(|c| c.kind == CallKind::Read).collect();
            if reads.len() != 1 {
                return viol(tag, "wrong-call", format!("expected exactly one read, saw {:?}", reads));
            }
            if reads[0].offered != d.n - vis {
                return viol(tag, "wrong-window", format!("append offered {} bytes; the uninitialised area has {} (capacity {}, initialised {vis})", reads[0].offered, d.n - vis, d.n));
            }
            let want = match reads[0].res {
                Ok(n) => Res::Ok(n),
                Err(k) => Res::Err(k),
            };
            if Res::of(&res) != want {
                return viol(tag, "result-not-forwarded", format!("mock answered {want:?}, helper returned {:?}", Res::of(&res)));
            }
            let n = reads[0].res.unwrap_or(0);
            let root = buf.root();
            // everything that was visible before is preserved, the new bytes follow it
            let a2 = d.a + vis;
            try_o!(check_window(tag, &d.pre, a2.min(d.pre.len()), d.n - vis, d.fixed, &root, &data[..n], !d.fixed || true));
            if d.n == vis {
                labels.push("no-spare".into());
            }
            let nt = trace_labels(&st.calls, &mut labels) || (vis > 0 && n > 0);
            Outcome::pass_owned(nt, labels)
        }
        // ---------------------------------------------------------------- take
        Helper::TakeToEnd { limit } => {
            let tag = "take+read_to_end";
            labels.push(tag.into());
            let limit = *limit as usize;
            let mut t = Src::<false>(sh.clone()).take(limit as u64);
            let BufResult(res, out) = block_on(t.read_to_end(Vec::new()));
            let st = sh.borrow();
            let v = try_o!(judge_reads(tag, &st.calls, Some(limit), None, &|m| limit - m));
            // reaching the limit and reaching EOF both end the transfer successfully
            try_o!(expect_result(tag, &v, Res::of(&res), v.moved, Res::Ok(v.moved)));
            if res.is_ok() && out != data[..v.moved] {
                return viol(tag, "wrong-bytes", format!("got {:?}, the source delivered {:?}", out, &data[..v.moved]));
            }
            if t.limit() != (limit - v.moved) as u64 {
                return viol(tag, "limit-not-decremented", format!("limit() is {} after {} of {limit} bytes", t.limit(), v.moved));
            }
            if st.pos != v.moved {
                return viol(tag, "source-overconsumed", format!("source cursor {} but {} bytes were delivered", st.pos, v.moved));
            }
            labels.push(if limit < data.len() { "limit<len".into() } else { "limit>=len".into() });
            labels.push(format!("end:{}", end_label(v.end)));
            let nt = trace_labels(&st.calls, &mut labels);
            Outcome::pass_owned(nt, labels)
        }
        Helper::TakeExact { limit, n } => {
            let tag = "take+read_exact";
            labels.push(tag.into());
            let (limit, n) = (*limit as usize, *n as usize);
            let mut t = Src::<false>(sh.clone()).take(limit as u64);
            let buf = Vec::with_capacity(n);
            let n = buf.capacity();
            let BufResult(res, out) = block_on(t.read_exact(buf));
            let st = sh.borrow();
            let need = n.min(limit);
            let mut v = try_o!(judge_reads(tag, &st.calls, Some(need), None, &|m| need - m));
            if v.end == End::Complete && limit < n {
                // the limit is hit before the buffer is full: Take answers Ok(0) => UnexpectedEof
                v.end = End::Zero;
            }
            try_o!(expect_result(tag, &v, Res::of_unit(&res), 0, Res::Err(io::ErrorKind::UnexpectedEof)));
            if res.is_ok() && out != data[..n] {
                return viol(tag, "wrong-bytes", format!("got {:?}, the source delivered {:?}", out, &data[..n]));
            }
            if st.pos != v.moved {
                return viol(tag, "source-overconsumed", format!("source cursor {} but {} bytes were delivered", st.pos, v.moved));
            }
            if t.limit() != (limit - v.moved) as u64 {
                return viol(tag, "limit-not-decremented", format!("limit() is {} after {} of {limit} bytes", t.limit(), v.moved));
            }
            labels.push(if limit < n { "limit<n".into() } else { "limit>=n".into() });
            labels.push(format!("end:{}", end_label(v.end)));
            let nt = trace_labels(&st.calls, &mut labels);
            Outcome::pass_owned(nt, labels)
        }
        // ---------------------------------------------------------------- write_all(_at)
        Helper::WriteAll { src } | Helper::WriteAllAt { src, .. } => {
            let at = if let Helper::WriteAllAt { pos, .. } = &case.helper { Some(*pos as u64) } else { None };
            let tag = if at.is_some() { "write_all_at" } else { "write_all" };
            labels.push(tag.into());
            let wsh = shared(vec![], case.script.clone());
            let (res, back, visible): (io::Result<()>, Vec<u8>, Vec<u8>) = match *src {
                SrcShape::Vec => {
                    let BufResult(res, b) = match at {
                        None => block_on(Sink::<false>(wsh.clone()).write_all(data.clone())),
                        Some(p) => block_on(SinkAt::<false>(wsh.clone()).write_all_at(data.clone(), p)),
                    };
                    (res, b, data.clone())
                }
                SrcShape::Slice { a, b } => {
                    labels.push("src:slice".into());
                    let a = mono_range(a, 0, data.len());
                    let sl = match b {
                        Some(b) => data.clone().slice(a..mono_range(b, a, data.len() + 2)),
                        None => data.clone().slice(a..),
                    };
                    let visible = sl.as_init().to_vec();
                    let BufResult(res, s) = match at {
                        None => block_on(Sink::<false>(wsh.clone()).write_all(sl)),
                        Some(p) => block_on(SinkAt::<false>(wsh.clone()).write_all_at(sl, p)),
                    };
                    (res, s.into_inner(), visible)
                }
            };
            if back != data {
                return viol(tag, "source-buffer-changed", format!("the buffer handed to the helper came back as {:?}", back));
            }
            let st = wsh.borrow();
            let v = try_o!(judge_writes(tag, &st.calls, &visible, at));
            try_o!(expect_result(tag, &v, Res::of_unit(&res), 0, Res::Err(io::ErrorKind::WriteZero)));
            try_o!(check_sink(tag, &st, &visible[..v.moved], at));
            labels.push(format!("end:{}", end_label(v.end)));
            let nt = trace_labels(&st.calls, &mut labels);
            Outcome::pass_owned(nt, labels)
        }
        // ---------------------------------------------------------------- write_vectored_all(_at)
        Helper::WriteVecAll { cuts, native } | Helper::WriteVecAllAt { cuts, native, .. } => {
            let at = if let Helper::WriteVecAllAt { pos, .. } = &case.helper { Some(*pos as u64) } else { None };
            let tag = if at.is_some() { "write_vectored_all_at" } else { "write_vectored_all" };
            labels.push(tag.into());
            labels.push(if *native { "vectored:native".into() } else { "vectored:default".into() });
            let wsh = shared(vec![], case.script.clone());
            let members = cut(&data, cuts);
            if members.iter().any(|m| m.is_empty()) {
                labels.push("member-empty".into());
            }
            let BufResult(res, back) = match (at, *native) {
                (None, false) => block_on(Sink::<false>(wsh.clone()).write_vectored_all(members.clone())),
                (None, true) => block_on(Sink::<true>(wsh.clone()).write_vectored_all(members.clone())),
                (Some(p), false) => block_on(SinkAt::<false>(wsh.clone()).write_vectored_all_at(members.clone(), p)),
                (Some(p), true) => block_on(SinkAt::<true>(wsh.clone()).write_vectored_all_at(members.clone(), p)),
            };
            if back != members {
                return viol(tag, "source-buffer-changed", format!("the members handed to the helper came back as {:?}", back));
            }
            let st = wsh.borrow();
            let v = try_o!(judge_writes(tag, &st.calls, &data, at));
            try_o!(expect_result(tag, &v, Res::of_unit(&res), 0, Res::Err(io::ErrorKind::WriteZero)));
            try_o!(check_sink(tag, &st, &data[..v.moved], at));
            labels.push(format!("end:{}", end_label(v.end)));
            let nt = trace_labels(&st.calls, &mut labels);
            Outcome::pass_owned(nt, labels)
        }
        // ---------------------------------------------------------------- default write_vectored(_at), one call
        Helper::WriteVectored { cuts, at } => {
            let at = at.map(|p| p as u64);
            let tag = if at.is_some() { "write_vectored_at(default)" } else { "write_vectored(default)" };
            labels.push(tag.into());
            let wsh = shared(vec![], case.script.clone());
            let members = cut(&data, cuts);
            let BufResult(res, back) = match at {
                None => block_on(Sink::<false>(wsh.clone()).write_vectored(members.clone())),
                Some(p) => block_on(SinkAt::<false>(wsh.clone()).write_vectored_at(members.clone(), p)),
            };
            if back != members {
                return viol(tag, "source-buffer-changed", format!("the members handed to the helper came back as {:?}", back));
            }
            let st = wsh.borrow();
            let writes: Vec<&Call> = st.calls.iter().filter(|c| c.kind == CallKind::Write).collect();
            // "write from the first buffers with non-zero buf_len"
            match members.iter().position(|m| !m.is_empty()) {
                None => {
                    if !writes.is_empty() || Res::of(&res) != Res::Ok(0) {
                        return viol(tag, "no-data", format!("all members empty: expected Ok(0) without a call, got {:?} after {} calls", Res::of(&res), writes.len()));
                    }
                }
                Some(ix) => {
                    if writes.len() != 1 || writes[0].data != members[ix] || writes[0].pos != at {
                        return viol(tag, "wrong-call", format!("expected exactly one write of member #{ix} {:?} at {:?}, saw {:?}", members[ix], at, writes));
                    }
                    let want = match writes[0].res {
                        Ok(n) => Res::Ok(n),
                        Err(k) => Res::Err(k),
                    };
                    if Res::of(&res) != want {
                        return viol(tag, "result-not-forwarded", format!("mock answered {want:?}, helper returned {:?}", Res::of(&res)));
                    }
                    if ix > 0 {
                        labels.push("skips-empty-member".into());
                    }
                }
            }
            let nt = trace_labels(&st.calls, &mut labels) || members.iter().position(|m| !m.is_empty()).is_some_and(|i| i > 0);
            Outcome::pass_owned(nt, labels)
        }
        // ---------------------------------------------------------------- copy
        Helper::Copy { buf_size, sink_script, flush_err } => {
            let tag = "copy";
            labels.push(tag.into());
            let size = copy_size(*buf_size);
            labels.push(format!("copy-buf:{size}"));
            let wsh = shared(vec![], sink_script.clone());
            if let Some(k) = flush_err {
                wsh.borrow_mut().flush_errs.push(*k);
            }
            let mut r = Src::<false>(sh.clone());
            let mut w = Sink::<false>(wsh.clone());
            let res = block_on(compio_io::util::copy_with_size(&mut r, &mut w, size));
            let rs = sh.borrow();
            let ws = wsh.borrow();
            let rv = try_o!(judge_reads(tag, &rs.calls, None, None, &unlimited));
            let delivered = &data[..rv.moved];
            // what the sink saw must be the delivered stream, in order, exactly once
            let mut wmoved = 0usize;
            let mut wend = End::Running;
            for (i, c) in ws.calls.iter().enumerate() {
                if c.kind != CallKind::Write {
                    continue;
                }
                if wend != End::Running {
                    return viol(tag, "call-after-stop", format!("write call #{i} after the sink failed ({wend:?})"));
                }
                if c.offered == 0 {
                    return viol(tag, "zero-length-write", format!("write call #{i} offered no bytes"));
                }
                if wmoved + c.offered > delivered.len() || c.data != delivered[wmoved..wmoved + c.offered] {
                    return viol(
                        tag,
                        "wrong-bytes-offered",
                        format!("write call #{i} offered {:?}; the unwritten part of what the source delivered is {:?}", c.data, &delivered[wmoved.min(delivered.len())..]),
                    );
                }
                match c.res {
                    Ok(0) => wend = End::Zero,
                    Ok(k) => wmoved += k,
                    Err(io::ErrorKind::Interrupted) => {}
                    Err(k) => wend = End::Failed(k),
                }
            }
            if ws.received != delivered[..wmoved] {
                return viol(tag, "sink-content", format!("sink holds {:?}, expected {:?}", ws.received, &delivered[..wmoved]));
            }
            let got = match &res {
                Ok(n) => Res::Ok(*n as usize),
                Err(e) => Res::Err(e.kind()),
            };
            let flush_failed = ws.calls.iter().find_map(|c| if c.kind == CallKind::Flush { c.res.err() } else { None });
            let want = match (wend, rv.end) {
                (End::Zero, _) => Res::Err(io::ErrorKind::WriteZero),
                (End::Failed(k), _) => Res::Err(k),
                (_, End::Failed(k)) => Res::Err(k),
                (_, End::Zero) => {
                    if wmoved != rv.moved {
                        return viol(tag, "bytes-not-written", format!("source delivered {} bytes up to EOF, the sink accepted {wmoved}; copy returned {got:?}", rv.moved));
                    }
                    match flush_failed {
                        Some(k) => Res::Err(k),
                        None => Res::Ok(rv.moved),
                    }
                }
                _ => {
                    return viol(tag, "stopped-early", format!("copy returned {got:?} although neither side ended the transfer (source {:?}, sink {:?})", rv.end, wend));
                }
            };
            if got != want {
                let what = match (got, want) {
                    (Res::Ok(_), Res::Err(_)) => "error-swallowed",
                    (Res::Err(io::ErrorKind::Interrupted), _) => "interrupted-not-retried",
                    (Res::Err(_), Res::Ok(_)) => "spurious-error",
                    (Res::Err(_), Res::Err(_)) => "wrong-error-kind",
                    (Res::Ok(_), Res::Ok(_)) => "wrong-count",
                };
                return viol(tag, what, format!("copy returned {got:?}, the traces demand {want:?}"));
            }
            if res.is_ok() && ws.flushes == 0 {
                return viol(tag, "no-flush", "copy succeeded without flushing the writer".into());
            }
            if rs.pos != rv.moved {
                return viol(tag, "source-overconsumed", format!("source cursor {} but {} bytes were delivered", rs.pos, rv.moved));
            }
            labels.push(format!("end:{}/{}", end_label(rv.end), end_label(wend)));
            let mut all = rs.calls.clone();
            all.extend(ws.calls.iter().cloned());
            let nt = trace_labels(&all, &mut labels);
            Outcome::pass_owned(nt, labels)
        }
    }
}

pub fn copy_size(raw: u8) -> usize {
    const SIZES: [usize; 8] = [0, 1, 2, 3, 5, 8, 32, 256];
    SIZES[(raw as usize) % SIZES.len()]
}

fn end_label(e: End) -> &'static str {
    match e {
        End::Complete => "complete",
        End::Zero => "ok0",
        End::Failed(_) => "failed",
        End::Running => "running",
    }
}

fn check_sink(tag: &str, st: &crate::mock::State, written: &[u8], at: Option<u64>) -> Result<(), Outcome> {
    match at {
        None => {
            if st.received != written {
                return Err(viol(tag, "sink-content", format!("sink holds {:?}, expected {:?}", st.received, written)));
            }
        }
        Some(p) => {
            let p = p as usize;
            let mut want = vec![];
            if !written.is_empty() {
                want.resize(p, 0);
                want.extend_from_slice(written);
            }
            if st.data != want {
                return Err(viol(tag, "sink-content", format!("file holds {:?}, expected {:?}", st.data, want)));
            }
        }
    }
    Ok(())
}

// ------------------------------------------------------------------------------------------------
// generators

pub fn pos_strategy() -> impl Strategy<Value = Pos> + Clone {
    prop_oneof![
        3 => Just(Pos { raw: 0, far: false }),
        6 => any::<u16>().prop_map(|raw| Pos { raw, far: false }),
        1 => Just(Pos { raw: u16::MAX, far: false }),
        1 => Just(Pos { raw: 0, far: true }),
    ]
}

pub fn dst_strategy() -> impl Strategy<Value = DstShape> + Clone {
    (
        prop_oneof![3 => Just(0u8), 3 => 0u8..=24],
        prop_oneof![1 => Just(0u8), 1 => Just(1u8), 6 => 0u8..=40],
        prop_oneof![
            4 => Just(DstKind::Vec),
            1 => Just(DstKind::Array24),
            2 => Just(DstKind::ArrayVec24),
            3 => (any::<u16>(), option::of(any::<u16>())).prop_map(|(a, b)| DstKind::VecSlice { a, b }),
        ],
    )
        .prop_map(|(prefill, spare, kind)| DstShape { prefill, spare, kind })
}

pub fn members_strategy() -> impl Strategy<Value = Members> + Clone {
    (vec(prop_oneof![1 => Just(0u8), 1 => Just(1u8), 5 => 0u8..=12], 0..=5), prop_oneof![3 => Just(0u16), 2 => any::<u16>()]).prop_map(|(caps, filled)| Members { caps, filled })
}

pub fn cuts_strategy() -> impl Strategy<Value = Vec<u8>> + Clone {
    vec(prop_oneof![1 => Just(0u8), 4 => 0u8..=12, 1 => 0u8..=80], 0..=5)
}

fn src_shape_strategy() -> impl Strategy<Value = SrcShape> + Clone {
    prop_oneof![
        2 => Just(SrcShape::Vec),
        1 => (any::<u16>(), option::of(any::<u16>())).prop_map(|(a, b)| SrcShape::Slice { a, b }),
    ]
}

/// Pre-existing content for `read_to_end`-style helpers.  The unchanged tree overwrites it (known
/// finding), so that shape is kept at a low rate: the engine counts those cases as known-excluded.
fn rte_prefill() -> impl Strategy<Value = u8> + Clone {
    prop_oneof![12 => Just(0u8), 1 => 1u8..=12]
}

pub fn helper_strategy() -> impl Strategy<Value = Helper> + Clone {
    let spare = prop_oneof![1 => Just(0u8), 1 => Just(1u8), 3 => 0u8..=40];
    let reads = prop_oneof![
        3 => dst_strategy().prop_map(|dst| Helper::ReadExact { dst }),
        3 => (dst_strategy(), pos_strategy()).prop_map(|(dst, pos)| Helper::ReadExactAt { dst, pos }),
        3 => (rte_prefill(), spare.clone()).prop_map(|(prefill, spare)| Helper::ReadToEnd { prefill, spare }),
        3 => (rte_prefill(), spare.clone(), pos_strategy()).prop_map(|(prefill, spare, pos)| Helper::ReadToEndAt { prefill, spare, pos }),
        2 => (rte_prefill(), spare.clone()).prop_map(|(prefill, spare)| Helper::ReadToString { prefill, spare }),
        1 => (rte_prefill(), spare.clone(), pos_strategy()).prop_map(|(prefill, spare, pos)| Helper::ReadToStringAt { prefill, spare, pos }),
        3 => (members_strategy(), any::<bool>()).prop_map(|(members, native)| Helper::ReadVecExact { members, native }),
        3 => (members_strategy(), any::<bool>(), pos_strategy()).prop_map(|(members, native, pos)| Helper::ReadVecExactAt { members, native, pos }),
        1 => (members_strategy(), option::of(pos_strategy())).prop_map(|(members, at)| Helper::ReadVectored { members, at }),
        2 => dst_strategy().prop_map(|dst| Helper::Append { dst }),
    ];
    let writes = prop_oneof![
        2 => (0u16..=80).prop_map(|limit| Helper::TakeToEnd { limit }),
        2 => (0u16..=40, 0u8..=40).prop_map(|(limit, n)| Helper::TakeExact { limit, n }),
        3 => src_shape_strategy().prop_map(|src| Helper::WriteAll { src }),
        3 => (src_shape_strategy(), 0u8..=24).prop_map(|(src, pos)| Helper::WriteAllAt { src, pos }),
        3 => (cuts_strategy(), any::<bool>()).prop_map(|(cuts, native)| Helper::WriteVecAll { cuts, native }),
        3 => (cuts_strategy(), any::<bool>(), 0u8..=24).prop_map(|(cuts, native, pos)| Helper::WriteVecAllAt { cuts, native, pos }),
        1 => (cuts_strategy(), option::of(0u8..=24)).prop_map(|(cuts, at)| Helper::WriteVectored { cuts, at }),
        4 => (prop_oneof![1 => Just(0u8), 12 => 1u8..=7], script_strategy(10), option::weighted(0.1, errkind_strategy()))
            .prop_map(|(buf_size, sink_script, flush_err)| Helper::Copy { buf_size, sink_script, flush_err }),
    ];
    prop_oneof![24 => reads, 23 => writes]
}

pub fn case_strategy() -> impl Strategy<Value = HelperCase> + Clone {
    (helper_strategy(), payload_strategy(300), script_strategy(14)).prop_map(|(helper, mut payload, script)| {
        if matches!(helper, Helper::ReadToString { .. } | Helper::ReadToStringAt { .. }) && payload.kind == PayloadKind::Binary && payload.len % 3 != 0 {
            // strings mostly get valid text (two thirds of the binary draws become UTF-8)
            payload.kind = PayloadKind::Utf8;
        }
        HelperCase { helper, payload, script }
    })
}
