//! Script-driven mock sources and sinks for C11.
//!
//! The mocks behave like well-formed implementors of the compio-io traits: a read writes `n` bytes
//! to the beginning of the offered window and records them with `advance_to(n)` (what the drivers
//! and the in-memory implementations do); a zero-capacity read / zero-length write returns `Ok(0)`
//! without touching the script (it is not an EOF signal).  Every call is recorded; the oracles judge
//! the helper's result from that trace, so they never depend on how a helper chunks its calls.
use std::{cell::RefCell, io, rc::Rc};

use compio_buf::{BufResult, IoBuf, IoBufMut, IoBufMutExt, IoVectoredBuf, IoVectoredBufMut, SetLenExt};
use compio_io::{AsyncRead, AsyncReadAt, AsyncWrite, AsyncWriteAt};

use crate::pat::{ErrKind, Xfer};

#[derive(Debug, Clone, PartialEq, Eq)]
pub enum CallKind {
    Read,
    Write,
    Flush,
    Shutdown,
}

#[derive(Debug, Clone)]
pub struct Call {
    pub kind: CallKind,
    /// read: capacity offered; write: length offered
    pub offered: usize,
    /// the bytes offered to a write
    pub data: Vec<u8>,
    pub pos: Option<u64>,
    pub res: Result<usize, io::ErrorKind>,
    /// whether the call came through a natively vectored entry point
    pub vectored: bool,
    /// read: bytes the source could still have delivered when the call was made
    pub avail: usize,
}

#[derive(Debug)]
pub struct State {
    pub script: Vec<Xfer>,
    pub ip: usize,
    /// source: the data to deliver; positional sink: the "file"
    pub data: Vec<u8>,
    /// stream source: read cursor
    pub pos: usize,
    /// stream sink: bytes accepted so far
    pub received: Vec<u8>,
    pub calls: Vec<Call>,
    pub flush_errs: Vec<ErrKind>,
    pub flushes: usize,
    pub shutdowns: usize,
    /// while set, `Interrupted`/`Fail`/`Eof` entries of the script are skipped (used to keep a known
    /// defect shape out of the generated cases by construction)
    pub suppress_errors: bool,
    pub skipped_errors: usize,
    pub budget: usize,
}

impl State {
    pub fn new(data: Vec<u8>, script: Vec<Xfer>) -> Self {
        State {
            script,
            ip: 0,
            data,
            pos: 0,
            received: vec![],
            calls: vec![],
            flush_errs: vec![],
            flushes: 0,
            shutdowns: 0,
            suppress_errors: false,
            skipped_errors: 0,
            budget: 20_000,
        }
    }

    fn step(&mut self) -> Xfer {
        if self.budget == 0 {
            panic!("mock call budget exhausted: the helper loops without terminating");
        }
        self.budget -= 1;
        loop {
            let s = self.script.get(self.ip).copied();
            if s.is_some() {
                self.ip += 1;
            }
            match s {
                Some(Xfer::Interrupted | Xfer::Fail(_) | Xfer::Eof) if self.suppress_errors => {
                    self.skipped_errors += 1;
                    continue;
                }
                Some(s) => return s,
                None => return Xfer::Bytes(u16::MAX),
            }
        }
    }

    pub fn calls_from(&self, mark: usize) -> &[Call] {
        &self.calls[mark..]
    }
}

pub type Shared = Rc<RefCell<State>>;

pub fn shared(data: Vec<u8>, script: Vec<Xfer>) -> Shared {
    Rc::new(RefCell::new(State::new(data, script)))
}

fn fill_single<B: IoBufMut>(buf: &mut B, src: &[u8]) {
    let dst = buf.as_uninit();
    for (d, s) in dst.iter_mut().zip(src) {
        d.write(*s);
    }
    unsafe { buf.advance_to(src.len()) };
}

fn fill_vectored<V: IoVectoredBufMut>(buf: &mut V, src: &[u8]) {
    let mut rest = src;
    for dst in buf.iter_uninit_slice() {
        let n = dst.len().min(rest.len());
        for (d, s) in dst.iter_mut().zip(rest) {
            d.write(*s);
        }
        rest = &rest[n..];
        if rest.is_empty() {
            break;
        }
    }
    unsafe { buf.advance_vec_to(src.len()) };
}

impl State {
    /// A read of `cap` bytes at stream cursor / at `pos`; returns the bytes to deliver or the error.
    fn do_read(&mut self, cap: usize, at: Option<u64>, vectored: bool) -> Result<Vec<u8>, io::Error> {
        let from = match at {
            Some(p) => (p.min(self.data.len() as u64)) as usize,
            None => self.pos,
        };
        let avail = self.data.len() - from;
        if cap == 0 {
            self.calls.push(Call { kind: CallKind::Read, offered: 0, data: vec![], pos: at, res: Ok(0), vectored, avail });
            return Ok(vec![]);
        }
        let (res, out) = match self.step() {
            Xfer::Bytes(n) => {
                let n = (n as usize).min(cap).min(avail);
                (Ok(n), self.data[from..from + n].to_vec())
            }
            Xfer::Eof => (Ok(0), vec![]),
            Xfer::Interrupted => (Err(ErrKind::Interrupted), vec![]),
            Xfer::Fail(k) => (Err(k), vec![]),
        };
        if at.is_none() {
            self.pos += out.len();
        }
        self.calls.push(Call { kind: CallKind::Read, offered: cap, data: vec![], pos: at, res: res.map_err(|k| k.kind()), vectored, avail });
        match res {
            Ok(_) => Ok(out),
            Err(k) => Err(k.to_io()),
        }
    }

    /// A write of `data` to the stream / at `pos`.
    fn do_write(&mut self, data: &[u8], at: Option<u64>, vectored: bool) -> io::Result<usize> {
        if data.is_empty() {
            self.calls.push(Call { kind: CallKind::Write, offered: 0, data: vec![], pos: at, res: Ok(0), vectored, avail: 0 });
            return Ok(0);
        }
        let res = match self.step() {
            Xfer::Bytes(n) => Ok((n as usize).min(data.len())),
            Xfer::Eof => Ok(0),
            Xfer::Interrupted => Err(ErrKind::Interrupted),
            Xfer::Fail(k) => Err(k),
        };
        if let Ok(n) = res {
            match at {
                None => self.received.extend_from_slice(&data[..n]),
                Some(p) => {
                    let p = p as usize;
                    if n > 0 {
                        if self.data.len() < p + n {
                            self.data.resize(p + n, 0);
                        }
                        self.data[p..p + n].copy_from_slice(&data[..n]);
                    }
                }
            }
        }
        self.calls.push(Call { kind: CallKind::Write, offered: data.len(), data: data.to_vec(), pos: at, res: res.map_err(|k| k.kind()), vectored, avail: 0 });
        res.map_err(|k| k.to_io())
    }

    fn do_flush(&mut self) -> io::Result<()> {
        self.flushes += 1;
        let res = if self.flush_errs.is_empty() || self.suppress_errors { Ok(()) } else { Err(self.flush_errs.remove(0)) };
        self.calls.push(Call { kind: CallKind::Flush, offered: 0, data: vec![], pos: None, res: res.map(|_| 0).map_err(|k| k.kind()), vectored: false, avail: 0 });
        res.map_err(|k| k.to_io())
    }

    fn do_shutdown(&mut self) -> io::Result<()> {
        self.shutdowns += 1;
        self.calls.push(Call { kind: CallKind::Shutdown, offered: 0, data: vec![], pos: None, res: Ok(0), vectored: false, avail: 0 });
        Ok(())
    }
}

fn total_cap<V: IoVectoredBufMut>(v: &mut V) -> usize {
    v.iter_uninit_slice().map(|s| s.len()).sum()
}

fn gather<V: IoVectoredBuf>(v: &V) -> Vec<u8> {
    let mut out = vec![];
    for s in v.iter_slice() {
        out.extend_from_slice(s);
    }
    out
}

// ------------------------------------------------------------------------------------------------
// stream source; `NATIVE` = overrides read_vectored (scatter over all members) instead of using the
// trait's default (first non-empty member only)

pub struct Src<const NATIVE: bool>(pub Shared);

impl<const NATIVE: bool> AsyncRead for Src<NATIVE> {
    async fn read<B: IoBufMut>(&mut self, mut buf: B) -> BufResult<usize, B> {
        let cap = buf.buf_capacity();
        let r = self.0.borrow_mut().do_read(cap, None, false);
        match r {
            Ok(bytes) => {
                fill_single(&mut buf, &bytes);
                BufResult(Ok(bytes.len()), buf)
            }
            Err(e) => BufResult(Err(e), buf),
        }
    }

    async fn read_vectored<V: IoVectoredBufMut>(&mut self, mut buf: V) -> BufResult<usize, V> {
        if NATIVE {
            let cap = total_cap(&mut buf);
            let r = self.0.borrow_mut().do_read(cap, None, true);
            match r {
                Ok(bytes) => {
                    fill_vectored(&mut buf, &bytes);
                    BufResult(Ok(bytes.len()), buf)
                }
                Err(e) => BufResult(Err(e), buf),
            }
        } else {
            default_read_vectored(self, buf).await
        }
    }
}

async fn default_read_vectored<const N: bool, V: IoVectoredBufMut>(s: &mut Src<N>, buf: V) -> BufResult<usize, V> {
    // `SrcScalar` does not override `read_vectored`: this is the trait's default implementation
    SrcScalar(s.0.clone()).read_vectored(buf).await
}

/// scalar-only view of the same shared state (breaks the recursion of the const-generic impl)
struct SrcScalar(Shared);

impl AsyncRead for SrcScalar {
    async fn read<B: IoBufMut>(&mut self, mut buf: B) -> BufResult<usize, B> {
        let cap = buf.buf_capacity();
        let r = self.0.borrow_mut().do_read(cap, None, false);
        match r {
            Ok(bytes) => {
                fill_single(&mut buf, &bytes);
                BufResult(Ok(bytes.len()), buf)
            }
            Err(e) => BufResult(Err(e), buf),
        }
    }
}

// ------------------------------------------------------------------------------------------------
// positional source

pub struct SrcAt<const NATIVE: bool>(pub Shared);

struct SrcAtScalar(Shared);

impl AsyncReadAt for SrcAtScalar {
    async fn read_at<B: IoBufMut>(&self, mut buf: B, pos: u64) -> BufResult<usize, B> {
        let cap = buf.buf_capacity();
        let r = self.0.borrow_mut().do_read(cap, Some(pos), false);
        match r {
            Ok(bytes) => {
                fill_single(&mut buf, &bytes);
                BufResult(Ok(bytes.len()), buf)
            }
            Err(e) => BufResult(Err(e), buf),
        }
    }
}

impl<const NATIVE: bool> AsyncReadAt for SrcAt<NATIVE> {
    async fn read_at<B: IoBufMut>(&self, buf: B, pos: u64) -> BufResult<usize, B> {
        SrcAtScalar(self.0.clone()).read_at(buf, pos).await
    }

    async fn read_vectored_at<V: IoVectoredBufMut>(&self, mut buf: V, pos: u64) -> BufResult<usize, V> {
        if NATIVE {
            let cap = total_cap(&mut buf);
            let r = self.0.borrow_mut().do_read(cap, Some(pos), true);
            match r {
                Ok(bytes) => {
                    fill_vectored(&mut buf, &bytes);
                    BufResult(Ok(bytes.len()), buf)
                }
                Err(e) => BufResult(Err(e), buf),
            }
        } else {
            // the trait's default implementation
            SrcAtScalar(self.0.clone()).read_vectored_at(buf, pos).await
        }
    }
}

// ------------------------------------------------------------------------------------------------
// stream sink

pub struct Sink<const NATIVE: bool>(pub Shared);

struct SinkScalar(Shared);

impl AsyncWrite for SinkScalar {
    async fn write<T: IoBuf>(&mut self, buf: T) -> BufResult<usize, T> {
        let r = self.0.borrow_mut().do_write(buf.as_init(), None, false);
        BufResult(r, buf)
    }

    async fn flush(&mut self) -> io::Result<()> {
        self.0.borrow_mut().do_flush()
    }

    async fn shutdown(&mut self) -> io::Result<()> {
        self.0.borrow_mut().do_shutdown()
    }
}

impl<const NATIVE: bool> AsyncWrite for Sink<NATIVE> {
    async fn write<T: IoBuf>(&mut self, buf: T) -> BufResult<usize, T> {
        SinkScalar(self.0.clone()).write(buf).await
    }

    async fn write_vectored<T: IoVectoredBuf>(&mut self, buf: T) -> BufResult<usize, T> {
        if NATIVE {
            let all = gather(&buf);
            let r = self.0.borrow_mut().do_write(&all, None, true);
            BufResult(r, buf)
        } else {
            SinkScalar(self.0.clone()).write_vectored(buf).await
        }
    }

    async fn flush(&mut self) -> io::Result<()> {
        self.0.borrow_mut().do_flush()
    }

    async fn shutdown(&mut self) -> io::Result<()> {
        self.0.borrow_mut().do_shutdown()
    }
}

// ------------------------------------------------------------------------------------------------
// positional sink (a "file": writing beyond the end zero-extends)

pub struct SinkAt<const NATIVE: bool>(pub Shared);

struct SinkAtScalar(Shared);

impl AsyncWriteAt for SinkAtScalar {
    async fn write_at<T: IoBuf>(&mut self, buf: T, pos: u64) -> BufResult<usize, T> {
        let r = self.0.borrow_mut().do_write(buf.as_init(), Some(pos), false);
        BufResult(r, buf)
    }
}

impl<const NATIVE: bool> AsyncWriteAt for SinkAt<NATIVE> {
    async fn write_at<T: IoBuf>(&mut self, buf: T, pos: u64) -> BufResult<usize, T> {
        SinkAtScalar(self.0.clone()).write_at(buf, pos).await
    }

    async fn write_vectored_at<T: IoVectoredBuf>(&mut self, buf: T, pos: u64) -> BufResult<usize, T> {
        if NATIVE {
            let all = gather(&buf);
            let r = self.0.borrow_mut().do_write(&all, Some(pos), true);
            BufResult(r, buf)
        } else {
            SinkAtScalar(self.0.clone()).write_vectored_at(buf, pos).await
        }
    }
}

// ------------------------------------------------------------------------------------------------
// duplex for split()/unsplit()

pub struct Duplex {
    pub r: Src<false>,
    pub w: Sink<false>,
    pub tag: u32,
}

impl AsyncRead for Duplex {
    async fn read<B: IoBufMut>(&mut self, buf: B) -> BufResult<usize, B> {
        self.r.read(buf).await
    }
}

impl AsyncWrite for Duplex {
    async fn write<T: IoBuf>(&mut self, buf: T) -> BufResult<usize, T> {
        self.w.write(buf).await
    }

    async fn flush(&mut self) -> io::Result<()> {
        self.w.flush().await
    }

    async fn shutdown(&mut self) -> io::Result<()> {
        self.w.shutdown().await
    }
}
