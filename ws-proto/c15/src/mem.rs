//! In-memory duplex transport whose every `poll_read` / `poll_write` / `poll_flush` / `poll_close`
//! consults a generated schedule (DESIGN §3 C15, TLS half).
//!
//! * per-call byte limit (`limit`, 0 = unlimited);
//! * `pend = k > 0`: the call first returns `Pending`; the stored waker fires after `k-1` harness
//!   steps (`k = 1`: it is woken before `Pending` is even returned), the next call of that kind
//!   then proceeds with the entry's limit;
//! * `buffering`: written bytes are *staged* and become visible to the peer only on `poll_flush`
//!   / `poll_close`;
//! * pipes are unbounded, so the application protocol of the harness can never dead-lock by
//!   itself: every dead-lock observed is the layer's.
//!
//! Everything is single threaded (`Rc<RefCell>`), time is the harness step counter.

use std::{
    cell::RefCell,
    collections::VecDeque,
    io,
    pin::Pin,
    rc::Rc,
    task::{Context, Poll, Waker},
};

use compio_buf::{BufResult, IoBuf, IoBufMut, SetLenExt};
use serde::{Deserialize, Serialize};

#[derive(Debug, Clone, Copy, Serialize, Deserialize, PartialEq)]
pub struct Ev {
    /// byte limit of this call, 0 = unlimited
    pub limit: u16,
    /// 0 = proceed at once; k>0 = `Pending` first, woken after k-1 harness steps
    pub pend: u8,
}

#[derive(Debug, Clone, Serialize, Deserialize, Default)]
pub struct EndSched {
    /// bytes become visible to the peer only on flush/close
    pub buffering: bool,
    /// cyclic schedules, consulted per call that has something to do; empty = always ready, unlimited
    pub read: Vec<Ev>,
    pub write: Vec<Ev>,
    pub flush: Vec<Ev>,
}

#[derive(Default)]
struct Pipe {
    staged: VecDeque<u8>,
    visible: VecDeque<u8>,
    closed: bool,
    reader: Option<Waker>,
    total_visible: u64,
}

#[derive(Debug, Default, Clone)]
pub struct EndStats {
    pub reads: u64,
    pub writes: u64,
    pub flushes: u64,
    pub sched_pend: [u64; 3],
    pub natural_pend: u64,
    pub partial_writes: u64,
    pub short_reads: u64,
    /// the same, counted only while the owner says "handshaking"
    pub hs_partial_writes: u64,
    pub hs_pend_reads: u64,
    pub hs_pend_writes: u64,
    pub hs_flushes: u64,
}

struct End {
    sched: EndSched,
    ix: [usize; 3],
    pend_served: [bool; 3],
    handshaking: bool,
    stats: EndStats,
}

pub struct Shared {
    /// pipes[i] is written by end i and read by end 1-i
    pipes: [Pipe; 2],
    ends: [End; 2],
    now: u64,
    timers: Vec<(u64, Waker)>,
    pub calls: u64,
    pub call_cap: u64,
    pub cap_hit: bool,
    pub trace: bool,
    /// bytes each end handed to the duplex (visible or staged)
    pub delivered: [u64; 2],
    /// [end][kind]: ignore scheduled `pend` for this kind (avoidance of a known shape)
    pub suppress_pend: [[bool; 3]; 2],
    /// [end][kind]: the same, but only while that end's owner is handshaking
    pub suppress_pend_hs: [[bool; 3]; 2],
    /// the last flush/close call of this end returned `Pending` and no later one completed
    pub flush_unretried: [bool; 2],
    /// a violation observed by a transport wrapper (signature, detail)
    pub violation: Option<(String, String)>,
}

pub type Sh = Rc<RefCell<Shared>>;

const READ: usize = 0;
const WRITE: usize = 1;
const FLUSH: usize = 2;

impl Shared {
    pub fn new(sched: [EndSched; 2], call_cap: u64) -> Sh {
        let mk = |s: EndSched| End { sched: s, ix: [0; 3], pend_served: [false; 3], handshaking: true, stats: EndStats::default() };
        let [a, b] = sched;
        Rc::new(RefCell::new(Shared {
            pipes: [Pipe::default(), Pipe::default()],
            ends: [mk(a), mk(b)],
            now: 0,
            timers: vec![],
            calls: 0,
            call_cap,
            cap_hit: false,
            trace: std::env::var("C15_TRACE").is_ok(),
            delivered: [0; 2],
            suppress_pend: [[false; 3]; 2],
            suppress_pend_hs: [[false; 3]; 2],
            flush_unretried: [false; 2],
            violation: None,
        }))
    }

    pub fn set_handshaking(&mut self, me: usize, v: bool) {
        self.ends[me].handshaking = v;
    }

    pub fn stats(&self, me: usize) -> EndStats {
        self.ends[me].stats.clone()
    }

    pub fn has_timers(&self) -> bool {
        !self.timers.is_empty()
    }

    /// bytes written by `me` that the peer has not consumed yet (visible, staged)
    pub fn backlog(&self, me: usize) -> (usize, usize) {
        (self.pipes[me].visible.len(), self.pipes[me].staged.len())
    }

    /// Advance the step clock by one and fire the due wakers.  If `jump`, first move the clock to
    /// the earliest due timer (used when nothing else can run).
    pub fn tick(sh: &Sh, jump: bool) -> usize {
        let due: Vec<Waker> = {
            let mut s = sh.borrow_mut();
            s.now += 1;
            if jump {
                if let Some(m) = s.timers.iter().map(|t| t.0).min() {
                    if m > s.now {
                        s.now = m;
                    }
                }
            }
            let now = s.now;
            let mut due = vec![];
            let mut keep = vec![];
            for (t, w) in s.timers.drain(..) {
                if t <= now {
                    due.push(w);
                } else {
                    keep.push((t, w));
                }
            }
            s.timers = keep;
            due
        };
        let n = due.len();
        for w in due {
            w.wake();
        }
        n
    }

    /// Consult the schedule for a call of `kind`.  `Err(())` = return `Pending` now.
    fn consult(&mut self, me: usize, kind: usize, cx: &mut Context<'_>) -> Result<usize, ()> {
        let r = self.consult_inner(me, kind, cx);
        if self.trace {
            eprintln!("  [t={} end{me}] {} -> {:?}", self.now, ["read", "write", "flush/close"][kind], r.map(|l| if l == usize::MAX { 0 } else { l }));
        }
        r
    }

    fn consult_inner(&mut self, me: usize, kind: usize, cx: &mut Context<'_>) -> Result<usize, ()> {
        self.calls += 1;
        let now = self.now;
        let suppress = self.suppress_pend[me][kind] || (self.suppress_pend_hs[me][kind] && self.ends[me].handshaking);
        let e = &mut self.ends[me];
        let list = match kind {
            READ => &e.sched.read,
            WRITE => &e.sched.write,
            _ => &e.sched.flush,
        };
        if list.is_empty() {
            return Ok(usize::MAX);
        }
        let mut ev = list[e.ix[kind] % list.len()];
        if suppress {
            ev.pend = 0;
        }
        if ev.pend > 0 && !e.pend_served[kind] {
            e.pend_served[kind] = true;
            e.stats.sched_pend[kind] += 1;
            if e.handshaking {
                match kind {
                    READ => e.stats.hs_pend_reads += 1,
                    WRITE => e.stats.hs_pend_writes += 1,
                    _ => {}
                }
            }
            if ev.pend == 1 {
                cx.waker().wake_by_ref();
            } else {
                self.timers.push((now + (ev.pend as u64 - 1), cx.waker().clone()));
            }
            return Err(());
        }
        e.pend_served[kind] = false;
        e.ix[kind] += 1;
        Ok(if ev.limit == 0 { usize::MAX } else { ev.limit as usize })
    }

    fn capped(&mut self) -> Option<io::Error> {
        if self.calls > self.call_cap {
            self.cap_hit = true;
            Some(io::Error::other("C15 harness: transport call cap exceeded (spin)"))
        } else {
            None
        }
    }

    fn do_read(&mut self, me: usize, cx: &mut Context<'_>, dst: &mut [u8]) -> Poll<io::Result<usize>> {
        if let Some(e) = self.capped() {
            return Poll::Ready(Err(e));
        }
        if dst.is_empty() {
            return Poll::Ready(Ok(0));
        }
        let peer = 1 - me;
        if self.pipes[peer].visible.is_empty() {
            if self.pipes[peer].closed {
                self.calls += 1;
                return Poll::Ready(Ok(0));
            }
            self.calls += 1;
            self.pipes[peer].reader = Some(cx.waker().clone());
            if self.trace {
                eprintln!("  [t={} end{me}] read -> natural Pending", self.now);
            }
            let e = &mut self.ends[me];
            e.stats.natural_pend += 1;
            if e.handshaking {
                e.stats.hs_pend_reads += 1;
            }
            return Poll::Pending;
        }
        let limit = match self.consult(me, READ, cx) {
            Ok(l) => l,
            Err(()) => return Poll::Pending,
        };
        let p = &mut self.pipes[peer];
        let n = dst.len().min(limit).min(p.visible.len());
        for (d, b) in dst.iter_mut().zip(p.visible.drain(..n)) {
            *d = b;
        }
        let e = &mut self.ends[me];
        e.stats.reads += 1;
        if n < dst.len() {
            e.stats.short_reads += 1;
        }
        Poll::Ready(Ok(n))
    }

    fn do_write(&mut self, me: usize, cx: &mut Context<'_>, src: &[u8]) -> Poll<io::Result<usize>> {
        if let Some(e) = self.capped() {
            return Poll::Ready(Err(e));
        }
        if src.is_empty() {
            return Poll::Ready(Ok(0));
        }
        if self.pipes[me].closed {
            return Poll::Ready(Err(io::Error::new(io::ErrorKind::BrokenPipe, "C15 harness: write after close")));
        }
        let limit = match self.consult(me, WRITE, cx) {
            Ok(l) => l,
            Err(()) => return Poll::Pending,
        };
        let n = src.len().min(limit);
        self.delivered[me] += n as u64;
        let buffering = self.ends[me].sched.buffering;
        let p = &mut self.pipes[me];
        if buffering {
            p.staged.extend(&src[..n]);
        } else {
            p.visible.extend(&src[..n]);
            p.total_visible += n as u64;
            if let Some(w) = p.reader.take() {
                w.wake();
            }
        }
        let e = &mut self.ends[me];
        e.stats.writes += 1;
        if n < src.len() {
            e.stats.partial_writes += 1;
            if e.handshaking {
                e.stats.hs_partial_writes += 1;
            }
        }
        Poll::Ready(Ok(n))
    }

    fn publish(&mut self, me: usize) {
        let p = &mut self.pipes[me];
        if !p.staged.is_empty() {
            let n = p.staged.len();
            let st = std::mem::take(&mut p.staged);
            p.visible.extend(st);
            p.total_visible += n as u64;
            if let Some(w) = p.reader.take() {
                w.wake();
            }
        }
    }

    fn do_flush(&mut self, me: usize, cx: &mut Context<'_>) -> Poll<io::Result<()>> {
        if let Some(e) = self.capped() {
            return Poll::Ready(Err(e));
        }
        if self.consult(me, FLUSH, cx).is_err() {
            self.flush_unretried[me] = true;
            return Poll::Pending;
        }
        self.flush_unretried[me] = false;
        self.publish(me);
        let e = &mut self.ends[me];
        e.stats.flushes += 1;
        if e.handshaking {
            e.stats.hs_flushes += 1;
        }
        Poll::Ready(Ok(()))
    }

    fn do_close(&mut self, me: usize, cx: &mut Context<'_>) -> Poll<io::Result<()>> {
        if let Some(e) = self.capped() {
            return Poll::Ready(Err(e));
        }
        if self.pipes[me].closed {
            return Poll::Ready(Ok(()));
        }
        if self.consult(me, FLUSH, cx).is_err() {
            self.flush_unretried[me] = true;
            return Poll::Pending;
        }
        self.flush_unretried[me] = false;
        self.publish(me);
        self.hangup(me);
        Poll::Ready(Ok(()))
    }

    /// the write direction of `me` ends (close or drop): staged bytes that were never flushed are lost
    fn hangup(&mut self, me: usize) {
        let p = &mut self.pipes[me];
        p.closed = true;
        if let Some(w) = p.reader.take() {
            w.wake();
        }
    }
}

/// futures-io flavoured end of the duplex.
pub struct MemEnd {
    sh: Sh,
    me: usize,
}

impl MemEnd {
    pub fn pair(sh: &Sh) -> (MemEnd, MemEnd) {
        (MemEnd { sh: sh.clone(), me: 0 }, MemEnd { sh: sh.clone(), me: 1 })
    }

    /// compio-io flavoured halves (for `compio_io::compat::AsyncStream`)
    pub fn into_halves(self) -> (MemR, MemW) {
        let sh = self.sh.clone();
        let me = self.me;
        std::mem::forget(self);
        (MemR { sh: sh.clone(), me }, MemW { sh, me })
    }
}

impl Drop for MemEnd {
    fn drop(&mut self) {
        self.sh.borrow_mut().hangup(self.me);
    }
}

impl futures_util::AsyncRead for MemEnd {
    fn poll_read(self: Pin<&mut Self>, cx: &mut Context<'_>, buf: &mut [u8]) -> Poll<io::Result<usize>> {
        self.sh.borrow_mut().do_read(self.me, cx, buf)
    }
}

impl futures_util::AsyncWrite for MemEnd {
    fn poll_write(self: Pin<&mut Self>, cx: &mut Context<'_>, buf: &[u8]) -> Poll<io::Result<usize>> {
        self.sh.borrow_mut().do_write(self.me, cx, buf)
    }

    fn poll_flush(self: Pin<&mut Self>, cx: &mut Context<'_>) -> Poll<io::Result<()>> {
        self.sh.borrow_mut().do_flush(self.me, cx)
    }

    fn poll_close(self: Pin<&mut Self>, cx: &mut Context<'_>) -> Poll<io::Result<()>> {
        self.sh.borrow_mut().do_close(self.me, cx)
    }
}

pub struct MemR {
    sh: Sh,
    me: usize,
}

pub struct MemW {
    sh: Sh,
    me: usize,
}

impl Drop for MemW {
    fn drop(&mut self) {
        self.sh.borrow_mut().hangup(self.me);
    }
}

impl compio_io::AsyncRead for MemR {
    async fn read<B: IoBufMut>(&mut self, mut buf: B) -> BufResult<usize, B> {
        let sh = self.sh.clone();
        let me = self.me;
        let cap = buf.as_uninit().len().min(1 << 16);
        let mut tmp = vec![0u8; cap];
        let res = std::future::poll_fn(|cx| sh.borrow_mut().do_read(me, cx, &mut tmp)).await;
        if let Ok(n) = &res {
            let dst = buf.as_uninit();
            for (d, b) in dst.iter_mut().zip(&tmp[..*n]) {
                d.write(*b);
            }
            unsafe { buf.advance_to(*n) };
        }
        BufResult(res, buf)
    }
}

impl compio_io::AsyncWrite for MemW {
    async fn write<T: IoBuf>(&mut self, buf: T) -> BufResult<usize, T> {
        let sh = self.sh.clone();
        let me = self.me;
        let res = std::future::poll_fn(|cx| sh.borrow_mut().do_write(me, cx, buf.as_init())).await;
        BufResult(res, buf)
    }

    async fn flush(&mut self) -> io::Result<()> {
        let sh = self.sh.clone();
        let me = self.me;
        std::future::poll_fn(|cx| sh.borrow_mut().do_flush(me, cx)).await
    }

    async fn shutdown(&mut self) -> io::Result<()> {
        let sh = self.sh.clone();
        let me = self.me;
        std::future::poll_fn(|cx| sh.borrow_mut().do_close(me, cx)).await
    }
}
