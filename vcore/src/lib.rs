//! vcore — the small engine every /verif check is built on.
//!
//! A check contributes: a serialisable *case type* with a proptest `Strategy`, an *interpreter*
//! `Fn(&Case) -> Outcome` that applies the case to the real compio code and to an oracle, a list of
//! fixed regression cases, and a non-triviality rule.  The engine drives proptest with a fixed
//! seed, counts evaluations / distinct non-trivial cases / labels, shrinks the first failure into
//! a replay file, honours `/verif/known_findings.json`, and writes a *part* evidence file that the
//! `check` runner merges into `/verif/evidence/<id>.json`.
//!
//! Exit codes (see DESIGN.md §1.1): 0 held, 1 VIOLATION printed, 2 infrastructure/inconclusive.

use std::{
    any::Any,
    cell::RefCell,
    collections::{BTreeMap, HashMap, HashSet},
    fmt::Debug,
    hash::{Hash, Hasher},
    panic::{self, AssertUnwindSafe},
    path::{Path, PathBuf},
    sync::{
        atomic::{AtomicBool, Ordering},
        Mutex, Once,
    },
    time::Instant,
};

pub use proptest;
use proptest::{
    strategy::Strategy,
    test_runner::{Config, RngSeed, TestCaseError, TestError, TestRunner},
};
pub use serde;
use serde::{de::DeserializeOwned, Deserialize, Serialize};
pub use serde_json;
use serde_json::{json, Value};

// ------------------------------------------------------------------------------------------------
// outcome of one case

#[derive(Debug, Clone)]
pub enum Outcome {
    /// The property held on this case.
    Pass { nontrivial: bool, labels: Vec<String> },
    /// The property is violated.  `signature` names the *shape* of the failure (stable across
    /// random cases), `detail` is free text for the human.
    Violation { signature: String, detail: String },
    /// The case could not be judged (watchdog, resource shortage).  Never a violation.
    Inconclusive { why: String },
}

impl Outcome {
    pub fn pass(nontrivial: bool, labels: &[&str]) -> Self {
        Outcome::Pass { nontrivial, labels: labels.iter().map(|s| s.to_string()).collect() }
    }

    pub fn pass_owned(nontrivial: bool, labels: Vec<String>) -> Self {
        Outcome::Pass { nontrivial, labels }
    }

    pub fn violation(signature: impl Into<String>, detail: impl Into<String>) -> Self {
        Outcome::Violation { signature: signature.into(), detail: detail.into() }
    }

    pub fn inconclusive(why: impl Into<String>) -> Self {
        Outcome::Inconclusive { why: why.into() }
    }

    pub fn is_violation(&self) -> bool {
        matches!(self, Outcome::Violation { .. })
    }
}

/// `check!(cond, "signature", "detail {}", x)` — early-return a violation from an interpreter.
#[macro_export]
macro_rules! ensure {
    ($cond:expr, $sig:expr, $($fmt:tt)+) => {
        if !($cond) {
            return $crate::Outcome::violation($sig, format!($($fmt)+));
        }
    };
}

/// Map a raw 16-bit draw monotonically into `0..len` (len ≥ 1).  Monotone so that shrinking the
/// raw value shrinks the index.
pub fn mono_ix(raw: u16, len: usize) -> usize {
    debug_assert!(len >= 1);
    ((raw as usize) * len) >> 16
}

/// Map a raw 16-bit draw monotonically into `lo..=hi`.
pub fn mono_range(raw: u16, lo: usize, hi: usize) -> usize {
    debug_assert!(hi >= lo);
    lo + mono_ix(raw, hi - lo + 1)
}

// ------------------------------------------------------------------------------------------------
// arguments

#[derive(Debug, Clone, Copy, PartialEq, Eq)]
pub enum Tier {
    Quick,
    Thorough,
}

impl Tier {
    pub fn name(self) -> &'static str {
        match self {
            Tier::Quick => "quick",
            Tier::Thorough => "thorough",
        }
    }
}

#[derive(Debug, Clone)]
pub struct Args {
    pub tier: Tier,
    pub seed: u64,
    pub replay: Option<PathBuf>,
    pub shard: (u32, u32),
    pub cases: Option<u32>,
    pub only_part: Option<String>,
    pub verif_dir: PathBuf,
    /// positional arguments (after flags), e.g. the property id for multi-property binaries
    pub rest: Vec<String>,
}

pub fn parse_args() -> Args {
    let mut tier = match std::env::var("VERIF_TIER").ok().as_deref() {
        Some("thorough") => Tier::Thorough,
        _ => Tier::Quick,
    };
    let tier_from_env = std::env::var("VERIF_TIER").is_ok();
    let seed = std::env::var("VERIF_SEED").ok().and_then(|s| s.trim().parse::<u64>().ok()).unwrap_or(1);
    let verif_dir = PathBuf::from(std::env::var("VERIF_DIR").unwrap_or_else(|_| "/verif".into()));
    let mut replay = None;
    let mut shard = (0, 1);
    let mut cases = None;
    let mut only_part = None;
    let mut rest = vec![];
    let mut it = std::env::args().skip(1);
    while let Some(a) = it.next() {
        match a.as_str() {
            "--tier" => {
                let t = it.next().unwrap_or_default();
                if !tier_from_env {
                    tier = if t == "thorough" { Tier::Thorough } else { Tier::Quick };
                }
            }
            "--replay" => replay = it.next().map(PathBuf::from),
            "--shard" => {
                let s = it.next().unwrap_or_default();
                let mut p = s.split('/');
                let i = p.next().and_then(|x| x.parse().ok()).unwrap_or(0);
                let n = p.next().and_then(|x| x.parse().ok()).unwrap_or(1);
                shard = (i, n);
            }
            "--cases" => cases = it.next().and_then(|x| x.parse().ok()),
            "--part" => only_part = it.next(),
            _ => rest.push(a),
        }
    }
    Args { tier, seed, replay, shard, cases, only_part, verif_dir, rest }
}

// ------------------------------------------------------------------------------------------------
// known findings

#[derive(Debug, Clone, Deserialize)]
pub struct KnownFinding {
    pub property: String,
    pub signature: String,
    pub status: String,
    #[serde(default)]
    pub commit: Option<String>,
    pub what: String,
}

fn load_known(dir: &Path) -> Vec<KnownFinding> {
    let p = dir.join("known_findings.json");
    match std::fs::read_to_string(&p) {
        Ok(s) => {
            #[derive(Deserialize)]
            struct F {
                findings: Vec<KnownFinding>,
            }
            match serde_json::from_str::<F>(&s) {
                Ok(f) => f.findings,
                Err(e) => {
                    eprintln!("vcore: cannot parse {}: {e}", p.display());
                    std::process::exit(2);
                }
            }
        }
        Err(_) => vec![],
    }
}

// ------------------------------------------------------------------------------------------------
// panic capture

thread_local! {
    static LAST_PANIC: RefCell<Option<(String, String)>> = const { RefCell::new(None) };
    static QUIET: RefCell<bool> = const { RefCell::new(false) };
}
static HOOK: Once = Once::new();

fn install_hook() {
    HOOK.call_once(|| {
        let prev = panic::take_hook();
        panic::set_hook(Box::new(move |info| {
            let loc = info.location().map(|l| l.file().to_string()).unwrap_or_else(|| "?".into());
            let msg = if let Some(s) = info.payload().downcast_ref::<&str>() {
                s.to_string()
            } else if let Some(s) = info.payload().downcast_ref::<String>() {
                s.clone()
            } else {
                "<non-string panic>".into()
            };
            let line = info.location().map(|l| l.line()).unwrap_or(0);
            LAST_PANIC.with(|p| *p.borrow_mut() = Some((format!("{loc}:{line}"), msg)));
            let quiet = QUIET.with(|q| *q.borrow());
            if !quiet || std::env::var("VERIF_VERBOSE").is_ok() {
                prev(info);
            }
        }));
    });
}

fn strip_digits(s: &str) -> String {
    let mut out = String::new();
    let mut last_hash = false;
    for c in s.chars() {
        if c.is_ascii_digit() {
            if !last_hash {
                out.push('#');
                last_hash = true;
            }
        } else {
            out.push(c);
            last_hash = false;
        }
    }
    out.chars().take(120).collect()
}

fn short_file(f: &str) -> String {
    // "/repo/compio-io/src/framed/frame.rs:120" -> "compio-io/src/framed/frame.rs"
    let f = f.rsplit_once(':').map(|x| x.0).unwrap_or(f);
    if let Some(i) = f.find("compio-") {
        f[i..].to_string()
    } else if let Some(i) = f.find("/verif/") {
        format!("HARNESS{}", &f[i + 6..])
    } else if let Some(i) = f.rfind("/src/") {
        // registry / std paths: keep crate dir + file
        let head = &f[..i];
        let krate = head.rsplit('/').next().unwrap_or("");
        format!("{krate}{}", &f[i..])
    } else {
        f.to_string()
    }
}

/// Run `f` catching panics; a panic becomes a `Violation` whose signature names the file and the
/// digit-stripped message.
pub fn guarded<R>(f: impl FnOnce() -> R) -> Result<R, (String, String)> {
    install_hook();
    QUIET.with(|q| *q.borrow_mut() = true);
    LAST_PANIC.with(|p| *p.borrow_mut() = None);
    let r = panic::catch_unwind(AssertUnwindSafe(f));
    QUIET.with(|q| *q.borrow_mut() = false);
    match r {
        Ok(v) => Ok(v),
        Err(e) => {
            let (loc, msg) = LAST_PANIC.with(|p| p.borrow_mut().take()).unwrap_or_else(|| ("?".into(), payload_str(&e)));
            let sig = format!("panic@{}:{}", short_file(&loc), strip_digits(&msg));
            Err((sig, format!("panic at {loc}: {msg}")))
        }
    }
}

fn payload_str(e: &Box<dyn Any + Send>) -> String {
    if let Some(s) = e.downcast_ref::<&str>() {
        s.to_string()
    } else if let Some(s) = e.downcast_ref::<String>() {
        s.clone()
    } else {
        "<non-string panic>".into()
    }
}

// ------------------------------------------------------------------------------------------------
// part definition

pub struct Part<C> {
    pub id: &'static str,
    pub part: &'static str,
    /// the generation + non-triviality rule, verbatim into the evidence
    pub rule: &'static str,
    pub quick_cases: u32,
    pub thorough_cases: u32,
    /// in-process worker threads (each its own TestRunner and seed); 1 = inline
    pub threads: usize,
    pub regressions: Vec<(&'static str, C)>,
    pub assumptions: Vec<&'static str>,
    /// how often a replayed / regression case is repeated (for OS-scheduled checks)
    pub replay_repeats: u32,
    pub max_shrink_iters: u32,
    /// write the current case to replays/<id>/current-<part>.json before running it
    pub crash_guard: bool,
    /// extra keys for the coverage object
    pub extra: Value,
}

impl<C> Part<C> {
    pub fn new(id: &'static str, part: &'static str, rule: &'static str) -> Self {
        Part {
            id,
            part,
            rule,
            quick_cases: 1000,
            thorough_cases: 20000,
            threads: 1,
            regressions: vec![],
            assumptions: vec![],
            replay_repeats: 1,
            max_shrink_iters: 4000,
            crash_guard: false,
            extra: json!({}),
        }
    }
}

#[derive(Default)]
struct Stats {
    evaluations: u64,
    nontrivial_hashes: HashSet<u64>,
    labels: BTreeMap<String, u64>,
    inconclusive: u64,
    excluded_known: u64,
    samples_first: Vec<Value>,
    shortest: Option<(usize, Value)>,
    trivial_sample: Option<Value>,
    failing: HashMap<u64, (String, String)>,
    shrink_steps: u64,
}

fn hash_case(v: &str) -> u64 {
    let mut h = std::collections::hash_map::DefaultHasher::new();
    v.hash(&mut h);
    h.finish()
}

fn clip(v: Value) -> Value {
    let s = v.to_string();
    if s.len() > 6000 {
        json!({ "clipped_json": format!("{}…", &s[..s.char_indices().take_while(|(i, _)| *i < 6000).last().map(|x| x.0).unwrap_or(0)]) })
    } else {
        v
    }
}

pub struct PartReport {
    pub id: String,
    pub part: String,
    pub json: Value,
    pub violations: u32,
    pub infra: bool,
}

pub struct Session {
    pub args: Args,
    known: Vec<KnownFinding>,
    reports: Vec<PartReport>,
    printed_known: HashSet<String>,
}

impl Session {
    pub fn new() -> Self {
        let args = parse_args();
        let known = load_known(&args.verif_dir);
        install_hook();
        Session { args, known, reports: vec![], printed_known: HashSet::new() }
    }

    pub fn tier(&self) -> Tier {
        self.args.tier
    }

    pub fn seed(&self) -> u64 {
        self.args.seed
    }

    fn is_known(&self, id: &str, sig: &str) -> Option<&KnownFinding> {
        self.known.iter().find(|k| k.property == id && k.status == "known" && k.signature == sig)
    }

    fn write_replay<C: Serialize>(&self, id: &str, part: &str, sig: &str, detail: &str, case: &C) -> PathBuf {
        let dir = self.args.verif_dir.join("replays").join(id);
        let _ = std::fs::create_dir_all(&dir);
        let body = json!({"property": id, "part": part, "signature": sig, "detail": detail, "case": case});
        let text = serde_json::to_string_pretty(&body).unwrap();
        let clean: String = sig.chars().map(|c| if c.is_ascii_alphanumeric() { c } else { '_' }).take(60).collect();
        let path = dir.join(format!("{part}-{clean}-{:08x}.json", hash_case(&text) as u32));
        std::fs::write(&path, text).expect("write replay");
        path
    }

    /// Run one part of a property.  Returns true iff no (unlisted) violation was found.
    pub fn run_part<C, S, F>(&mut self, part: Part<C>, strategy: S, f: F) -> bool
    where
        C: Serialize + DeserializeOwned + Debug + Clone + Send + 'static,
        S: Strategy<Value = C> + Clone + Send + 'static,
        F: Fn(&C) -> Outcome + Sync,
    {
        if let Some(p) = &self.args.only_part {
            if p != part.part {
                return true;
            }
        }
        let start = Instant::now();
        // ---------------- replay mode
        if let Some(path) = self.args.replay.clone() {
            let text = match std::fs::read_to_string(&path) {
                Ok(t) => t,
                Err(e) => {
                    eprintln!("cannot read replay {}: {e}", path.display());
                    std::process::exit(2);
                }
            };
            let v: Value = serde_json::from_str(&text).unwrap_or(Value::Null);
            if v.get("property").and_then(|x| x.as_str()) != Some(part.id) || v.get("part").and_then(|x| x.as_str()) != Some(part.part) {
                return true;
            }
            let case: C = match serde_json::from_value(v["case"].clone()) {
                Ok(c) => c,
                Err(e) => {
                    eprintln!("replay case does not parse for {}/{}: {e}", part.id, part.part);
                    std::process::exit(2);
                }
            };
            let mut bad = None;
            for _ in 0..part.replay_repeats.max(1) {
                let o = run_one(&f, &case);
                if let Outcome::Violation { signature, detail } = o {
                    bad = Some((signature, detail));
                    break;
                }
            }
            let violations = if let Some((sig, detail)) = bad {
                eprintln!("replay: {sig}\n  {detail}");
                if let Some(k) = self.is_known(part.id, &sig) {
                    println!("KNOWN-FINDING: property={} {}", part.id, k.what);
                    0
                } else {
                    println!("VIOLATION property={} replay={}", part.id, path.display());
                    1
                }
            } else {
                eprintln!("replay: case passes");
                0
            };
            self.reports.push(PartReport {
                id: part.id.into(),
                part: part.part.into(),
                json: json!({"property_id": part.id, "part": part.part, "replay": true, "violations": violations,
                    "evaluations": 1, "distinct_nontrivial": 0, "hashes": [], "rule": part.rule, "samples": [v["case"].clone()],
                    "wall_s": start.elapsed().as_secs_f64(), "tier": self.args.tier.name(), "seed": self.args.seed}),
                violations,
                infra: false,
            });
            return violations == 0;
        }

        // ---------------- regression cases
        let mut violations = 0u32;
        let mut known_lines = vec![];
        let mut regress_run = 0u64;
        // fixed regression cases run once: in shard 0 of a sharded run
        let regressions: &[(&'static str, C)] = if self.args.shard.0 == 0 { &part.regressions } else { &[] };
        for (name, case) in regressions {
            let mut o = run_one(&f, case);
            for _ in 1..part.replay_repeats.max(1) {
                if o.is_violation() {
                    break;
                }
                o = run_one(&f, case);
            }
            regress_run += 1;
            if let Outcome::Violation { signature, detail } = o {
                if let Some(k) = self.is_known(part.id, &signature).cloned() {
                    if self.printed_known.insert(format!("{}/{}", part.id, signature)) {
                        println!("KNOWN-FINDING: property={} {} [{}]", part.id, k.what, signature);
                    }
                    known_lines.push(signature);
                } else {
                    let p = self.write_replay(part.id, part.part, &signature, &detail, case);
                    eprintln!("regression case '{name}' fails: {signature}\n  {detail}");
                    println!("VIOLATION property={} replay={}", part.id, p.display());
                    violations += 1;
                }
            }
        }

        // ---------------- generated cases
        let total = self.args.cases.unwrap_or(match self.args.tier {
            Tier::Quick => part.quick_cases,
            Tier::Thorough => part.thorough_cases,
        });
        let (si, sn) = self.args.shard;
        let threads = part.threads.max(1);
        let per = (total / sn.max(1) / threads as u32).max(1);
        let stop = AtomicBool::new(false);
        let known_sigs: HashSet<String> =
            self.known.iter().filter(|k| k.property == part.id && k.status == "known").map(|k| k.signature.clone()).collect();
        let crash_path = self.args.verif_dir.join("replays").join(part.id).join(format!("current-{}-s{}.json", part.part, self.args.shard.0));
        if part.crash_guard {
            let _ = std::fs::create_dir_all(crash_path.parent().unwrap());
        }
        let results: Vec<(Stats, Option<C>)> = std::thread::scope(|scope| {
            let mut hs = vec![];
            for t in 0..threads {
                let strategy = strategy.clone();
                let f = &f;
                let stop = &stop;
                let known_sigs = &known_sigs;
                let seed = self
                    .args
                    .seed
                    .wrapping_mul(1_000_003)
                    .wrapping_add((si as u64) * 1009 + t as u64)
                    .wrapping_add(hash_case(part.part) & 0xffff_ffff);
                let max_shrink = part.max_shrink_iters;
                let crash_guard = part.crash_guard;
                let crash_path = &crash_path;
                let pid = part.id;
                let ppart = part.part;
                let builder = std::thread::Builder::new().name(format!("{}-{}-{t}", part.id, part.part)).stack_size(16 << 20);
                hs.push(
                    builder
                        .spawn_scoped(scope, move || {
                            let stats = Mutex::new(Stats::default());
                            let failed = AtomicBool::new(false);
                            let mut runner = TestRunner::new(Config {
                                cases: per,
                                rng_seed: RngSeed::Fixed(seed),
                                failure_persistence: None,
                                max_shrink_iters: max_shrink,
                                max_global_rejects: 65536,
                                verbose: 0,
                                ..Config::default()
                            });
                            let res = runner.run(&strategy, |case| {
                                if stop.load(Ordering::Relaxed) && !failed.load(Ordering::Relaxed) {
                                    // another worker failed: finish quietly
                                    return Ok(());
                                }
                                let text = serde_json::to_string(&case).unwrap_or_default();
                                let h = hash_case(&text);
                                if crash_guard {
                                    let body = json!({"property": pid, "part": ppart, "signature": "crash", "detail": "process died while running this case", "case": &case});
                                    let _ = std::fs::write(crash_path, body.to_string());
                                }
                                let o = run_one(f, &case);
                                let counting = !failed.load(Ordering::Relaxed);
                                let mut st = stats.lock().unwrap();
                                if !counting {
                                    st.shrink_steps += 1;
                                }
                                match o {
                                    Outcome::Pass { nontrivial, labels } => {
                                        if counting {
                                            st.evaluations += 1;
                                            for l in labels {
                                                *st.labels.entry(l).or_default() += 1;
                                            }
                                            if nontrivial {
                                                if st.nontrivial_hashes.insert(h) {
                                                    let v = serde_json::to_value(&case).unwrap_or(Value::Null);
                                                    if st.samples_first.len() < 2 {
                                                        st.samples_first.push(clip(v.clone()));
                                                    }
                                                    if text.len() <= 6000 && st.shortest.as_ref().map(|s| text.len() < s.0).unwrap_or(true) {
                                                        st.shortest = Some((text.len(), v));
                                                    }
                                                }
                                            } else if st.trivial_sample.is_none() {
                                                st.trivial_sample = Some(clip(serde_json::to_value(&case).unwrap_or(Value::Null)));
                                            }
                                        }
                                        Ok(())
                                    }
                                    Outcome::Inconclusive { why } => {
                                        if counting {
                                            st.evaluations += 1;
                                            st.inconclusive += 1;
                                            *st.labels.entry(format!("inconclusive:{}", strip_digits(&why))).or_default() += 1;
                                        }
                                        Ok(())
                                    }
                                    Outcome::Violation { signature, detail } => {
                                        if known_sigs.contains(&signature) {
                                            if counting {
                                                st.evaluations += 1;
                                                st.excluded_known += 1;
                                                *st.labels.entry(format!("known:{signature}")).or_default() += 1;
                                            }
                                            return Ok(());
                                        }
                                        if counting {
                                            st.evaluations += 1;
                                        }
                                        st.failing.insert(h, (signature.clone(), detail));
                                        failed.store(true, Ordering::Relaxed);
                                        stop.store(true, Ordering::Relaxed);
                                        Err(TestCaseError::fail(signature))
                                    }
                                }
                            });
                            let st = stats.into_inner().unwrap();
                            match res {
                                Ok(()) => (st, None),
                                Err(TestError::Fail(_, v)) => (st, Some(v)),
                                Err(TestError::Abort(r)) => {
                                    eprintln!("proptest aborted: {r}");
                                    (st, None)
                                }
                            }
                        })
                        .expect("spawn worker"),
                );
            }
            hs.into_iter().map(|h| h.join().expect("worker thread panicked outside the guarded interpreter")).collect()
        });
        if part.crash_guard {
            let _ = std::fs::remove_file(&crash_path);
        }

        // ---------------- merge
        let mut all = Stats::default();
        let mut failures: Vec<(C, String, String)> = vec![];
        for (st, fail) in results {
            all.evaluations += st.evaluations;
            all.inconclusive += st.inconclusive;
            all.excluded_known += st.excluded_known;
            all.shrink_steps += st.shrink_steps;
            for (k, v) in st.labels {
                *all.labels.entry(k).or_default() += v;
            }
            all.nontrivial_hashes.extend(st.nontrivial_hashes);
            for s in st.samples_first {
                if all.samples_first.len() < 3 {
                    all.samples_first.push(s);
                }
            }
            if let Some(s) = st.shortest {
                if all.shortest.as_ref().map(|a| s.0 < a.0).unwrap_or(true) {
                    all.shortest = Some(s);
                }
            }
            if all.trivial_sample.is_none() {
                all.trivial_sample = st.trivial_sample;
            }
            if let Some(c) = fail {
                let h = hash_case(&serde_json::to_string(&c).unwrap_or_default());
                let (sig, detail) = st.failing.get(&h).cloned().unwrap_or_else(|| match run_one(&f, &c) {
                    Outcome::Violation { signature, detail } => (signature, detail),
                    _ => ("unstable".into(), "minimal case did not fail when re-run".into()),
                });
                failures.push((c, sig, detail));
            }
        }
        for (c, sig, detail) in &failures {
            let p = self.write_replay(part.id, part.part, sig, detail, c);
            eprintln!("{}/{}: {sig}\n  {detail}\n  case: {}", part.id, part.part, serde_json::to_string(c).unwrap_or_default());
            println!("VIOLATION property={} replay={}", part.id, p.display());
            violations += 1;
        }
        let mut samples = all.samples_first.clone();
        if let Some((_, s)) = &all.shortest {
            samples.push(json!({"shortest_nontrivial": s}));
        }
        if let Some(s) = &all.trivial_sample {
            samples.push(json!({"trivial_example": s}));
        }
        if samples.is_empty() {
            for (n, c) in part.regressions.iter().take(2) {
                samples.push(json!({"regression": n, "case": c}));
            }
        }
        let infra = all.evaluations > 0 && all.inconclusive * 20 > all.evaluations;
        if infra {
            eprintln!("{}/{}: {} of {} cases inconclusive (> 5 %) — infrastructure problem", part.id, part.part, all.inconclusive, all.evaluations);
        }
        let mut hashes: Vec<u64> = all.nontrivial_hashes.iter().copied().collect();
        hashes.sort_unstable();
        let distinct = hashes.len();
        if hashes.len() > 400_000 {
            hashes.clear();
        }
        let mut j = json!({
            "property_id": part.id,
            "part": part.part,
            "tier": self.args.tier.name(),
            "seed": self.args.seed,
            "shard": [si, sn],
            "evaluations": all.evaluations + regress_run,
            "generated": all.evaluations,
            "regressions_run": regress_run,
            "distinct_nontrivial": distinct,
            "hashes": hashes.iter().map(|h| format!("{h:016x}")).collect::<Vec<_>>(),
            "rule": part.rule,
            "samples": samples,
            "label_histogram": all.labels,
            "inconclusive": all.inconclusive,
            "excluded_known": all.excluded_known,
            "known_findings_reproduced": known_lines,
            "shrink_steps": all.shrink_steps,
            "assumptions": part.assumptions,
            "wall_s": start.elapsed().as_secs_f64(),
            "violations": violations,
        });
        if let (Some(o), Some(e)) = (j.as_object_mut(), part.extra.as_object()) {
            for (k, v) in e {
                o.insert(k.clone(), v.clone());
            }
        }
        eprintln!(
            "[{}/{}] {} cases, {} distinct non-trivial, {} inconclusive, {} known-excluded, {} violation(s), {:.1}s",
            part.id,
            part.part,
            all.evaluations + regress_run,
            distinct,
            all.inconclusive,
            all.excluded_known,
            violations,
            start.elapsed().as_secs_f64()
        );
        self.reports.push(PartReport { id: part.id.into(), part: part.part.into(), json: j, violations, infra });
        violations == 0
    }

    /// Add a hand-made report (for parts not driven by proptest, e.g. shuttle explorations).
    pub fn push_report(&mut self, id: &str, part: &str, mut json: Value, violations: u32, infra: bool) {
        if let Some(o) = json.as_object_mut() {
            o.insert("property_id".into(), json!(id));
            o.insert("part".into(), json!(part));
            o.insert("tier".into(), json!(self.args.tier.name()));
            o.insert("seed".into(), json!(self.args.seed));
            o.insert("violations".into(), json!(violations));
            o.entry("hashes").or_insert(json!([]));
        }
        self.reports.push(PartReport { id: id.into(), part: part.into(), json, violations, infra });
    }

    /// For hand-driven parts: is this signature a listed known finding?  Prints the
    /// KNOWN-FINDING line (once) when it is.
    pub fn known_or_none(&mut self, id: &str, signature: &str) -> bool {
        if let Some(k) = self.is_known(id, signature).cloned() {
            if self.printed_known.insert(format!("{id}/{signature}")) {
                println!("KNOWN-FINDING: property={} {} [{}]", id, k.what, signature);
            }
            true
        } else {
            false
        }
    }

    pub fn known_signatures(&self, id: &str) -> HashSet<String> {
        self.known.iter().filter(|k| k.property == id && k.status == "known").map(|k| k.signature.clone()).collect()
    }

    /// Report a violation found by a hand-driven part: writes the replay file and prints the line.
    pub fn report_violation<C: Serialize>(&self, id: &str, part: &str, sig: &str, detail: &str, case: &C) -> PathBuf {
        let p = self.write_replay(id, part, sig, detail, case);
        eprintln!("{id}/{part}: {sig}\n  {detail}");
        println!("VIOLATION property={} replay={}", id, p.display());
        p
    }

    /// Write the part files and exit with the contract's exit code.
    pub fn finish(self) -> ! {
        let dir = self.args.verif_dir.join("evidence").join("parts");
        let _ = std::fs::create_dir_all(&dir);
        let mut code = 0;
        for r in &self.reports {
            let (si, sn) = self.args.shard;
            let name = if sn > 1 { format!("{}.{}.s{}.json", r.id, r.part, si) } else { format!("{}.{}.json", r.id, r.part) };
            if let Err(e) = std::fs::write(dir.join(&name), serde_json::to_string_pretty(&r.json).unwrap()) {
                eprintln!("cannot write evidence part {name}: {e}");
                code = 2;
            }
            if r.violations > 0 {
                code = 1;
            } else if r.infra && code == 0 {
                code = 2;
            }
        }
        if self.reports.is_empty() {
            eprintln!("vcore: no part ran (wrong --part / replay file for another binary?)");
        }
        use std::io::Write;
        let _ = std::io::stdout().flush();
        std::process::exit(code);
    }
}

impl Default for Session {
    fn default() -> Self {
        Self::new()
    }
}

fn run_one<C, F: Fn(&C) -> Outcome>(f: &F, case: &C) -> Outcome {
    match guarded(|| f(case)) {
        Ok(o) => o,
        Err((sig, detail)) => Outcome::Violation { signature: sig, detail },
    }
}
